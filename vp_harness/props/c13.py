"""C13 -- timers fire exactly on period boundaries however time advances.

Three implementations are driven through the same generated history (ticks at monotone absolute cycles with
arbitrary gaps, per-cycle bursts, reset(cycle_base), snapshot->restore into a fresh object, firmware-style
ISR writes, gated stretches ["g", c] in which the cycle counter advances without a tick -- as inside an interrupt
handler --, power-on resets ["R"] after which the clock restarts at 0) and each is compared, observation by
observation, with an arithmetic reference:

  py-sched  pce500.scheduler.TimerScheduler.advance                  (returned sources, next targets)
  py-emu    pce500.emulator.PCE500Emulator._tick_timers/_simulate_wait (the scheduler as the emulator ticks
            it: recorded advance() results, next targets, ISR byte in the emulator's memory)
  rust      sc62015_core::timer::TimerContext::tick_timers on a MemoryImage (rust/harness/src/c13.rs)
  rust-kbd  the same TimerContext ticked through tick_timers_with_keyboard -- the wrapper CoreRuntime::step, the
            HALT idle path and the device task really call -- with the history's host key events (["k", n]: n
            events wait for the next MTI-driven scan; ["k", 0]: the host latches KEYI) and firmware-style ISR
            acknowledgements, so that KEYI assertions meet timers firing with their status bit clear

Reference (closed form, no loop): a timer with period p > 0 on an enabled scheduler whose grid was last
anchored at `base` has boundaries base + k*p (k >= 1).  With `mark` the largest cycle ticked so far, a tick at
c >= mark fires iff floor((c-base)/p) > floor((mark-base)/p); afterwards the target is the smallest boundary
> c.  A disabled scheduler / a zero period never fires.  ISR bits 0 (MTI) / 1 (STI) become set when the
implementation fires and are otherwise left alone.  Python and Rust must report the same firing flags at
every tick (the statement's differential clause).

A second, machine-level layer lives in c13_machine.py (real step() loops: NOP / WAIT / HALT programs).
"""

from __future__ import annotations

import json
from math import gcd
from typing import Any, Dict, List, Optional, Tuple

from ..core import Ctx, HarnessError, Report, Violation, jhash, mix32
from ..gen_state import Stream
from .. import rsclient
from . import c13_machine as M
from . import c13_live as L

PROPERTY = "C13"
RULE = ("histories over (mti, sti, enabled): all period pairs in {0..12}^2 (complete, both tiers) plus sampled "
        "large/mixed periods (2048, 512000, 2^31-1, powers of two, random); per pair N generated histories "
        "(quick 20, thorough 400) of kinds per-cycle (every cycle 1..3*lcm+5), gaps (0, 1, p-1, p, p+1, k*p, "
        "exact boundary landings, random up to 4*p, multi-period), wait (single steps, bursts, same-cycle "
        "re-ticks), with reset(cycle_base), snapshot->restore and ISR writes at generated points and cycle "
        "bases 0 / small / straddling 2^31 / above 2^32 / above 2^40; in 3 of 8 histories handler-shaped gated "
        "stretches (the cycle counter advances without ticks: short, outlasting the next boundary, several "
        "periods) with snapshot round trips inside them (saved target behind the cycle counter) and the catch-up "
        "tick afterwards; in 1 of 4 histories power-on resets after N > 0 cycles (clock restarts at 0: "
        "TimerScheduler.reset(), the real PCE500Emulator.reset(), TimerContext::reset(0)). Each history is "
        "executed on TimerScheduler, on PCE500Emulator._tick_timers/_simulate_wait, on Rust "
        "TimerContext::tick_timers and on TimerContext::tick_timers_with_keyboard (scan closure = the history's key "
        "events); 1 of 3 histories carries a keyboard dimension (own value stream): key events waiting for the next "
        "MTI-driven scan, host-latched KEYI, ISR acknowledgements (0, KEYI kept, timer bits kept, random), keyboard "
        "interrupt enable off in 1 of 8 of them. "
        "Machine layer: per pair in {0..12}^2 (quick 2, thorough 24 programs) plus larger periods, a generated "
        "NOP / MV IL,n+WAIT / HALT program stepped 24..73 times on PCE500Emulator.step and CoreRuntime.step with "
        "ISR acknowledgements and real save/load snapshots at generated steps (IMR = 0); plus per pair (quick 2, "
        "thorough 12) and for larger periods an 'irq' flavour: ROM image with looping main program, interrupt "
        "handler (RETI at once .. NOP runs .. own WAITs outlasting several periods) and vectors, IMR generated "
        "(IRM with one/both timer sources, 0xFF, IRM only, sources without IRM, 0), 40..119 steps with up to 5 "
        "real save/load round trips (also inside the handler) and up to 2 machine resets after N > 0 cycles "
        "(PCE500Emulator.reset(); CoreRuntime power_on_reset + timer.reset_full(cycle_count)). Every second machine "
        "run (both flavours) has a keyboard dimension: columns strobed (all / random / power-on state), keys held down "
        "and released at generated steps on the machines' real keyboard matrices, harness acknowledgements that also "
        "clear KEYI, keyboard interrupt enable off in 1 of 8, and in 2 of 3 of them the program acknowledges requests "
        "itself (1..3 MV (ISR),v with v free of timer bits at instruction boundaries of the main program, in 1 of 3 "
        "irq runs also at the handler's entry). "
        "Bulk entry points (round 4): per pair (quick 1, thorough 4) and for larger periods a 'run' flavour -- irq-flavour "
        "machine set-up, firmware-style idle loop (MV (ISR),v + HALT, WAITs, NOP runs), handler that may acknowledge at "
        "its entry, IMR generated, 60..219 instructions, host actions (acknowledgements, save/load round trips, resets, "
        "in 1 of 4 key activity) only between calls -- executed single-stepped (judged as every other run) and once "
        "per chunking (two per case: generated call sizes 1..50 / one tail call, and uniform n = 2, 3, 7 or 50) with "
        "ONE PCE500Emulator.run(n) / CoreRuntime::step(n) call per chunk; at the end of every call cycle counter, next "
        "targets, ISR bits 0/1 and (PCE500Emulator) the cycles at which the scheduler reported firings are compared with "
        "the single-stepped execution of the same implementation. "
        "Host life-cycle layer (round 5, c13_live.py): per pair (quick 2 + 1, thorough 24 + 6) and for larger periods "
        "(a) 'async' cases -- the public device task AsyncTimerKeyboardTask::run / run_for spawned on an AsyncDriver "
        "that is advanced in slices of 1..2*period cycles, the host acting on the shared CoreRuntime between slices: "
        "ISR acknowledgements, timer.reset(now), period reprogramming + reset, same-point snapshot round trips and "
        "restores of earlier snapshot_info()s (targets nearer than / behind the ones the task last saw); after every "
        "slice next targets and ISR bits 0/1 must be where per-cycle ticking leaves them; (b) 'rollback' cases -- a "
        "PCE500Emulator ticked through _tick_timers() whose state is captured with the real save_snapshot, which keeps "
        "running (timers fire, bits acknowledged or left pending) and is later rolled back with the real load_snapshot "
        "into the same used instance (1 of 5: a fresh one), the snapshot file loaded as written, without the metadata "
        "entries the Rust core does not write, or without a generated subset of the entries load_snapshot treats as "
        "optional; non-trivial = >= 2 fires and a re-arm / a fire after the rollback. "
        "Non-trivial = some active timer crosses >= 2 boundaries in the history, or a tick lands exactly on a "
        "boundary, or one gap skips > 1 period (machine layer: >= 2 target movements); distinct = (mti, sti, "
        "enabled, hash of the op list / program+step schedule).")

I32MAX = 2 ** 31 - 1
ISR_MTI, ISR_STI = 0x01, 0x02
TIMERS = ("MTI", "STI")
LOOP_BUDGET = 300_000  # bound on while-loop iterations a single history may cause in any implementation

ASSUMPTIONS = [
    "'next target strictly in the future' is asserted for active timers only (enabled scheduler, period > 0); "
    "the two implementations park inactive targets differently (Python base+0, Rust 0) and the statement cannot "
    "hold for a zero period",
    "the enabled flag is a per-history configuration; toggling it or changing periods mid-history is not generated "
    "(the statement does not say what re-enabling/re-periodising does to the phase)",
    "ticks are monotone non-decreasing in the cycle number (same-cycle re-ticks included: the Python HALT wake "
    "path ticks twice at one cycle); reset(cycle_base) uses cycle_base >= every earlier cycle; the only way back "
    "is the power-on reset op, after which the clock restarts at 0",
    "gated stretches: the cycle counter advances while nothing ticks the timers (what both machines do inside an "
    "interrupt handler); the reference's boundaries do not move, the first tick afterwards fires once if >= 1 "
    "boundary went by (catch-up) and a snapshot round trip in between keeps a target that lies behind the cycle "
    "counter (timer.rs: 'do not rebase forward. Allow immediate fire if targets are in the past'; "
    "PCE500Emulator.load_snapshot: 'Restore persisted next-fire offsets so cadence matches the snapshot')",
    "power-on reset: afterwards next target - cycle counter == period (PCE500Emulator.reset(): 'to match power-on "
    "behaviour', pce500/tests/test_interrupts.py::test_reset_reinitializes_timers_and_interrupt_state); an "
    "implementation whose counter is not 0 after the reset is judged on that relation only and not followed "
    "further; the ISR byte is re-read after the reset (no verdict on it)",
    "snapshot/restore is a round trip at one point of the history (snapshot_info -> apply_snapshot_info on a "
    "fresh TimerContext; Python: the field assignments PCE500Emulator.load_snapshot performs on a fresh "
    "TimerScheduler); restoring an older snapshot or cross-loading Python<->Rust is C16's subject",
    "periods are within 0..2^31-1 (TimerContext::new takes i32); negative periods are not generated; cycle "
    "numbers stay below 2^41 (u64 wrap-around is not exercised)",
    "the exact next target (smallest boundary > c) is asserted because any other value contradicts the firing "
    "clause on some continuation of the history",
    "ISR: bits 0/1 must equal (before | bits of the timers the implementation reported as fired); bits 2..7 must "
    "be unchanged by a tick (docstring of PCE500Emulator._set_isr_bits: 'OR mask into ISR register')",
    "rust-kbd: tick_timers_with_keyboard is given a scan closure that reports the key events the history queued "
    "since the last scan (the closure stands for the host's keyboard; the crate calls it only when MTI fires) and "
    "['k', 0] sets the public key_irq_latched field (as lib.rs and the maintainers' test "
    "tick_timers_with_keyboard_reasserts_keyi_without_events do); verdicts are exactly those of the bare tick -- "
    "firing flags, next targets, ISR bits 0/1 = before | fired -- while ISR bit 2 (KEYI) is not judged (C12/C14) "
    "and 'other bits unchanged' means bits 3..7; a rust-kbd failure on a timer / the ISR byte on which the bare "
    "tick_timers run failed at or before the same op is the same root cause and dropped; the Python scheduler and "
    "PCE500Emulator._tick_timers have no keyboard side in the default configuration (scan-on-timer off), ['k', n] is "
    "a no-op there",
    "machine layer, keyboard dimension: key presses/releases go to the machines' own keyboard (CoreRuntime: "
    "KeyboardMatrix.press_matrix_code/release_matrix_code/handle_write(KOL/KOH); PCE500Emulator.press_key/"
    "release_key, KOL/KOH written through emulator memory); what KEYI does is not judged, only that the timer verdicts "
    "keep holding with it; a step whose instruction is the program's own MV (ISR),v (v never contains a timer bit) is "
    "not judged on ISR bits 0/1 on PCE500Emulator (it ticks before executing the store), on CoreRuntime only 'fired "
    "during the step => bit set after it' is kept (lib.rs step: execute, then the per-cycle tick loop; nothing after "
    "the tick loop clears a timer bit outside RETI, during which the timers are gated)",
    "Rust finalize_instruction_with_clamp, timer_scale and preserve_phase=false are not part of the statement "
    "and are not exercised",
    "PCE500Emulator._simulate_wait(n) is expected to advance cycle_count by n and to tick the scheduler once per "
    "cycle (Rust lib.rs: 'mirroring Python _simulate_wait which burns I cycles and ticks timers/keyboard each "
    "iteration')",
    "machine layer, plain flavour: IMR = 0 so no interrupt is delivered and ticking is never suppressed; irq "
    "flavour: IMR generated, interrupts are delivered and handlers run.  'No boundary <= C-1 left unconsumed' is "
    "asserted for steps whose instruction executed outside a handler (in_interrupt false when the instruction "
    "ran: CoreRuntime = flag before the step, PCE500Emulator = flag at cpu.execute_instruction, recorded by an "
    "instance-level observer) -- both machines tick every cycle of such an instruction, WAIT idle cycles included, "
    "and deliver only at instruction boundaries; for instructions inside a handler only grid / monotone / 'not "
    "beyond the smallest boundary > C' / status-bit consistency are asserted (that ticking is *suppressed* there is "
    "the mechanism, not part of the statement, and is not asserted); 'a pending status bit is not cleared by a "
    "step' is asserted outside handlers only (CoreRuntime's RETI clears the delivered bit); a run whose PC leaves "
    "main program and handler is not judged further (label machine:derailed, expected 0)",
    "bulk entry points: PCE500Emulator.run(n) is documented by its body (`while count < n: step()`, an idle HALT "
    "cycle counts as one step) and CoreRuntime::step(n) by its (`for _ in 0..instructions`); the statement quantifies "
    "over the ways the cycle counter advances, not over how the host chops the instruction stream into calls, so "
    "after a call of n instructions the timers (next targets of active timers, ISR bits 0/1, firing cycles reported by "
    "the real TimerScheduler.advance) must be where n single steps of the same implementation leave them; host "
    "actions happen between calls only (a step that carries one starts a new call); only the first differing call per "
    "run is reported; nothing is judged after the single-stepped reference left the generated program or when only "
    "non-timer state (cycle counter, PC, halted, in-interrupt, delivery counter) differs (label "
    "machine:bulk:non-timer-state-differs(not judged), expected 0); breakpoints, tracing and run(None) are not "
    "exercised",
    "machine reset at a generated step: PCE500Emulator.reset() / CoreRuntime.power_on_reset() + "
    "timer.reset_full(cycle_count) (what the PyO3 wrapper's power_on_reset does), then S, IMR, ISR are re-written "
    "by the harness as at start; verdict: next target - cycle counter == period, and the grid is re-anchored at "
    "the machine's own counter",
    "the two machines tick "
    "at different points of a step (Python at the start of the next step, Rust at the end of this one), so after a "
    "step ending at cycle C the target may be the smallest boundary > C-1 or > C; firing is observed through "
    "target movement and the ISR bit; how many cycles an instruction takes is taken from the machine's own cycle "
    "counter (cycle accounting, e.g. WAIT with I = 0 costing 65536 cycles in Python and 0 in CoreRuntime, is not "
    "C13's subject); no Python<->Rust differential at machine level",
]


# --------------------------------------------------------------------------------------------------
# Arithmetic reference
# --------------------------------------------------------------------------------------------------

class RefTimer:
    __slots__ = ("p", "active", "base", "mark")

    def __init__(self, p: int, enabled: bool) -> None:
        self.p = p
        self.active = bool(enabled) and p > 0
        self.base = 0
        self.mark = 0

    def reset(self, b: int) -> None:
        self.base = b
        self.mark = b

    def nxt(self) -> Optional[int]:
        if not self.active:
            return None
        return self.base + ((self.mark - self.base) // self.p + 1) * self.p

    def tick(self, c: int) -> Tuple[bool, int, bool]:
        """(fired, boundaries crossed, landed exactly on a boundary)."""
        if not self.active:
            return False, 0, False
        k0 = (self.mark - self.base) // self.p
        k1 = (c - self.base) // self.p
        if c > self.mark:
            self.mark = c
        crossed = max(0, k1 - k0)
        return crossed > 0, crossed, crossed > 0 and (c - self.base) % self.p == 0


def ref_run(case: Dict[str, Any]) -> Tuple[List[Any], Dict[str, Any]]:
    """Expected observations, aligned with case['ops'], and summary facts used for labels/non-triviality."""
    tm = RefTimer(int(case["mti"]), case["enabled"])
    ts = RefTimer(int(case["sti"]), case["enabled"])
    isr = int(case.get("isr0", 0)) & 0xFF
    last = 0
    out: List[Any] = []
    facts = {"cross_m": 0, "cross_s": 0, "landing": False, "multi": False, "both": False, "same": False,
             "hi": False, "ticks": 0, "gated": False, "stale_snap": False, "catch_up": False, "restart": False,
             "keys": False}
    gated_since_tick = False

    def one(c: int) -> Dict[str, Any]:
        nonlocal isr
        nm0, ns0 = tm.nxt(), ts.nxt()
        fm, km, lm = tm.tick(c)
        fs, ks, ls = ts.tick(c)
        facts["cross_m"] += km
        facts["cross_s"] += ks
        facts["landing"] |= lm or ls
        facts["multi"] |= km > 1 or ks > 1
        facts["both"] |= fm and fs
        facts["ticks"] += 1
        hi = c > I32MAX or (nm0 or 0) > I32MAX or (ns0 or 0) > I32MAX
        facts["hi"] |= hi
        return {"c": c, "fm": fm, "fs": fs, "nm": tm.nxt(), "ns": ts.nxt(), "km": km, "ks": ks, "hi": hi}

    for op in case["ops"]:
        verb = op[0]
        arg = int(op[1]) if len(op) > 1 else 0
        if verb == "t":
            if arg == last and facts["ticks"]:
                facts["same"] = True
            last = arg
            e = one(arg)
            if gated_since_tick and (e["fm"] or e["fs"]):
                facts["catch_up"] = True
            gated_since_tick = False
            out.append(e)
        elif verb == "b":
            burst = []
            for _ in range(arg):
                last += 1
                burst.append(one(last))
            if gated_since_tick and burst and (burst[0]["fm"] or burst[0]["fs"]):
                facts["catch_up"] = True
            if burst:
                gated_since_tick = False
            out.append(burst)
        elif verb == "r":
            tm.reset(arg)
            ts.reset(arg)
            last = arg
            gated_since_tick = False
            out.append({"nm": tm.nxt(), "ns": ts.nxt(), "hi": (tm.nxt() or 0) > I32MAX or (ts.nxt() or 0) > I32MAX})
        elif verb == "s":
            # stale: the saved target is not in the future of the cycle counter handed to the restore (the
            # timers were gated while a boundary went by)
            stale = [n is not None and n <= last for n in (tm.nxt(), ts.nxt())]
            facts["stale_snap"] |= any(stale)
            out.append({"nm": tm.nxt(), "ns": ts.nxt(), "stale": stale, "c": last,
                        "hi": last > I32MAX or (tm.nxt() or 0) > I32MAX or (ts.nxt() or 0) > I32MAX})
        elif verb == "g":
            # gated advance: the cycle counter moves on, the timers are not ticked (mark stays)
            last = arg
            gated_since_tick = True
            facts["gated"] = True
            out.append({"nm": tm.nxt(), "ns": ts.nxt(), "c": arg})
        elif verb == "R":
            # power-on style reset: the clock restarts at 0 and the grid is anchored there
            tm.reset(0)
            ts.reset(0)
            last = 0
            gated_since_tick = False
            facts["restart"] = True
            out.append({"nm": tm.nxt(), "ns": ts.nxt(), "hi": False})
        elif verb == "w":
            out.append({"isr": arg & 0xFF})
        elif verb == "k":
            # host keyboard activity: no effect on the timers' boundaries
            facts["keys"] = True
            out.append({})
        else:
            raise HarnessError(f"bad op {op!r}")
    return out, facts


# --------------------------------------------------------------------------------------------------
# Implementations under test.  Observation format (shared with rust/harness/src/c13.rs):
#   tick: [flags, next_mti, next_sti, isr|None]; burst: list of ticks (py-emu: {"end": tick});
#   reset/snapshot: [next_mti, next_sti]; write: [isr]
# --------------------------------------------------------------------------------------------------

def _flags(fired: Any) -> int:
    from pce500.scheduler import TimerSource

    f = 0
    for src in fired:
        if src is TimerSource.MTI:
            f |= 1
        elif src is TimerSource.STI:
            f |= 2
        else:
            f |= 4
    return f


RUNAWAY = 4 * LOOP_BUDGET


def _runaway(s: Any, c: int) -> Optional[List[Any]]:
    """A generated history never makes a correct implementation loop more than LOOP_BUDGET times in one tick.
    If an implementation's own target has been left so far behind that the next tick would spin for longer than
    RUNAWAY iterations, stop driving it (the judge reports it) instead of hanging the harness."""
    if not s.enabled:
        return None
    for name, p, n in (("MTI", s.mti_period, s.next_mti), ("STI", s.sti_period, s.next_sti)):
        if p > 0 and c >= n and (c - n) // p > RUNAWAY:
            return [name, c, n]
    return None


def run_py_sched(case: Dict[str, Any]) -> List[Any]:
    from pce500.scheduler import TimerScheduler

    s = TimerScheduler(mti_period=int(case["mti"]), sti_period=int(case["sti"]), enabled=bool(case["enabled"]))
    last = 0
    obs: List[Any] = []
    for op in case["ops"]:
        verb = op[0]
        arg = int(op[1]) if len(op) > 1 else 0
        if verb in ("t", "b"):
            ra = _runaway(s, arg if verb == "t" else last + 1)
            if ra:
                obs.append({"runaway": ra})
                return obs
        if verb == "t":
            last = arg
            f = _flags(s.advance(arg))
            obs.append([f, s.next_mti, s.next_sti, None])
        elif verb == "b":
            burst = []
            for _ in range(arg):
                last += 1
                f = _flags(s.advance(last))
                burst.append([f, s.next_mti, s.next_sti, None])
            obs.append(burst)
        elif verb == "r":
            s.reset(cycle_base=arg)
            last = arg
            obs.append([s.next_mti, s.next_sti])
        elif verb == "s":
            info = json.loads(json.dumps({
                "enabled": bool(s.enabled), "mti_period": int(s.mti_period), "sti_period": int(s.sti_period),
                "next_mti": int(s.next_mti), "next_sti": int(s.next_sti)}))
            # The assignments PCE500Emulator.load_snapshot performs, on a fresh scheduler with the
            # emulator's default periods.
            n = TimerScheduler(mti_period=2048, sti_period=512000)
            n.mti_period = int(info["mti_period"])
            n.sti_period = int(info["sti_period"])
            n.reset(cycle_base=last)
            n.next_mti = int(info["next_mti"])
            n.next_sti = int(info["next_sti"])
            n.enabled = bool(info["enabled"])
            s = n
            obs.append([s.next_mti, s.next_sti])
        elif verb == "w":
            obs.append([arg & 0xFF])
        elif verb == "g":
            last = arg
            obs.append([s.next_mti, s.next_sti])
        elif verb == "R":
            s.reset()                       # default cycle_base: the power-on call PCE500Emulator.reset() makes
            last = 0
            obs.append([s.next_mti, s.next_sti, 0, None])
        elif verb == "k":
            obs.append([])                  # the scheduler has no keyboard side
    return obs


_EMU_CONST: Dict[str, Any] = {}


def _emu_consts() -> Dict[str, Any]:
    if not _EMU_CONST:
        from pce500.emulator import PCE500Emulator
        from sc62015.pysc62015.constants import INTERNAL_MEMORY_START
        from sc62015.pysc62015.instr.opcodes import IMEMRegisters

        _EMU_CONST["cls"] = PCE500Emulator
        _EMU_CONST["isr"] = INTERNAL_MEMORY_START + int(IMEMRegisters.ISR)
    return _EMU_CONST


def _new_emu() -> Any:
    k = _emu_consts()
    emu = k["cls"](perfetto_trace=False, save_lcd_on_exit=False)
    if getattr(emu.cpu, "backend", "python") != "python":
        raise HarnessError("PCE500Emulator did not come up on the python backend")
    return emu


def _record_advance(emu: Any, log: List[Tuple[int, int]]) -> None:
    """Record (cycle, flags) of every real TimerScheduler.advance call the emulator makes."""
    sched = emu._scheduler
    orig = type(sched).advance

    def advance(cycle_count: int, _s: Any = sched) -> Any:
        out = list(orig(_s, cycle_count))
        log.append((int(cycle_count), _flags(out)))
        return out

    sched.advance = advance  # instance attribute shadows the method for this emulator only


def run_py_emu(case: Dict[str, Any]) -> List[Any]:
    k = _emu_consts()
    isr_addr = k["isr"]
    emu = _new_emu()
    log: List[Tuple[int, int]] = []
    # Configure like the maintainers' tests do (emu._timer_* forward to the scheduler), then anchor at 0.
    emu._timer_mti_period = int(case["mti"])
    emu._timer_sti_period = int(case["sti"])
    emu._timer_enabled = bool(case["enabled"])
    emu._scheduler.reset(cycle_base=0)
    emu.memory.write_byte(isr_addr, int(case.get("isr0", 0)) & 0xFF)
    _record_advance(emu, log)
    last = 0
    obs: List[Any] = []
    for op in case["ops"]:
        verb = op[0]
        arg = int(op[1]) if len(op) > 1 else 0
        if verb in ("t", "b"):
            ra = _runaway(emu._scheduler, arg if verb == "t" else last + 1)
            if ra:
                obs.append({"runaway": ra})
                return obs
        if verb == "t":
            last = arg
            emu.cycle_count = arg
            del log[:]
            emu._tick_timers()
            f = 0
            for c, fl in log:
                f |= fl
            calls = [c for c, _ in log]
            obs.append([f, emu._scheduler.next_mti, emu._scheduler.next_sti,
                        emu.memory.read_byte(isr_addr) & 0xFF, calls])
        elif verb == "b":
            emu.cycle_count = last
            del log[:]
            emu._simulate_wait(arg)
            last += arg
            f = 0
            for c, fl in log:
                f |= fl
            obs.append({"end": [f, emu._scheduler.next_mti, emu._scheduler.next_sti,
                                emu.memory.read_byte(isr_addr) & 0xFF, int(emu.cycle_count)],
                        "per": [[c, fl] for c, fl in log]})
        elif verb == "r":
            emu._scheduler.reset(cycle_base=arg)
            last = arg
            obs.append([emu._scheduler.next_mti, emu._scheduler.next_sti])
        elif verb == "s":
            info = json.loads(json.dumps({
                "enabled": bool(emu._timer_enabled), "mti_period": int(emu._timer_mti_period),
                "sti_period": int(emu._timer_sti_period), "next_mti": int(emu._timer_next_mti),
                "next_sti": int(emu._timer_next_sti)}))
            isr_val = emu.memory.read_byte(isr_addr) & 0xFF
            emu = _new_emu()
            emu.cycle_count = last
            emu.memory.write_byte(isr_addr, isr_val)
            emu._timer_enabled = bool(info["enabled"])
            emu._timer_mti_period = int(info["mti_period"])
            emu._timer_sti_period = int(info["sti_period"])
            emu._scheduler.reset(cycle_base=emu.cycle_count)
            emu._scheduler.next_mti = int(info["next_mti"])
            emu._scheduler.next_sti = int(info["next_sti"])
            emu._scheduler.enabled = bool(info["enabled"])
            _record_advance(emu, log)
            obs.append([emu._scheduler.next_mti, emu._scheduler.next_sti])
        elif verb == "w":
            emu.memory.write_byte(isr_addr, arg & 0xFF)
            obs.append([emu.memory.read_byte(isr_addr) & 0xFF])
        elif verb == "g":
            last = arg
            emu.cycle_count = arg
            obs.append([emu._scheduler.next_mti, emu._scheduler.next_sti])
        elif verb == "R":
            emu.cycle_count = last          # the machine has run this far ...
            emu.reset()                     # ... and is reset: the real PCE500Emulator.reset()
            last = 0
            obs.append([emu._scheduler.next_mti, emu._scheduler.next_sti, int(emu.cycle_count),
                        emu.memory.read_byte(isr_addr) & 0xFF])
        elif verb == "k":
            obs.append([])                  # _tick_timers does not scan the keyboard (scan-on-timer is off)
    return obs


def run_rust(cases: List[Dict[str, Any]], kbd: bool = False) -> List[Any]:
    """kbd: every tick goes through TimerContext::tick_timers_with_keyboard (scan closure = the history's key
    events) instead of the bare tick_timers."""
    out: List[Any] = []
    B = 64
    for i in range(0, len(cases), B):
        resp = M.rust_call({"cmd": "c13.batch", "cases": [
            {"mti": c["mti"], "sti": c["sti"], "enabled": c["enabled"], "isr0": c.get("isr0", 0), "ops": c["ops"],
             "runaway": RUNAWAY, "kbd": kbd, "kbirq": bool(c.get("kbirq", True))}
            for c in cases[i:i + B]]})
        if not resp.get("ok"):
            raise HarnessError(f"c13.batch failed: {str(resp)[:300]}")
        out.extend(resp["results"])
    return out


# --------------------------------------------------------------------------------------------------
# Verdicts
# --------------------------------------------------------------------------------------------------

def _ctx_name(after_reset: bool, after_snap: bool, hi: bool, full: bool = False, stale: bool = False) -> str:
    """Context part of `where`.  Tick-level verdicts only say whether a restore preceded them; the reset/restore
    verdicts (full=True) also say whether the target lies beyond the i32 range and whether it was already behind
    the cycle counter handed to the restore (timers gated while a boundary went by): both are causal there."""
    s = " after-snapshot" if after_snap else ""
    if full and stale:
        s += " stale-target"
    if full and hi:
        s += " targets>i32"
    return s


def _gap_class(c: int, prev: int, p: int) -> str:
    g = c - prev
    if g == 0:
        return "same-cycle"
    if g == 1:
        return "step-1"
    if p > 0 and g > p:
        return "gap>period"
    return "gap<=period"


class _Judge:
    """Compares one implementation's observations with the reference; first failure per timer only."""

    def __init__(self, impl: str, case: Dict[str, Any], has_isr: bool) -> None:
        self.impl = impl
        self.case = case
        self.has_isr = has_isr
        self.dead = {"MTI": False, "STI": False, "ISR": False, "CALLS": False}
        self.out: List[Violation] = []
        self.out_keys: List[str] = []        # judge key ("MTI"/"STI"/"ISR"/"CALLS") of each entry of `out`
        self.first_fail_op: Dict[str, int] = {}
        self.stats: Dict[str, int] = {}

    def fail(self, key: str, opi: int, subcheck: str, timer: str, ctx: str, symptom: str, detail: str) -> None:
        if self.dead[key]:
            return
        self.dead[key] = True
        self.first_fail_op[key] = opi
        if key == "CALLS":   # the emulator is out of step with the history: nothing after this is meaningful
            for k in self.dead:
                self.dead[k] = True
        self.out_keys.append(key)
        self.out.append(Violation(subcheck, f"{self.impl}:{timer}{ctx}", symptom, self.case,
                                  f"op#{opi} {self.case['ops'][opi]!r} (mti={self.case['mti']} sti={self.case['sti']} "
                                  f"enabled={self.case['enabled']}): {detail}"))


def judge(case: Dict[str, Any], ref: List[Any], impl: str, obs: Any, has_isr: bool, kbd: bool = False,
          info: Optional[Dict[str, Any]] = None) -> Tuple[List[Violation], Dict[str, int]]:
    """kbd: the implementation ticks through the keyboard-scanning wrapper, which may assert ISR bit 2 (KEYI) on a
    tick; bits 0/1 are judged exactly as before, 'other bits unchanged' then means bits 3..7.
    info (optional) receives {"keys": judge key per violation, "stats": counters for labels}."""
    J = _Judge(impl, case, has_isr)
    if info is not None:
        info["keys"], info["stats"] = J.out_keys, J.stats
    other = 0xF8 if kbd else 0xFC
    if isinstance(obs, dict) and ("panic" in obs or "error" in obs):
        msg = str(obs.get("panic") or obs.get("error"))
        J.out.append(Violation("crash", f"{impl}", "implementation raised/panicked", case, msg[:300]))
        return J.out, {}
    periods = {"MTI": int(case["mti"]), "STI": int(case["sti"])}
    active = {t: bool(case["enabled"]) and periods[t] > 0 for t in TIMERS}
    isr = int(case.get("isr0", 0)) & 0xFF
    after_reset = after_snap = False
    prev_c = 0
    truncated = bool(obs) and isinstance(obs[-1], dict) and "runaway" in obs[-1]
    if len(obs) != len(case["ops"]) and not truncated:
        J.out.append(Violation("crash", impl, "observation count differs from op count", case,
                               f"{len(obs)} observations for {len(case['ops'])} ops"))
        return J.out, {}

    def check_tick(opi: int, e: Dict[str, Any], o: List[Any], check_isr: bool, isr_before: int) -> int:
        nonlocal prev_c
        c = e["c"]
        ctx = _ctx_name(after_reset, after_snap, e["hi"])
        flags = o[0]
        for ti, t in enumerate(TIMERS):
            bit = 1 << ti
            fired = bool(flags & bit)
            exp = e["fm"] if ti == 0 else e["fs"]
            nxt = o[1 + ti]
            enx = e["nm"] if ti == 0 else e["ns"]
            gc = _gap_class(c, prev_c, periods[t])
            if not active[t]:
                if fired:
                    why = "disabled scheduler" if not case["enabled"] else "zero period"
                    J.fail(t, opi, "never-fires", t, ctx, f"inactive timer fired ({why})",
                           f"tick at {c}: fired although {why}")
                continue
            if fired and not exp:
                J.fail(t, opi, "cadence", t, ctx, "fired without a boundary crossed",
                       f"tick at {c} ({gc}): fired, but no boundary of the grid in (previous tick, {c}]; "
                       f"expected next target {enx}, got {nxt}")
            elif exp and not fired:
                J.fail(t, opi, "cadence", t, ctx, "boundary crossed but not fired",
                       f"tick at {c} ({gc}) crossed {e['km'] if ti == 0 else e['ks']} boundary(ies) without firing; "
                       f"next target {nxt}, expected {enx}")
            elif nxt is not None and nxt <= c:
                J.fail(t, opi, "next-target", t, ctx, "next target not strictly in the future after a tick",
                       f"tick at {c} ({gc}): next target {nxt} <= cycle")
            elif nxt != enx:
                J.fail(t, opi, "next-target", t, ctx, "next target is not the smallest boundary after the tick",
                       f"tick at {c} ({gc}): next target {nxt}, smallest boundary > {c} is {enx}")
        if flags & ~3:
            J.fail("CALLS", opi, "cadence", "-", ctx, "unknown timer source reported", f"flags={flags}")
        new_isr = isr_before
        if check_isr:
            got = o[3]
            want01 = (isr_before | (flags & 3)) & 3
            if (got & 3) != want01:
                missing = want01 & ~got & 3
                extra = got & ~want01 & 3
                if missing & (flags & 3):
                    sym = "fired but status bit not set"
                elif missing:
                    sym = "tick cleared a pending status bit"
                else:
                    sym = "status bit set without firing"
                names = "+".join(TIMERS[i] for i in range(2) if (missing | extra) >> i & 1)
                J.fail("ISR", opi, "status-bit", names, ctx, sym,
                       f"tick at {c}: flags={flags & 3:02b} ISR before={isr_before:#04x} after={got:#04x}")
            elif (got & other) != (isr_before & other):
                J.fail("ISR", opi, "status-bit", "other-bits", ctx,
                       "tick changed ISR bits 3..7" if kbd else "tick changed ISR bits 2..7",
                       f"tick at {c}: ISR before={isr_before:#04x} after={got:#04x}")
            if kbd and (got & 4) and not (isr_before & 4):
                J.stats["keyi_rise"] = J.stats.get("keyi_rise", 0) + 1
                if flags & 3 & ~isr_before:
                    # KEYI was asserted on the very tick on which a timer fired whose status bit was clear
                    J.stats["keyi_rise_on_fresh_fire"] = J.stats.get("keyi_rise_on_fresh_fire", 0) + 1
            new_isr = got
        prev_c = c
        return new_isr

    for opi, (op, e, o) in enumerate(zip(case["ops"], ref, obs)):
        verb = op[0]
        if isinstance(o, dict) and "runaway" in o:
            t, c, n = o["runaway"]
            J.fail(t, opi, "next-target", t, _ctx_name(after_reset, after_snap, False),
                   "next target left far behind the cycle counter (the tick would spin)",
                   f"before the tick at {c}: next target {n}; execution of this history stopped here")
            break
        if verb == "t":
            if impl == "py-emu":
                calls = o[4]
                if calls != [e["c"]]:
                    J.fail("CALLS", opi, "emulator-ticking", "-", _ctx_name(after_reset, after_snap, e["hi"]),
                           "_tick_timers did not advance the scheduler exactly once at cycle_count",
                           f"advance() calls {calls}, cycle_count {e['c']}")
            isr = check_tick(opi, e, o, has_isr, isr)
        elif verb == "b":
            if isinstance(o, dict):  # py-emu: one _simulate_wait(n) call, observed at the end
                if not e:
                    continue
                end = o["end"]
                ctx = _ctx_name(after_reset, after_snap, any(x["hi"] for x in e))
                want_cycles = [x["c"] for x in e]
                per = o["per"]
                if end[4] != e[-1]["c"]:
                    J.fail("CALLS", opi, "emulator-ticking", "-", ctx,
                           "_simulate_wait(n) did not advance cycle_count by n",
                           f"cycle_count {end[4]}, expected {e[-1]['c']}")
                elif case["enabled"] and [c for c, _ in per] != want_cycles:
                    J.fail("CALLS", opi, "emulator-ticking", "-", ctx,
                           "_simulate_wait(n) did not tick the scheduler once per cycle",
                           f"advance() at {[c for c, _ in per][:12]}..., expected {want_cycles[:12]}...")
                else:
                    # per-cycle flags recorded from the real advance() calls
                    pm = {c: fl for c, fl in per}
                    isr_b = isr
                    for x in e:
                        fl = pm.get(x["c"], 0)
                        last_el = x is e[-1]
                        o1 = [fl, end[1] if last_el else x["nm"], end[2] if last_el else x["ns"], None]
                        if not last_el:
                            # intermediate next targets are not observable; substitute the reference so only
                            # the firing flags are judged for those cycles
                            for ti, t in enumerate(TIMERS):
                                if not active[t]:
                                    o1[1 + ti] = None
                        check_tick(opi, x, o1, False, isr_b)
                    allf = 0
                    for _, fl in per:
                        allf |= fl
                    got = end[3]
                    want01 = (isr | (allf & 3)) & 3
                    if (got & 3) != want01:
                        missing = want01 & ~got & 3
                        extra = got & ~want01 & 3
                        sym = "fired but status bit not set" if missing else "status bit set without firing"
                        names = "+".join(TIMERS[i] for i in range(2) if (missing | extra) >> i & 1)
                        J.fail("ISR", opi, "status-bit", names, ctx, sym,
                               f"_simulate_wait({op[1]}): fired flags={allf & 3:02b} ISR before={isr:#04x} after={got:#04x}")
                    elif (got & 0xFC) != (isr & 0xFC):
                        J.fail("ISR", opi, "status-bit", "other-bits", ctx, "tick changed ISR bits 2..7",
                               f"_simulate_wait({op[1]}): ISR before={isr:#04x} after={got:#04x}")
                    isr = got
            else:
                if len(o) != len(e):
                    J.out.append(Violation("crash", impl, "observation count differs from op count", case,
                                           f"burst of {len(e)} gave {len(o)} observations"))
                    return J.out, J.first_fail_op
                for x, o1 in zip(e, o):
                    isr = check_tick(opi, x, o1, has_isr, isr)
        elif verb == "r":
            after_reset, after_snap = True, False
            prev_c = int(op[1])
            ctx = _ctx_name(True, False, e["hi"], True)
            for ti, t in enumerate(TIMERS):
                if active[t] and o[ti] != (e["nm"], e["ns"])[ti]:
                    J.fail(t, opi, "reset", t, ctx, "reset(cycle_base) did not set the target to cycle_base + period",
                           f"reset({op[1]}): next target {o[ti]}, expected {(e['nm'], e['ns'])[ti]}")
        elif verb == "s":
            after_snap = True
            for ti, t in enumerate(TIMERS):
                want = (e["nm"], e["ns"])[ti]
                if active[t] and o[ti] != want:
                    ctx = _ctx_name(after_reset, True, (want or 0) > I32MAX, True, e["stale"][ti])
                    J.fail(t, opi, "restore", t, ctx, "snapshot/restore changed the next target",
                           f"restore at cycle {e['c']}: next target {o[ti]}, before the snapshot {want}")
        elif verb == "g":
            prev_c = e["c"]
        elif verb == "R":
            after_reset, after_snap = True, False
            c0 = int(o[2])
            for ti, t in enumerate(TIMERS):
                if active[t] and o[ti] - c0 != periods[t]:
                    J.fail(t, opi, "reset", t, _ctx_name(True, False, False, True),
                           "power-on reset did not re-arm the timer one period after the restarted cycle counter",
                           f"reset after cycle {prev_c}: cycle counter {c0}, next target {o[ti]}, "
                           f"expected {c0 + periods[t]}")
            prev_c = 0
            if c0 != 0:
                # the history continues on a clock restarted at 0; an implementation that keeps its counter
                # across reset() cannot be followed any further (not a verdict: the statement does not say so)
                for k in J.dead:
                    J.dead[k] = True
            if has_isr and o[3] is not None:
                isr = int(o[3])     # reset may clear memory: re-baseline the status byte, no verdict
        elif verb == "k":
            pass
        elif verb == "w":
            isr = e["isr"]
            if has_isr and o[0] != isr:
                # memory model problem, not a timer verdict
                raise HarnessError(f"{impl}: ISR write of {isr:#x} read back {o[0]:#x}")
    return J.out, J.first_fail_op


def differential(case: Dict[str, Any], ref: List[Any], py: List[Any], rs: Any,
                 py_fail: Dict[str, int], rs_fail: Dict[str, int]) -> List[Violation]:
    """Python scheduler vs Rust timer: identical firing flags at every tick (stated in the property).  Emitted
    only where neither side already failed the reference at or before that op (that failure is the finding)."""
    out: List[Violation] = []
    if not isinstance(rs, list) or not isinstance(py, list):
        return out
    after_reset = after_snap = False
    done = [False, False]
    for opi, (op, e, a, b) in enumerate(zip(case["ops"], ref, py, rs)):
        verb = op[0]
        if verb in ("r", "R"):
            after_reset, after_snap = True, False
        elif verb == "s":
            after_snap = True
        if verb not in ("t", "b"):
            continue
        if isinstance(a, dict) or isinstance(b, dict):
            break
        pairs = [(e, a, b)] if verb == "t" else list(zip(e, a, b))
        for x, pa, pb in pairs:
            for ti, t in enumerate(TIMERS):
                if done[ti]:
                    continue
                if py_fail.get(t, 1 << 60) <= opi or rs_fail.get(t, 1 << 60) <= opi:
                    done[ti] = True
                    continue
                fa, fb = bool(pa[0] >> ti & 1), bool(pb[0] >> ti & 1)
                if fa != fb:
                    done[ti] = True
                    out.append(Violation(
                        "py-vs-rust", f"{t}{_ctx_name(after_reset, after_snap, x['hi'])}",
                        "python fired, rust did not" if fa else "rust fired, python did not", case,
                        f"op#{opi} tick at {x['c']}: python flags={pa[0]:02b} rust flags={pb[0]:02b}"))
    return out


def evaluate(cases: List[Dict[str, Any]], with_emu: bool = True) -> List[Tuple[List[Violation], Dict[str, Any]]]:
    """Run every implementation on every case; returns per case (violations, reference facts)."""
    rs_all = run_rust(cases)
    kb_all = run_rust(cases, kbd=True)
    res: List[Tuple[List[Violation], Dict[str, Any]]] = []
    for case, rs, kb in zip(cases, rs_all, kb_all):
        ref, facts = ref_run(case)
        vs: List[Violation] = []
        try:
            with M.py_watchdog("TimerScheduler history"):
                py = run_py_sched(case)
        except HarnessError:
            raise
        except Exception as exc:  # noqa: BLE001 - an exception in the code under test is a verdict
            py = {"error": f"{type(exc).__name__}: {exc}"}
        v1, f1 = judge(case, ref, "py-sched", py, False)
        vs += v1
        rs_obs = rs.get("obs") if isinstance(rs, dict) and "obs" in rs else rs
        v2, f2 = judge(case, ref, "rust", rs_obs, True)
        vs += v2
        if isinstance(py, list) and isinstance(rs_obs, list):
            vs += differential(case, ref, py, rs_obs, f1, f2)
        # the same TimerContext ticked through tick_timers_with_keyboard (what CoreRuntime really calls).  Where
        # the bare tick_timers run already failed on the same timer / the ISR byte at or before that op, it is the
        # same code and the same root cause, not a second finding.
        kb_obs = kb.get("obs") if isinstance(kb, dict) and "obs" in kb else kb
        kinfo: Dict[str, Any] = {}
        v4, f4 = judge(case, ref, "rust-kbd", kb_obs, True, True, kinfo)
        for v, key in zip(v4, kinfo.get("keys", [])):
            if key in f2 and f2[key] <= f4.get(key, -1):
                continue
            vs.append(v)
        if len(v4) > len(kinfo.get("keys", [])):      # crash-level verdicts carry no key
            vs += [v for v in v4[len(kinfo.get("keys", [])):]]
        for k_, n_ in kinfo.get("stats", {}).items():
            facts[k_] = facts.get(k_, 0) + n_
        if with_emu:
            try:
                with M.py_watchdog("PCE500Emulator._tick_timers history"):
                    em = run_py_emu(case)
            except HarnessError:
                raise
            except Exception as exc:  # noqa: BLE001
                em = {"error": f"{type(exc).__name__}: {exc}"}
            v3, _ = judge(case, ref, "py-emu", em, True)
            # the emulator drives the very same TimerScheduler: a scheduler-level failure already reported for
            # py-sched on this timer is the same root cause, not a second finding
            sched_failed = set(f1)
            for v in v3:
                t = v.where.split(":", 1)[1].split(" ")[0] if ":" in v.where else ""
                if v.subcheck in ("cadence", "next-target", "never-fires", "reset", "restore") and t in sched_failed:
                    continue
                vs.append(v)
        res.append((vs, facts))
    return res


# --------------------------------------------------------------------------------------------------
# Generation
# --------------------------------------------------------------------------------------------------

LARGE_PERIODS = (2048, 512000, I32MAX, 4096, 65536, 1 << 20, 1 << 30, 1000003, 40000, 255, 256, 1000)
KINDS = ("percycle", "gaps", "wait")


def _lcm(a: int, b: int) -> int:
    if a <= 0:
        return max(b, 0)
    if b <= 0:
        return a
    return a * b // gcd(a, b)


class _Gen:
    """Builds one history; tracks the reference position so gaps can land on/around boundaries and the
    worst-case loop work stays bounded."""

    def __init__(self, st: Stream, mti: int, sti: int, enabled: bool) -> None:
        self.st = st
        self.mti, self.sti, self.enabled = mti, sti, enabled
        self.tm = RefTimer(mti, True)   # geometry is generated as if enabled, so disabled runs see the same shapes
        self.ts = RefTimer(sti, True)
        self.ps = [p for p in (mti, sti) if p > 0]
        self.minp = min(self.ps) if self.ps else 1
        self.maxp = max(self.ps) if self.ps else 1
        self.c = 0
        self.ops: List[List[Any]] = []
        self.budget = LOOP_BUDGET
        self.nticks = 0
        self.p_gate = 0      # percent per step: handler-shaped gated stretch
        self.p_restart = 0   # percent per step: power-on reset (clock restarts at 0)
        self.kst: Optional[Stream] = None   # own value stream of the keyboard dimension (leaves the others alone)
        self.p_key = 0       # percent per step: host keyboard activity / firmware acknowledging ISR

    def _advance_ref(self, c: int) -> None:
        self.tm.tick(c)
        self.ts.tick(c)
        self.c = c

    def tick_gap(self, gap: int) -> bool:
        cost = gap // self.minp
        if cost > self.budget:
            return False
        self.budget -= cost
        self.ops.append(["t", self.c + gap])
        self._advance_ref(self.c + gap)
        self.nticks += 1
        return True

    def burst(self, n: int) -> None:
        n = min(n, 420)
        if n <= 0:
            return
        self.ops.append(["b", n])
        for _ in range(n):
            self._advance_ref(self.c + 1)
        self.nticks += n

    def reset(self, base: int) -> None:
        self.ops.append(["r", base])
        self.tm.reset(base)
        self.ts.reset(base)
        self.c = base

    def snapshot(self) -> bool:
        # A restore that mangles a large target can make the next tick loop (cycle - 2^31)/period times.
        top = max(self.c, self.tm.nxt() or 0, self.ts.nxt() or 0)
        if top > I32MAX:
            cost = (top - I32MAX) // self.minp + 1
            if cost > self.budget:
                return False
            self.budget -= cost
        self.ops.append(["s", self.st.below(2)])
        return True

    def gated(self, gap: int) -> bool:
        """The cycle counter moves on by `gap` while the timers are not ticked (an interrupt handler is running,
        or the host simply did not tick).  The catch-up work falls on the next tick and is charged here."""
        if gap <= 0:
            return False
        cost = gap // self.minp
        if cost > self.budget:
            return False
        self.budget -= cost
        self.c += gap
        self.ops.append(["g", self.c])
        return True

    def handler_episode(self) -> None:
        """Handler-shaped stretch: gated advance (short / outlasting the next boundary by 0,1,2,p / several
        periods / ending just before a boundary), optionally a snapshot round trip *inside* it (the saved target
        may then lie behind the cycle counter), optionally more gated time, then the first tick after 'RETI'."""
        st = self.st
        tgt = [n for n in (self.tm.nxt(), self.ts.nxt()) if n is not None]
        p = st.choice(self.ps) if self.ps else 1 + st.below(6)
        k = st.below(7)
        if k == 0:
            gap = 1 + st.below(3)
        elif k in (1, 2) and tgt:
            gap = max(1, st.choice(tgt) - self.c + st.choice((0, 0, 1, 2, self.minp)))
        elif k == 3:
            gap = p * (1 + st.below(3)) + st.below(p)
        elif k == 4 and tgt:
            gap = max(1, st.choice(tgt) - self.c - 1)
        elif k == 5 and tgt:
            gap = max(1, max(tgt) - self.c + st.below(3))
        else:
            gap = 1 + st.below(2 * self.maxp)
        if not self.gated(gap):
            return
        if st.chance(2, 3):
            self.snapshot()
            if st.chance(1, 3):
                self.gated(1 + st.below(self.maxp + 2))
                if st.chance(1, 3):
                    self.snapshot()
        self.tick_gap(st.choice((0, 1, 1, 2)))

    def power_reset(self) -> None:
        """Power-on style reset (PCE500Emulator.reset()): the clock restarts at 0."""
        self.ops.append(["R"])
        self.tm.reset(0)
        self.ts.reset(0)
        self.c = 0

    def key_activity(self) -> None:
        """Host keyboard activity between two ticks: key events waiting for the next (MTI-driven) scan, the host
        latching KEYI itself, or the firmware acknowledging requests (ISR written with the timer bits and/or KEYI
        cleared) -- so that a later KEYI assertion meets a timer firing with its status bit clear."""
        st = self.kst
        assert st is not None
        k = st.below(10)
        if k <= 3:
            self.ops.append(["k", 1 + st.below(2)])
        elif k == 4:
            self.ops.append(["k", 0])
        else:
            self.ops.append(["w", st.choice((0, 0, 0, 0x04, 0x03, 0x01, 0x02, st.u32() & 0xF8, st.u32() & 0xFB))])
        if st.chance(1, 3):
            self.ops.append(["w", st.choice((0, 0, 0x04, st.u32() & 0xFC))])

    def isr_write(self) -> None:
        st = self.st
        k = st.below(4)
        v = 0 if k == 0 else (st.u32() & 0xFC if k == 1 else st.u32() & 0xFF)
        self.ops.append(["w", v])

    def pick_gap(self) -> int:
        st = self.st
        k = st.below(12)
        tgt = [n for n in (self.tm.nxt(), self.ts.nxt()) if n is not None]
        p = st.choice(self.ps) if self.ps else 1 + st.below(6)
        if k == 0:
            return 0
        if k == 1:
            return 1
        if k == 2:
            return 1 + st.below(4)
        if k in (3, 4) and tgt:      # land exactly on the next boundary of one timer
            return max(0, st.choice(tgt) - self.c)
        if k == 5 and tgt:           # one short of / one past a boundary
            return max(0, st.choice(tgt) - self.c + st.choice((-1, 1)))
        if k == 6:
            return p
        if k == 7:
            return max(1, p + st.choice((-1, 1)))
        if k == 8:                   # whole multiples: multi-period skip landing on a boundary phase
            return p * (2 + st.below(3))
        if k == 9:                   # multi-period skip with offset
            return p * (2 + st.below(3)) + st.below(p)
        if k == 10:
            return 1 + st.below(4 * self.maxp)
        return 1 + st.below(max(1, 2 * p))

    def sprinkle(self, p_reset: int, p_snap: int, p_w: int) -> None:
        st = self.st
        if self.p_key and self.kst is not None and self.kst.below(100) < self.p_key:
            self.key_activity()
        if self.p_gate and st.below(100) < self.p_gate:
            self.handler_episode()
        if self.p_restart and st.below(100) < self.p_restart and self.c > 0:
            self.power_reset()
            return
        r = st.below(100)
        if r < p_reset:
            self.reset(self.c + st.choice((0, 0, 1, 3, self.minp, 17)))
        elif r < p_reset + p_snap:
            self.snapshot()
        elif r < p_reset + p_snap + p_w:
            self.isr_write()


def admissible(case: Dict[str, Any]) -> bool:
    """Generator preconditions re-checked on an arbitrary op list (used by shrinking): cycles monotone, and the
    worst-case while-loop work any implementation could be driven into stays within the budget."""
    ps = [p for p in (int(case["mti"]), int(case["sti"])) if p > 0]
    minp = min(ps) if ps else 1
    tm, ts = RefTimer(int(case["mti"]), True), RefTimer(int(case["sti"]), True)
    last = 0
    cost = 0
    for op in case["ops"]:
        verb = op[0]
        arg = int(op[1]) if len(op) > 1 else 0
        if verb == "t":
            if arg < last:
                return False
            cost += (arg - last) // minp
            last = arg
            tm.tick(arg)
            ts.tick(arg)
        elif verb == "b":
            if arg > 420:
                return False
            for _ in range(arg):
                last += 1
                tm.tick(last)
                ts.tick(last)
        elif verb == "r":
            if arg < last:
                return False
            last = arg
            tm.reset(arg)
            ts.reset(arg)
        elif verb == "s":
            top = max(last, tm.nxt() or 0, ts.nxt() or 0)
            if top > I32MAX:
                cost += (top - I32MAX) // minp + 1
        elif verb == "g":
            if arg < last:
                return False
            cost += (arg - last) // minp
            last = arg
        elif verb == "R":
            last = 0
            tm.reset(0)
            ts.reset(0)
        if cost > LOOP_BUDGET:
            return False
    return True


def pick_base(st: Stream, cls: str) -> int:
    if cls == "zero":
        return 0
    if cls == "small":
        return st.choice((1, 2, 5, 11, 12, 13, 100, 1000, 4095))
    if cls == "straddle":
        return I32MAX - 40 + st.below(70)
    if cls == "above32":
        return (1 << 32) + st.below(1 << 20)
    return (1 << 40) + st.below(1 << 20)


def gen_case(seed: int, mti: int, sti: int, enabled: bool, kind: str, idx: int, base_cls: str) -> Dict[str, Any]:
    st = Stream(seed, 0xC13, mti & 0xFFFFFFFF, sti & 0xFFFFFFFF, idx, int(enabled))
    g = _Gen(st, mti, sti, enabled)
    if base_cls != "zero" or st.chance(1, 6):
        g.reset(pick_base(st, base_cls))
    lcm = _lcm(mti, sti)
    small = g.maxp <= 64
    # feature probabilities (percent per step) -- some histories have none so plain cadence is also covered
    mode = st.below(4)
    pr, ps_, pw = ((0, 0, 0), (2, 4, 6), (0, 8, 4), (5, 0, 8))[mode]
    # handler-shaped gated stretches (with snapshots inside) in 3 of 8 histories, power-on resets in 1 of 4
    g.p_gate = (0, 0, 0, 0, 0, 5, 10, 20)[st.below(8)]
    g.p_restart = (0, 0, 0, 4)[st.below(4)]
    if kind == "percycle" and not small:
        g.p_gate *= 3
        g.p_restart *= 3
    # keyboard dimension (own stream): 1 of 3 histories carries host key events / KEYI latches / ISR acknowledgements
    kst = Stream(seed, 0xC13B, mti & 0xFFFFFFFF, sti & 0xFFFFFFFF, idx, int(enabled))
    kb_flavour = kst.below(3) == 0
    kbirq = True
    if kb_flavour:
        g.kst = kst
        g.p_key = kst.choice((8, 15, 30)) * (3 if (kind == "percycle" and not small) else 1)
        kbirq = kst.below(8) != 0
    if kind == "percycle":
        if small:
            total = 3 * lcm + 5 if lcm else 20
            total = min(total, 420)
            done = 0
            as_burst = st.chance(1, 2)
            while done < total:
                n = min(total - done, 1 + st.below(2 * g.maxp + 3))
                if as_burst:
                    g.burst(n)
                else:
                    for _ in range(n):
                        g.tick_gap(1)
                done += n
                g.sprinkle(pr, ps_, pw)
        else:
            # large periods: per-cycle windows around boundaries, long jumps in between
            for _ in range(6):
                nxts = [n for n in (g.tm.nxt(), g.ts.nxt()) if n is not None]
                tgt = st.choice(nxts) if nxts else g.c + 10
                back = 1 + st.below(4)
                if tgt - back > g.c:
                    g.tick_gap(tgt - back - g.c)
                if st.chance(1, 2):
                    g.burst(back + 1 + st.below(4))
                else:
                    for _ in range(back + 1 + st.below(4)):
                        g.tick_gap(1)
                g.sprinkle(pr * 3, ps_ * 3, pw * 3)
    elif kind == "gaps":
        n = 24 + st.below(30)
        for _ in range(n):
            g.tick_gap(g.pick_gap())
            g.sprinkle(pr, ps_, pw)
    else:  # wait: instruction-like stepping -- single cycles, WAIT bursts, HALT-style same-cycle re-ticks
        n = 16 + st.below(20)
        for _ in range(n):
            k = st.below(8)
            if k <= 2:
                g.tick_gap(1)
            elif k == 3:
                g.tick_gap(0)
            elif k == 4:
                g.tick_gap(1)
                g.tick_gap(0)
            elif k == 5:
                g.burst(1 + st.below(min(3 * g.maxp, 300) + 2))
            elif k == 6:
                g.burst(st.choice((1, 2, min(g.minp, 300), min(g.maxp, 300), min(g.maxp + 1, 300), 255)))
            else:
                g.tick_gap(2)
            g.sprinkle(pr, ps_, pw)
    case = {"mti": mti, "sti": sti, "enabled": enabled, "isr0": st.choice((0, 0, 0xFC, 3, 1, 2, st.u32() & 0xFF)),
            "ops": g.ops, "kind": kind, "base": base_cls}
    if kb_flavour:
        case["kbirq"] = kbirq
    return case


def plan(seed: int, tier: str) -> List[Tuple[int, int, bool, str, int, str]]:
    """Deterministic list of configurations: (mti, sti, enabled, kind, idx, base class)."""
    per_pair = 20 if tier == "quick" else 400
    out: List[Tuple[int, int, bool, str, int, str]] = []
    bases = ("zero", "zero", "zero", "small", "straddle", "straddle", "above32", "above40")
    for mti in range(13):
        for sti in range(13):
            for i in range(per_pair):
                h = mix32(seed, mti, sti, i, 0xAB)
                enabled = (h % 10) != 0          # 1 in 10 histories runs a disabled scheduler
                kind = KINDS[(i + (h >> 8)) % 3] if i >= 3 else KINDS[i]   # every pair gets every kind
                base = bases[(h >> 12) % len(bases)]
                if not enabled:
                    # a broken "disabled" path may spin from a parked target (Rust parks it at 0) up to the
                    # current cycle; keep disabled histories at small cycle numbers so that stays cheap
                    base = ("zero", "small")[(h >> 12) & 1]
                out.append((mti, sti, enabled, kind, i, base))
    # large and mixed periods
    n_large = 600 if tier == "quick" else 12000
    st = Stream(seed, 0x1A26E)
    for i in range(n_large):
        a = st.below(6)
        def big() -> int:
            k = st.below(4)
            if k == 0:
                return st.choice(LARGE_PERIODS)
            if k == 1:
                return 13 + st.below(1 << (4 + st.below(27)))   # 13 .. 2^31-ish, log-uniform width
            if k == 2:
                return max(13, min(I32MAX, (1 << (4 + st.below(27))) + st.choice((-1, 0, 1))))
            return st.choice((2048, 512000))
        if a == 0:
            mti, sti = 2048, 512000                      # the emulator's defaults
        elif a == 1:
            mti, sti = big(), 0
        elif a == 2:
            mti, sti = 0, big()
        elif a == 3:
            mti, sti = big(), big()
        elif a == 4:
            mti, sti = 1 + st.below(12), big()
        else:
            mti, sti = big(), 1 + st.below(12)
        mti, sti = min(mti, I32MAX), min(sti, I32MAX)
        enabled = st.below(12) != 0
        kind = KINDS[st.below(3)]
        base = bases[st.below(len(bases))]
        if not enabled:
            base = ("zero", "small")[st.below(2)]
        out.append((mti, sti, enabled, kind, 100000 + i, base))
    return out


def _labels(case: Dict[str, Any], facts: Dict[str, Any]) -> List[str]:
    lab = [f"kind:{case.get('kind', '?')}", f"base:{case.get('base', '?')}",
           "enabled" if case["enabled"] else "disabled"]
    if case["mti"] == 0 or case["sti"] == 0:
        lab.append("zero-period")
    if max(case["mti"], case["sti"]) > 12:
        lab.append("large-period")
    verbs = {op[0] for op in case["ops"]}
    for v, name in (("r", "has-reset"), ("s", "has-snapshot"), ("w", "has-isr-write"), ("b", "has-burst"),
                    ("g", "has-gated-advance"), ("R", "has-power-on-reset"), ("k", "has-key-activity")):
        if v in verbs:
            lab.append(name)
    for k, name in (("landing", "exact-landing"), ("multi", "multi-period-gap"), ("both", "both-fire-one-tick"),
                    ("same", "same-cycle-retick"), ("hi", "targets>i32")):
        if facts.get(k):
            lab.append(name)
    if facts.get("hi") and "s" in verbs:
        lab.append("snapshot-with-targets>i32")
    if facts.get("stale_snap"):
        lab.append("snapshot-with-stale-target")
    if facts.get("catch_up"):
        lab.append("catch-up-fire-after-gated-stretch")
    if case.get("kbirq") is False:
        lab.append("keyboard-irq-disabled")
    if facts.get("keyi_rise"):
        lab.append("keyi-asserted-by-a-tick")
    if facts.get("keyi_rise_on_fresh_fire"):
        lab.append("keyi-asserted-on-tick-of-fresh-timer-fire")
    return lab


def _nontrivial(case: Dict[str, Any], facts: Dict[str, Any]) -> bool:
    return bool(facts["cross_m"] >= 2 or facts["cross_s"] >= 2 or facts["landing"] or facts["multi"])


def _shard(task: Tuple[int, str, List[Tuple[int, int, bool, str, int, str]]]) -> Report:
    seed, tier, configs = task
    rep = Report()
    cases = [gen_case(seed, *cfg) for cfg in configs]
    CH = 128
    n = 0
    for i in range(0, len(cases), CH):
        chunk = cases[i:i + CH]
        for case, (vs, facts) in zip(chunk, evaluate(chunk)):
            for v in vs:
                rep.violate(v)
            nt = _nontrivial(case, facts)
            key = jhash([case["mti"], case["sti"], case["enabled"], case["ops"], case.get("kbirq", True)],
                        16) if nt else None
            n += 1
            sample = None
            if n % 97 == 5 and len(case["ops"]) <= 40:
                sample = {k: case[k] for k in ("mti", "sti", "enabled", "isr0", "kind", "base", "ops", "kbirq")
                          if k in case}
            rep.case(key, _labels(case, facts), sample)
            rep.extra["ticks"] = rep.extra.get("ticks", 0) + facts["ticks"]
    return rep


def _machine_labels(case: Dict[str, Any], facts: Dict[str, Any]) -> List[str]:
    lab = ["layer:machine", "machine:enabled" if case["enabled"] else "machine:disabled"]
    if "timer_base" in case:
        lab.append("machine:targets>i32")
    if any(s[1] == 1 for s in case["steps"]):
        lab.append("machine:real-snapshot")
    if case.get("keys"):
        lab.append("machine:keyboard-activity")
    if case.get("kbirq") is False:
        lab.append("machine:keyboard-irq-disabled")
    if facts.get("keyi_rise"):
        lab.append("machine:keyi-asserted-in-a-step")
    if facts.get("keyi_rise_with_fresh_fire"):
        lab.append("machine:keyi-asserted-in-step-of-fresh-timer-fire")
    if facts.get("isr_store_steps"):
        lab.append("machine:program-acknowledges-isr")
    if facts.get("isr_store_fire"):
        lab.append("machine:timer-fired-in-step-of-isr-store")
    if case.get("flavour") == "irq":
        lab.append("machine:irq-flavour")
        lab.append(f"machine:imr={int(case.get('imr', 0)):#04x}")
    for k, name in (("deliveries", "machine:interrupt-delivered"), ("handler_steps", "machine:steps-inside-handler"),
                    ("snap_in_handler", "machine:snapshot-inside-handler"),
                    ("stale_restore", "machine:restore-with-stale-target"),
                    ("wait_unmasked_multi", "machine:unmasked-wait-over->=2-boundaries"),
                    ("catch_up_after_handler", "machine:catch-up-fire-after-handler"),
                    ("reset_after_run", "machine:reset-after-N>0-cycles"), ("derailed", "machine:derailed")):
        if facts.get(k):
            lab.append(name)
    if case.get("chunkings"):
        lab.append("machine:bulk-entry-points")
    for k, name in (("bulk_calls", "machine:bulk:call-with-n>1"),
                    ("bulk_delivery_mid_call", "machine:bulk:interrupt-delivered-mid-call"),
                    ("bulk_handler_fire_window", "machine:bulk:boundary-inside-handler-before-call-returns"),
                    ("bulk_fire_mid_call", "machine:bulk:timer-fired-mid-call"),
                    ("bulk_halt_idle", "machine:bulk:idle-halt-cycles-inside-call"),
                    ("bulk_fire_in_halt_idle", "machine:bulk:timer-fired-in-idle-halt-cycle-inside-call"),
                    ("bulk_offgrid_pair", "machine:bulk:one-timer-fired-alone-in-idle-halt-cycle"),
                    ("bulk_other_mismatch", "machine:bulk:non-timer-state-differs(not judged)")):
        if facts.get(k):
            lab.append(name)
    if facts.get("bulk_max", 0) >= 13:
        lab.append("machine:bulk:call-with-n>=13")
    if facts.get("halt_idle"):
        lab.append("machine:idle-halt-cycles")
    if facts.get("wait_multi"):
        lab.append("machine:multi-period-step")
    if facts.get("max_step_cycles", 0) > 1:
        lab.append("machine:multi-cycle-wait")
    if facts.get("fires", 0) >= 2:
        lab.append("machine:>=2-fires")
    return lab


def _machine_shard(task: Tuple[int, str, List[Tuple[Any, ...]]]) -> Report:
    seed, tier, configs = task
    rep = Report()
    cases = [M.gen_from_config(seed, cfg) for cfg in configs]
    n = 0
    for i in range(0, len(cases), 32):
        chunk = cases[i:i + 32]
        for case, (vs, facts) in zip(chunk, M.evaluate_machine(chunk)):
            for v in vs:
                rep.violate(v)
            nt = facts.get("fires", 0) >= 2
            key = jhash(["m", case["mti"], case["sti"], case["enabled"], case["prog"], case["steps"],
                         case.get("handler"), case.get("imr"), case.get("kbirq", True),
                         case.get("chunkings")], 16) if nt else None
            n += 1
            sample = case if (n % 41 == 3 and len(case["steps"]) <= 40) else None
            rep.case(key, _machine_labels(case, facts), sample)
            rep.extra["machine_steps"] = rep.extra.get("machine_steps", 0) + facts.get("steps", 0)
            rep.extra["machine_bulk_calls_compared"] = (rep.extra.get("machine_bulk_calls_compared", 0)
                                                        + facts.get("bulk_calls_compared", 0))
    return rep


def _live_shard(task: Tuple[int, str, List[Tuple[Any, ...]]]) -> Report:
    """Round 5: host life-cycle layer (c13_live.py)."""
    seed, tier, configs = task
    rep = Report()
    cases = [L.gen_from_config(seed, cfg) for cfg in configs]
    n = 0
    for i in range(0, len(cases), 64):
        chunk = cases[i:i + 64]
        for case, (vs, facts) in zip(chunk, L.evaluate_live(chunk)):
            for v in vs:
                rep.violate(v)
            n += 1
            sample = case if (n % 37 == 3 and len(case["ops"]) <= 45) else None
            rep.case(L.nontrivial_key(case, facts), L.labels(case, facts), sample)
            rep.extra["live_ticks"] = rep.extra.get("live_ticks", 0) + facts.get("ticks", 0)
    return rep


def _any_shard(task: Tuple[str, Any]) -> Report:
    kind, payload = task
    if kind == "live":
        return _live_shard(payload)
    return _shard(payload) if kind == "core" else _machine_shard(payload)


def run(ctx: Ctx) -> Report:
    rsclient.build()
    M.selftest()
    configs = plan(ctx.seed, ctx.tier)
    mconfigs = M.plan(ctx.seed, ctx.tier)
    nshards = 16 if ctx.quick else 64
    nm = 16 if ctx.quick else 64
    lconfigs = L.plan(ctx.seed, ctx.tier)
    nlive = 16 if ctx.quick else 64
    tasks: List[Tuple[str, Any]] = []
    for i in range(max(nshards, nm)):     # interleave so both layers spread over the pool
        if i < nshards:
            tasks.append(("core", (ctx.seed, ctx.tier, configs[i::nshards])))
        if i < nm:
            tasks.append(("machine", (ctx.seed, ctx.tier, mconfigs[i::nm])))
        if i < nlive:
            tasks.append(("live", (ctx.seed, ctx.tier, lconfigs[i::nlive])))
    rep = ctx.merge_reports(ctx.pmap(_any_shard, tasks))
    rep.rule = RULE
    rep.assumptions = list(ASSUMPTIONS) + list(L.ASSUMPTIONS)
    rep.extra["live_cases_planned"] = {"async": sum(1 for c in lconfigs if c[0] == "async"),
                                       "rollback": sum(1 for c in lconfigs if c[0] == "rollback")}
    rep.extra["small_period_pairs_covered"] = len({(c[0], c[1]) for c in configs if c[0] <= 12 and c[1] <= 12})
    plain = [c for c in mconfigs if not isinstance(c[0], str)]
    irqc = [c[1:] for c in mconfigs if c[0] == "irq"]
    runc = [c[1:] for c in mconfigs if c[0] == "run"]
    rep.extra["small_period_pairs_covered_machine_bulk"] = len({(c[0], c[1]) for c in runc
                                                                if c[0] <= 12 and c[1] <= 12})
    rep.extra["small_period_pairs_covered_machine"] = len({(c[0], c[1]) for c in plain
                                                           if c[0] <= 12 and c[1] <= 12})
    rep.extra["small_period_pairs_covered_machine_irq"] = len({(c[0], c[1]) for c in irqc
                                                               if c[0] <= 12 and c[1] <= 12})
    rep.exhaustive = False
    return rep


def replay(ctx: Ctx, case: Dict[str, Any]) -> List[Violation]:
    rsclient.build()
    if case.get("layer") == "machine":
        return M.evaluate_machine([case])[0][0]
    if case.get("layer") == "live":
        return L.evaluate_live([case])[0][0]
    vs, _ = evaluate([case])[0]
    return vs


def shrink(ctx: Ctx, v: Violation) -> Violation:
    """Greedy op-list minimisation keeping the fingerprint (bounded)."""
    import time

    t0 = time.time()
    key = v.key()
    best = v
    if v.case.get("layer") == "machine":
        steps = list(v.case["steps"])
        lo, hi = 1, len(steps)
        while lo < hi and time.time() - t0 < 40:
            mid = (lo + hi) // 2
            c2 = dict(v.case)
            c2["steps"] = steps[:mid]
            hit = [w for w in M.evaluate_machine([c2])[0][0] if w.key() == key]
            if hit:
                hi, best = mid, hit[0]
            else:
                lo = mid + 1
        return best

    if v.case.get("layer") == "live":
        # truncate after the failing op (ops of a live case are self-contained prefixes), then drop single ops
        # that do not feed a later one (captures stay)
        ops = list(v.case["ops"])

        def lprobe(cand: List[List[Any]]) -> Optional[Violation]:
            have = set()
            for o in cand:
                if o[0] == "c":
                    have.add(int(o[1]))
                elif o[0] == "L" and int(o[1]) not in have:
                    return None
            if v.case.get("flavour") == "async":
                cyc = [int(o[1]) for o in cand if o[0] == "a"]
                if any(b <= a for a, b in zip(cyc, cyc[1:])):
                    return None
            c2 = dict(v.case)
            c2["ops"] = cand
            if c2.get("entry") == "run_for":
                c2["run_for_cycles"] = max([int(o[1]) for o in cand if o[0] == "a"] or [0])
            for w in L.evaluate_live([c2])[0][0]:
                if w.key() == key:
                    return w
            return None

        lo, hi = 1, len(ops)
        while lo < hi and time.time() - t0 < 30:
            mid = (lo + hi) // 2
            w = lprobe(ops[:mid])
            if w is not None:
                hi, best = mid, w
            else:
                lo = mid + 1
        ops = list(best.case["ops"])
        i = 0
        while i < len(ops) and time.time() - t0 < 50:
            cand = ops[:i] + ops[i + 1:]
            w = lprobe(cand) if cand else None
            if w is not None:
                ops, best = cand, w
            else:
                i += 1
        return best

    def probe(ops: List[List[Any]]) -> Optional[Violation]:
        case = dict(best.case)
        case["ops"] = ops
        # keep cycles monotone: ticks carry absolute cycles, so dropping ops never breaks monotonicity except
        # around resets; reject candidates that violate the generator's precondition
        if not admissible(case):
            return None
        for w in evaluate([case])[0][0]:
            if w.key() == key:
                return w
        return None

    ops = list(best.case["ops"])
    # 1. truncate after the failing op
    lo, hi = 1, len(ops)
    while lo < hi and time.time() - t0 < 40:
        mid = (lo + hi) // 2
        w = probe(ops[:mid])
        if w is not None:
            hi = mid
            best = w
        else:
            lo = mid + 1
    ops = list(best.case["ops"])[:hi]
    w = probe(ops)
    if w is not None:
        best = w
    # 2. drop single ops
    changed = True
    while changed and time.time() - t0 < 50:
        changed = False
        i = 0
        while i < len(ops) and time.time() - t0 < 50:
            cand = ops[:i] + ops[i + 1:]
            w = probe(cand) if cand else None
            if w is not None:
                ops = cand
                best = w
                changed = True
            else:
                i += 1
    return best
