"""C14 -- keyboard reads show exactly the held keys on strobed columns; events ordered.

Generated domain: histories over {press k, release k, write KOL/KOH, scan tick, KIL read, inject event, consume}
(+ Rust: timer-driven tick through TimerContext::tick_timers_with_keyboard, write_fifo_to_memory, RETI-style
acknowledge, keyboard-interrupt enable) for 2..6 keys biased to share rows/columns, both column polarities,
press/release thresholds 1..6, repeat delay/interval in {0,1,2,6,24}; composite sub-sequences for chatter,
strobe change mid-debounce, long holds (repeat), bursts (queue overflow) and parked strobes (no column selected
while a release debounce is pending, quiet stretch, column selected again).  Each abstract history is run on five
models:

  py-matrix   pce500.keyboard_matrix.KeyboardMatrix
  py-handler  pce500.keyboard_handler.PCE500KeyboardHandler (ticks observed at the handler's own scan_tick)
  py-cpu      pce500.PCE500Emulator: strobe writes / KIL reads / ticks are instructions executed by emu.step()
  rs          sc62015_core::keyboard::KeyboardMatrix (+ TimerContext)
  rs-cpu      sc62015_core::CoreRuntime: strobe writes / KIL reads are instructions executed by CoreRuntime::step

On the two CPU flavours the instruction that performs a port access is generated (c14_cpu): operand width 1/2/3,
every start offset that makes the operand cover the port, immediate / register / IMEM-to-IMEM forms, all
internal-memory addressing forms; the history is told what the instruction means byte by byte.

Round 4: the Python machine runs with a generated interrupt mask (KEY bit clear: polling firmware / key interrupt
masked) and firmware acknowledges the key interrupt without RETI (store / AND / host write clearing ISR bit 2), so
every later rise of the request is judged, not only the first; the Rust models run under the keyboard configurations
a device model applies (PC-E500 default, IQ-7000: wake event on a new press, no event mirroring, raw key-input
register), with "injected taps" bursts, and `irq_count` is observed; operations the keyboard rejects (unknown key,
foreign port) are interleaved and must leave no trace.

Round 5: "chord" histories (1/7) use 9..20 keys with a chord sub-sequence (all columns strobed, every key goes
down / up between the same two scan ticks), so a single tick produces more transitions than the queue holds; the
Python matrix / handler models run with generated host observers attached (scan trace hook, KIO trace hook,
perfetto tracer object: none 1/2, counting only 1/8, raising at generated invocations with a generated exception
type 3/8) -- the host catches an observer fault that comes out of an operation and carries on; a tick that ended
that way is a scan tick of the history that returned no events.

Oracle: history invariants only (c14_hist.judge) -- no cross-model verdict; thresholds, polarity, capacity and
initial strobe registers are read back from the object under test.
"""

from __future__ import annotations

from typing import Any, Dict, List, Optional, Tuple

from ..core import Ctx, HarnessError, Report, Violation, jhash, mix32
from ..gen_state import Stream
from .. import rsclient
from . import c14_cpu as CPU
from . import c14_hist as H

PROPERTY = "C14"
RULE = ("seeded histories (<= 120..300 ops) over press/release/strobe writes/scan ticks/KIL reads/inject/consume "
        "(+ Rust timer tick, write_fifo_to_memory, acknowledge, irq enable) on 2..6 keys biased to share rows and "
        "columns, both polarities, thresholds 1..6, repeat delay/interval in {0,1,2,6,24}, with chatter, "
        "mid-debounce strobe change, long-hold, burst and parked-strobe sub-sequences; every history is executed on "
        "the Python matrix, the Python handler, the Rust matrix, the Rust CoreRuntime (port accesses as executed "
        "instructions of generated width/start offset/addressing form) and, every second history, the Python "
        "machine (same, plus one scan per executed instruction; generated interrupt mask with the KEY bit clear, "
        "1/4 of the histories with polling-firmware acknowledges of ISR bit 2 as instructions). Rust models run under "
        "a generated device keyboard configuration (default 4/6, IQ-7000 1/6, raw KIL 1/6); injected-tap bursts and "
        "rejected operations (unknown key / foreign port) are interleaved. Round 5: 1/7 of the histories are chord "
        "histories (9..20 keys, chord sub-sequences: every key pressed / released between the same two ticks under an "
        "all-columns strobe; label hist:chord-keys(>=9), non-trivial for the class = "
        "saw:tick-with-more-events-than-capacity); the Python matrix and handler run with generated host observers "
        "(scan trace hook / KIO hook / tracer object; none 1/2, quiet 1/8, raising at generated invocations 3/8; labels "
        "py-observers:*, non-trivial for the class = saw:observer-raised-inside-event-tick). Non-trivial = the model produced >= 1 debounced "
        "press event and the history has two held keys sharing a row, a strobe change while a key is held, or a "
        "queue overflow; distinct = hash of (model, configuration, operation list).")

MODELS = ("py-matrix", "py-handler", "py-cpu", "rs", "rs-cpu")
RS_ONLY_VERBS = ("wfifo", "ack", "iclr", "irq", "imr")
# interrupt-mask values firmware may run with while it *polls* the keyboard: the KEY bit (0x04) is clear in all of
# them, so the key interrupt is never delivered and the generated program stays a straight line
IMR_MASKED = (0x00, 0x00, 0x00, 0x80, 0x80, 0x8B, 0xFB, 0x7B, 0x03, 0x08, 0x81)
# keyboard configurations a device model applies (sc62015/core/src/device.rs): the PC-E500 default, and the IQ-7000
# set-up (queue mirroring of scan events off, wake event on any new physical press, undebounced key-input register)
KBD_MODES = ((), (), (), (), ("iq7000",), ("raw_kil",))
THRESH = (1, 1, 2, 2, 3, 4, 5, 6, 6)
REPEAT = (0, 1, 2, 6, 24)

_KEYMAP: Optional[Dict[int, str]] = None


def keymap() -> Dict[int, str]:
    """matrix code -> key name, from the repository's own table (data under test, not oracle)."""
    global _KEYMAP
    if _KEYMAP is None:
        from pce500.keyboard_matrix import KEY_LOCATIONS

        _KEYMAP = {((loc.column << 3) | loc.row): name for name, loc in sorted(KEY_LOCATIONS.items())}
    return _KEYMAP


# ------------------------------------------------------------------------------------------------
# generation
# ------------------------------------------------------------------------------------------------

def _strobe_ops(cols: List[int], active_high: bool, st: Stream, both: bool = True) -> List[List[Any]]:
    word = 0
    for c in cols:
        word |= 1 << c
    if not active_high:
        word ^= 0xFFFF
    kol, koh = word & 0xFF, (word >> 8) & 0xFF
    ops: List[List[Any]] = [["kol", kol], ["koh", koh]]
    if not both:
        return [ops[st.below(2)]]
    if st.chance(1, 2):
        ops.reverse()
    return ops


OBSERVER_EXC = ("RuntimeError", "ValueError", "KeyError", "OSError", "ZeroDivisionError", "ObserverDown")


def gen_observers(st: Stream) -> Optional[Dict[str, Any]]:
    """Host-side observers attached to the Python matrix: which of the three attachment points are used, whether
    the KIO hook claims to have handled the record, and at which of its invocations (counted over all attachment
    points, modulo 64) the observer raises, with which exception type.  None = nothing attached (1/2)."""
    r = st.below(8)
    if r < 4:
        return None
    hooks = [hk for hk in ("scan", "kio", "perf") if st.chance(1, 2)]
    if "scan" not in hooks and not st.chance(1, 3):
        hooks.insert(0, "scan")
    if not hooks:
        hooks = ["scan"]
    spec: Dict[str, Any] = {"hooks": hooks, "handled": st.chance(1, 2), "exc": st.below(len(OBSERVER_EXC)),
                            "raise_at": []}
    if r >= 5:   # 3/8 of the histories: a flaky observer
        dens = st.choice((2, 3, 3, 5, 16))
        spec["raise_at"] = [i for i in range(64) if st.chance(1, dens)]
    return spec


def gen_history(st: Stream, max_ops: int) -> Dict[str, Any]:
    km = sorted(keymap())
    cfg: Dict[str, Any] = {
        "press_threshold": st.choice(THRESH),
        "release_threshold": st.choice(THRESH),
        "repeat_delay": st.choice(REPEAT),
        "repeat_interval": st.choice(REPEAT),
        "active_high": not st.chance(1, 3),
        "irq_enabled": not st.chance(1, 3),
        "repeat_enabled": not st.chance(1, 8),
        "mti_period": 2 if st.chance(1, 10) else 1,
    }
    polling = st.chance(1, 4)          # firmware that clears ISR bit 2 without RETI / toggles the enable
    cfg["imr"] = st.choice(IMR_MASKED) if not st.chance(1, 6) else (st.below(256) & ~0x04)
    cfg["kbd_mode"] = list(st.choice(KBD_MODES))
    rs_only = st.chance(1, 12)         # uses matrix codes that have no Python key name
    timer_ticks = st.chance(1, 2)      # Rust flavour of a tick: TimerContext path or direct scan_tick
    P, R = cfg["press_threshold"], cfg["release_threshold"]

    # round 5: "chord" histories -- more keys than the queue has entries (9..20), so that one scan tick can produce
    # more debounce transitions than the queue's capacity (an all-columns "any key?" probe with a hand on the keys)
    chord = st.chance(1, 7)
    nkeys = (9 + st.below(12)) if chord else (2 + st.below(5))
    # round 5: host observers of the Python matrix (scan trace hook / KIO trace hook / perfetto tracer object -- the
    # attributes pce500/emulator.py installs), counting only or raising at generated invocations
    cfg["observers"] = gen_observers(st)
    keys: List[int] = [st.choice(km)]
    while len(keys) < nkeys:
        base = st.choice(keys)
        r = st.below(100)
        if rs_only and st.chance(1, 2):
            cand = st.below(128)
        elif r < 40:
            cand = (st.below(11) << 3) | (base & 7)
        elif r < 65:
            cand = (base & ~7) | st.below(8)
        else:
            cand = st.choice(km)
        if cand in keys:
            continue
        if not rs_only and cand not in keymap():
            continue
        keys.append(cand)
    cols = sorted({k >> 3 for k in keys})
    ah = cfg["active_high"]

    ops: List[List[Any]] = []
    held: set = set()

    def tick_op() -> List[Any]:
        if timer_ticks:
            return ["ttick"] if not st.chance(1, 6) else ["scan"]
        return ["scan"] if not st.chance(1, 6) else ["ttick"]

    def ticks(n: int) -> None:
        for _ in range(n):
            ops.append(tick_op())

    def strobe_some() -> None:
        r = st.below(100)
        if r < 40:
            sel = list(cols)
        elif r < 55:
            sel = list(range(11))
        elif r < 75:
            sel = [st.choice(keys) >> 3]
        elif r < 85:
            sel = []
        elif r < 95:
            sel = [c for c in cols if st.chance(1, 2)]
        else:
            sel = [c for c in range(16) if st.chance(1, 2)]
        ops.extend(_strobe_ops(sel, ah, st, both=not st.chance(1, 4)))

    def tick_count() -> int:
        r = st.below(100)
        if r < 25:
            return 1
        if r < 40:
            return P
        if r < 50:
            return max(1, P - 1)
        if r < 60:
            return R
        if r < 70:
            return max(1, cfg["repeat_delay"])
        if r < 78:
            return max(1, cfg["repeat_interval"]) * (1 + st.below(3))
        if r < 90:
            return 1 + st.below(8)
        return 1 + st.below(40)

    if not st.chance(1, 5):
        ops.extend(_strobe_ops(cols, ah, st))

    while len(ops) < max_ops:
        r = st.below(272 if chord else 236)
        if r < 24:
            strobe_some()
        elif r < 54:
            cands = [k for k in keys if k not in held]
            if cands and not st.chance(1, 10):
                k = st.choice(cands)
            else:
                k = st.choice(keys)
            ops.append(["press", k])
            held.add(k)
        elif r < 74:
            if held and not st.chance(1, 10):
                k = st.choice(sorted(held))
            else:
                k = st.choice(keys)
            ops.append(["release", k])
            held.discard(k)
        elif r < 124:
            ticks(tick_count())
        elif r < 144:
            ops.append(["kil", 1 if st.chance(1, 3) else 0])
        elif r < 152:
            # chatter: release/press alternating faster than the thresholds
            k = st.choice(keys)
            if k not in held:
                ops.append(["press", k])
                held.add(k)
                ticks(st.choice((0, 1, P, P + 1)))
            for _ in range(2 + st.below(5)):
                ops.append(["release", k])
                ticks(st.choice((0, 0, 1, max(0, R - 1))))
                ops.append(["press", k])
                ticks(st.choice((0, 1, 1, max(0, P - 1))))
            if st.chance(1, 2):
                ops.append(["kil", 0])
        elif r < 160:
            # strobe change in the middle of a debounce
            k = st.choice(keys)
            ops.extend(_strobe_ops(cols, ah, st))
            if k not in held:
                ops.append(["press", k])
                held.add(k)
            ticks(st.below(P + 1))
            others = [c for c in range(11) if c != (k >> 3)]
            ops.extend(_strobe_ops([st.choice(others)] if st.chance(1, 2) else [], ah, st))
            ticks(st.choice((0, 1, max(0, R - 1), R, R + 1)))
            if st.chance(1, 3):
                ops.append(["kil", 0])
            ops.extend(_strobe_ops([k >> 3], ah, st))
            ticks(st.choice((max(0, P - 1), P, P + 1)))
            ops.append(["kil", 0])
        elif r < 168:
            # burst: many transitions in few ticks (queue overflow when thresholds are small)
            ops.extend(_strobe_ops(cols if st.chance(2, 3) else list(range(11)), ah, st))
            for _ in range(1 + st.below(3)):
                for k in keys:
                    if st.chance(3, 4) and k not in held:
                        ops.append(["press", k])
                        held.add(k)
                ticks(P + st.below(2))
                for k in keys:
                    if st.chance(3, 4) and k in held:
                        ops.append(["release", k])
                        held.discard(k)
                ticks(R + st.below(2))
        elif r < 174:
            k = st.choice(keys)
            rel = st.chance(1, 3)
            ops.append(["inject", k, 1 if rel else 0])
            if rel:
                held.discard(k)
            else:
                held.add(k)
        elif r < 180:
            ops.append(["consume", 1 if st.chance(1, 2) else 0])
        elif r < 186:
            # long hold of one key on a strobed column: repeat cadence
            k = st.choice(keys)
            ops.extend(_strobe_ops(cols, ah, st))
            if k not in held:
                ops.append(["press", k])
                held.add(k)
            ticks(P + max(1, cfg["repeat_delay"]) + max(1, cfg["repeat_interval"]) * (1 + st.below(3)) + st.below(2))
        elif r < 192:
            ops.append(["ack"])
        elif r < 195:
            ops.append(["wfifo"])
        elif r < 200:
            if polling:
                r3 = st.below(6)
                if r3 < 3:
                    ops.append(["iclr"])
                elif r3 < 5:
                    ops.append(["irq", 1 if st.chance(1, 2) else 0])
                else:
                    ops.append(["imr", st.choice(IMR_MASKED)])
        elif 212 <= r < 224:
            if polling:
                # polling firmware services a key without RETI: the key is debounced (the key interrupt is raised),
                # firmware reads the key-input register (or not), clears ISR bit 2 by a store, and goes on; later
                # the key is released and the same happens for the release event
                k = st.choice(keys)
                ops.extend(_strobe_ops(cols if st.chance(2, 3) else [k >> 3], ah, st))
                if st.chance(1, 3):
                    ops.append(["imr", st.choice(IMR_MASKED)])
                if k not in held:
                    ops.append(["press", k])
                    held.add(k)
                ticks(P + st.below(2))
                for _ in range(1 + st.below(2)):
                    if not st.chance(1, 4):
                        ops.append(["kil", 0])
                    ops.append(["iclr"])
                    ticks(1 + st.below(3))
                if st.chance(1, 2):
                    ops.append(["release", k])
                    held.discard(k)
                    ticks(R + st.below(2))
                    if not st.chance(1, 4):
                        ops.append(["kil", 0])
                    ops.append(["iclr"])
                    ticks(1 + st.below(3))
            else:
                ticks(tick_count())
        elif 224 <= r < 232:
            # a host bridge types through the injection entry point: taps (press + release injected back to back)
            # of up to five keys -- four taps are exactly the queue's capacity
            if st.chance(1, 3):
                ops.append(["consume", 0])
            n_taps = st.choice((1, 2, 4, 4, 5))
            for i in range(n_taps):
                k = keys[i % len(keys)] if not st.chance(1, 4) else st.choice(keys)
                ops.append(["inject", k, 0])
                held.add(k)
                if st.chance(1, 5):
                    ticks(1)
                ops.append(["inject", k, 1])
                held.discard(k)
        elif r >= 236:
            # chord: many keys go down (and up) between the same two scan ticks while the firmware strobes every
            # column / every column in use -- one tick carries up to len(keys) transitions
            r2 = st.below(4)
            ops.extend(_strobe_ops(list(range(11)) if r2 < 2 else (list(range(16)) if r2 == 2 else cols), ah, st))
            if st.chance(1, 3):
                ops.append(["consume", 0])
            for k in keys:
                if k not in held and not st.chance(1, 10):
                    ops.append(["press", k])
                    held.add(k)
            ticks(P + st.below(2))
            if st.chance(1, 3):
                ops.append(["kil", 0])
            if not st.chance(1, 4):
                if st.chance(1, 2):
                    # the columns lose their strobe together
                    ops.extend(_strobe_ops([], ah, st))
                for k in keys:
                    if k in held and not st.chance(1, 10):
                        ops.append(["release", k])
                        held.discard(k)
                ticks(R + st.below(2))
        elif r >= 232:
            # an operation the keyboard rejects (unknown key, a port that is not a keyboard register): no trace
            ops.append(["bad", st.choice(("press", "release", "inject", "port-read", "port-write")), st.below(64)])
        else:
            # firmware parks the strobes (no column selected) while a release debounce is still pending: a key is
            # debounced, everything (or just that key) is released, within the release interval all strobes are
            # parked, a quiet stretch of ticks / KIL reads follows, then the column is selected again
            k = st.choice(keys)
            ops.extend(_strobe_ops(cols if st.chance(2, 3) else [k >> 3], ah, st))
            if k not in held:
                ops.append(["press", k])
                held.add(k)
            ticks(P + st.below(2))
            if st.chance(1, 3):
                ops.append(["kil", 0])
            for h in sorted(held):
                if h == k or not st.chance(1, 4):
                    ops.append(["release", h])
                    held.discard(h)
            ticks(st.choice((0, 0, 1, max(0, R - 1))))
            ops.extend(_strobe_ops([], ah, st))
            quiet = R + st.choice((0, 1, 2, 5, 30))
            kil_quiet = st.chance(1, 3)
            for _ in range(quiet):
                if kil_quiet and st.chance(1, 2):
                    ops.append(["kil", 0])
                else:
                    ops.append(tick_op())
            r2 = st.below(4)
            if r2 == 0:
                ops.append(["press", k])
                held.add(k)
            if r2 < 3:
                ops.extend(_strobe_ops([k >> 3] if st.chance(1, 2) else cols, ah, st))
                ops.append(["kil", 0])
                ticks(st.choice((0, 1, P, R)))
                ops.append(["kil", 0])
    ops = ops[:max_ops]
    return {"cfg": cfg, "ops": ops, "rs_only": rs_only, "polling": polling, "cpu_seed": st.u32()}


def ops_for_model(ops: List[List[Any]], model: str, cpu_seed: int = 0,
                  cfg: Optional[Dict[str, Any]] = None) -> List[List[Any]]:
    """Translate the abstract (Rust-dialect) history into the op set a model has."""
    if model == "rs":
        return [list(o) for o in ops if o[0] != "imr"]
    if model in ("rs-cpu", "py-cpu"):
        return cpu_ops(ops, cpu_seed, model, int((cfg or {}).get("imr", 0)))
    out: List[List[Any]] = []
    for o in ops:
        v = o[0]
        if v in RS_ONLY_VERBS:
            continue
        if v == "ttick":
            out.append(["scan"])
        elif v == "kil":
            out.append(["peek"] if (o[1] and model == "py-matrix") else ["kil"])
        elif v == "consume":
            out.append(["pop"] if (o[1] and model == "py-matrix") else ["consume"])
        else:
            out.append(list(o))
    return out


def cpu_ops(ops: List[List[Any]], cpu_seed: int, model: str, imr0: int = 0) -> List[List[Any]]:
    """CPU flavour: strobe writes and KIL reads become instructions (c14_cpu) with a generated operand width, start
    offset and addressing form; a store that covers both strobe registers writes the second one too (mostly its
    last written value, sometimes a new one -- the history is told what the bytes mean either way).  On the Python
    machine the polling-firmware operations are instructions too: `iclr` (acknowledge the key interrupt without
    RETI) becomes a store / AND / host write that clears ISR bit 2, `imr` a store to the interrupt mask, and the
    queue is consumed the way a machine consumes it -- by a key-input read on the bus."""
    st = Stream(cpu_seed, 0xC14C)
    last: Dict[str, Optional[int]] = {"kol": None, "koh": None}
    imr = imr0 & 0xFF
    out: List[List[Any]] = []
    for o in ops:
        v = o[0]
        if v == "iclr" and model == "py-cpu":
            out.append(CPU.isr_ack(st, imr, model))
            continue
        if v == "imr" and model == "py-cpu":
            imr = int(o[1]) & 0xFF
            out.append(CPU.imr_write(st, imr, model))
            continue
        if v in RS_ONLY_VERBS:
            continue
        if v in ("ttick", "scan"):
            # Rust runtime (timer off): an instruction performs no scan, the tick is a direct scan_tick;
            # Python machine: the per-instruction keyboard scan of one executed NOP
            out.append(["scan"] if model == "rs-cpu" else CPU.nop(st, model))
        elif v in ("kol", "koh"):
            oth = "koh" if v == "kol" else "kol"
            other = last[oth]
            if other is None or st.chance(1, 4):
                other = st.choice((0x00, 0xFF, st.below(256)))
            x = CPU.strobe_store(st, v, int(o[1]) & 0xFF, int(other), model)
            for reg, val in CPU.implied_strobes(x[7]):
                last[reg] = val
            out.append(x)
        elif v == "kil":
            out.append(CPU.kil_load(st, model))
        elif v == "consume":
            # the Python machine has no consume call of its own: its queue is consumed by a key-input read on the bus
            out.append(["consume"] if model == "rs-cpu" else ["hkil"])
        else:
            out.append(list(o))
    return out


# ------------------------------------------------------------------------------------------------
# execution adapters (observation only)
# ------------------------------------------------------------------------------------------------

def _ev_dict(e: Any) -> Dict[str, Any]:
    return {"code": int(e.code), "release": bool(e.release), "repeat": bool(e.repeat)}


def _py_bad(h: Any, m: Any, kind: str, x: int) -> bool:
    """An operation the keyboard has to reject: a key name that does not exist, a port that is not a keyboard
    register.  Returns True when the object reported the rejection (False / None)."""
    name = f"KEY_NOT_A_KEY_{x}"
    if kind == "port-read" and h is not None:
        return h.handle_register_read(0xF3 + (x % 10)) is None
    if kind == "port-write" and h is not None:
        return not h.handle_register_write((0xE0 + (x % 16)) if x & 16 else (0xF3 + (x % 10)), (x * 37) & 0xFF)
    if kind == "inject":
        return not m.inject_event(name, release=bool(x & 1))
    if kind == "release":
        (h or m).release_key(name)
        return True
    return not (h or m).press_key(name)


class ObserverDown(Exception):
    """An observer that is being torn down (a plain Exception subclass)."""


class _Observers:
    """Generated host observers of the Python matrix (see gen_observers).  They observe nothing the oracle uses;
    they only count their invocations and raise where the generated schedule says so."""

    def __init__(self, spec: Dict[str, Any]) -> None:
        self.hooks = list(spec.get("hooks") or [])
        self.handled = bool(spec.get("handled"))
        self.raise_at = {int(i) % 64 for i in spec.get("raise_at") or []}
        name = OBSERVER_EXC[int(spec.get("exc", 0)) % len(OBSERVER_EXC)]
        self.exc_type = ObserverDown if name == "ObserverDown" else getattr(__import__("builtins"), name)
        self.calls = 0
        self.raises = 0
        self.raised: List[BaseException] = []

    def _hit(self) -> None:
        i = self.calls
        self.calls += 1
        if (i % 64) in self.raise_at:
            exc = self.exc_type("C14 generated observer fault")
            self.raises += 1
            self.raised.append(exc)
            raise exc

    def owns(self, exc: BaseException) -> bool:
        return any(exc is e for e in self.raised)

    # the three call shapes the matrix uses
    def scan_hook(self, col: int, row: int, pressed: bool) -> None:
        self._hit()

    def kio_hook(self, name: str, kol: int, koh: int, kil: int, pc: Any = None) -> bool:
        self._hit()
        return self.handled

    def instant(self, *args: Any, **kwargs: Any) -> None:     # perfetto tracer shape
        self._hit()

    def attach(self, matrix: Any) -> None:
        # the attachment points pce500/emulator.py uses on the handler's matrix
        if "scan" in self.hooks:
            matrix._trace_hook = self.scan_hook
        if "kio" in self.hooks:
            matrix._kio_trace_hook = self.kio_hook
        if "perf" in self.hooks:
            matrix._perf_tracer = self


def exec_py(case: Dict[str, Any]) -> Tuple[Dict[str, Any], List[Dict[str, Any]]]:
    from pce500 import keyboard_matrix as KM

    cfg = case["cfg"]
    model = case["model"]
    names = keymap()
    if model == "py-matrix":
        m = KM.KeyboardMatrix(columns_active_high=bool(cfg["active_high"]),
                              press_threshold=int(cfg["press_threshold"]),
                              release_threshold=int(cfg["release_threshold"]),
                              repeat_delay=int(cfg["repeat_delay"]),
                              repeat_interval=int(cfg["repeat_interval"]))
        h = None
    else:
        from pce500.keyboard_handler import PCE500KeyboardHandler

        h = PCE500KeyboardHandler(None, columns_active_high=bool(cfg["active_high"]))
        m = h._matrix
        # the maintainers' handler tests configure the thresholds exactly like this
        m.press_threshold = int(cfg["press_threshold"])
        m.release_threshold = int(cfg["release_threshold"])
        m.repeat_delay = int(cfg["repeat_delay"])
        m.repeat_interval = int(cfg["repeat_interval"])
    observers = _Observers(cfg["observers"]) if cfg.get("observers") else None
    if observers is not None:
        observers.attach(m)
    calls: List[Tuple[List[Any], bool]] = []
    # Observation only: lets us see the ticks performed inside a KIL read.  The wrapper sits on the object the
    # history talks to: for the handler model that is PCE500KeyboardHandler.scan_tick (the tick entry point the
    # emulator calls once per instruction and the KIL read calls internally) -- every call of it IS a scan tick of
    # the history, whatever the handler decides to do with the matrix underneath.
    tick_owner = h if h is not None else m
    orig_scan = tick_owner.scan_tick

    def recording_scan_tick() -> Any:
        try:
            ev = orig_scan()
        except Exception as exc:
            if observers is not None and observers.owns(exc):
                # the tick was started and a generated observer fault came out of it: it is a scan tick of the
                # history that handed no events to its caller
                calls.append(([], True))
            raise
        calls.append((list(ev or []), False))
        return ev

    tick_owner.scan_tick = recording_scan_tick

    def snapshot() -> List[int]:
        return [int(b) for b in (h.fifo_snapshot() if h is not None else m.fifo_snapshot())]

    info = {"press_threshold": int(m.press_threshold), "release_threshold": int(m.release_threshold),
            "repeat_delay": int(m.repeat_delay), "repeat_interval": int(m.repeat_interval),
            "repeat_enabled": True, "capacity": int(KM.FIFO_SIZE), "active_high": bool(m.columns_active_high),
            "kol": int(m.kol), "koh": int(m.koh), "fifo": snapshot(), "isr": None, "irq_enabled": None}
    obs: List[Dict[str, Any]] = []
    for o in case["ops"]:
        v = o[0]
        rec: Dict[str, Any] = {"verb": v, "args": list(o[1:])}
        del calls[:]
        n_calls, n_raises = (observers.calls, observers.raises) if observers is not None else (0, 0)
        try:
            if v == "press":
                (h or m).press_key(names[o[1]])
            elif v == "release":
                (h or m).release_key(names[o[1]])
            elif v == "kol":
                if h is not None:
                    h.handle_register_write(0xF0, o[1])
                else:
                    m.write_kol(o[1])
            elif v == "koh":
                if h is not None:
                    h.handle_register_write(0xF1, o[1])
                else:
                    m.write_koh(o[1])
            elif v == "scan":
                (h or m).scan_tick()
            elif v == "kil":
                rec["kil"] = int(h.handle_register_read(0xF2)) if h is not None else int(m.read_kil())
            elif v == "peek":
                rec["kil"] = int(h.peek_keyboard_input()) if h is not None else int(m.peek_kil())
            elif v == "inject":
                m.inject_event(names[o[1]], release=bool(o[2]))
                rec["injected"] = True
            elif v == "consume":
                (h or m).consume_pending_events()
                rec["consumed"] = True
            elif v == "pop":
                rec["popped"] = m.pop_fifo()
                rec["consumed"] = True
            elif v == "bad":
                rec["rejected"] = _py_bad(h, m, o[1], int(o[2]))
            else:
                raise HarnessError(f"C14: op {v!r} is not defined for model {model}")
        except HarnessError:
            raise
        except Exception as exc:
            if observers is None or not observers.owns(exc):
                raise
            # a generated observer fault came out of the operation: the host logs it and carries on
            rec["observer_fault"] = True
            rec.pop("kil", None)
        if observers is not None:
            rec["observer_calls"] = observers.calls - n_calls
            rec["observer_raises"] = observers.raises - n_raises
        rec["ticks"] = [{"certain": True, "events": [_ev_dict(e) for e in evs], "observer_fault": fault}
                        for evs, fault in calls]
        rec["fifo"] = snapshot()
        obs.append(rec)
    return info, obs


_PYM: Dict[str, Any] = {}


def _pymachine() -> Tuple[Any, Any]:
    if not _PYM:
        import contextlib
        import io

        with contextlib.redirect_stdout(io.StringIO()):
            from pce500 import PCE500Emulator
            from sc62015.pysc62015.emulator import RegisterName
        _PYM["E"] = PCE500Emulator
        _PYM["R"] = RegisterName
    return _PYM["E"], _PYM["R"]


def exec_pycpu(case: Dict[str, Any]) -> Tuple[Dict[str, Any], List[Dict[str, Any]]]:
    """Python machine flavour: pce500.PCE500Emulator; strobe writes, KIL reads and scan ticks are instructions
    executed by emu.step() (one keyboard scan per executed instruction, plus the scan inside a KIL read)."""
    from pce500 import keyboard_matrix as KM

    E, RN = _pymachine()
    cfg = case["cfg"]
    names = keymap()
    emu = E(perfetto_trace=False, save_lcd_on_exit=False, keyboard_columns_active_high=bool(cfg["active_high"]))
    INT = 0x100000
    mem = emu.memory
    h = emu.keyboard
    m = h._matrix
    m.press_threshold = int(cfg["press_threshold"])
    m.release_threshold = int(cfg["release_threshold"])
    m.repeat_delay = int(cfg["repeat_delay"])
    m.repeat_interval = int(cfg["repeat_interval"])
    emu._timer_enabled = False           # no timer interrupts: the only scans are per instruction / per KIL read
    # keyboard-interrupt enable of the machine (a snapshot field; set the way pce500/tests/test_snapshot_roundtrip.py
    # does): when on, a pending key request makes the emulator read KIL itself before each instruction
    emu._kb_irq_enabled = bool(cfg["irq_enabled"])
    # IMR is a generated configuration with the KEY bit clear (polling firmware / key interrupt masked): nothing is
    # delivered, the program is a straight line
    imr0 = int(cfg.get("imr", 0)) & 0xFF
    if imr0 & 0x04:
        raise HarnessError("C14: the Python machine flavour needs an interrupt mask with the KEY bit clear")
    mem.write_byte(INT + 0xFB, imr0)
    log: List[List[Any]] = []            # time-ordered: ["t", events, fifo] | ["k", fifo] | ["w"]
    orig_scan, orig_read, orig_write = h.scan_tick, h.handle_register_read, h.handle_register_write

    def snapshot() -> List[int]:
        return [int(b) for b in h.fifo_snapshot()]

    def scan_tick() -> Any:
        ev = orig_scan()
        log.append(["t", [_ev_dict(e) for e in (ev or [])], snapshot()])
        return ev

    def reg_read(register: int) -> Any:
        r = orig_read(register)
        if (register & 0xFF) == 0xF2:
            log.append(["k", snapshot()])
        return r

    def reg_write(register: int, value: int) -> Any:
        if (register & 0xFF) in (0xF0, 0xF1):
            log.append(["w"])
        return orig_write(register, value)

    # observation only (position markers and the events returned by the tick entry point)
    h.scan_tick, h.handle_register_read, h.handle_register_write = scan_tick, reg_read, reg_write

    ext = mem.external_memory

    def irq_view() -> Dict[str, Any]:
        # ISR byte straight from the backing store (no bus access, no side effect), the machine's enable and latch
        return {"isr": int(ext[len(ext) - 256 + 0xFC]), "irq_enabled": bool(emu._kb_irq_enabled),
                "latched": bool(emu._key_irq_latched)}

    info = {"press_threshold": int(m.press_threshold), "release_threshold": int(m.release_threshold),
            "repeat_delay": int(m.repeat_delay), "repeat_interval": int(m.repeat_interval),
            "repeat_enabled": True, "capacity": int(KM.FIFO_SIZE), "active_high": bool(m.columns_active_high),
            "kol": int(m.kol), "koh": int(m.koh), "fifo": snapshot()}
    info.update(irq_view())
    info["latch_ctx"] = " [the machine's key latch was still set from an earlier event]"
    obs: List[Dict[str, Any]] = []
    prev_fifo: List[int] = snapshot()

    def pending_seen(final: List[int]) -> bool:
        # was an event pending at any observed point of this operation (start, every tick / key-input read, end)?
        return bool(prev_fifo) or bool(final) or any(bool(e[-1]) for e in log if e[0] in ("t", "k"))

    try:
        for idx, o in enumerate(case["ops"]):
            v = o[0]
            del log[:]
            if obs:
                prev_fifo = list(obs[-1]["fifo"])
            base: Dict[str, Any] = {"verb": v, "args": list(o[1:]), "op": idx, "ticks": []}
            if v == "press":
                emu.press_key(names[o[1]])
            elif v == "release":
                emu.release_key(names[o[1]])
            elif v == "inject":
                m.inject_event(names[o[1]], release=bool(o[2]))
                base["injected"] = True
            elif v == "consume":
                h.consume_pending_events()
                base["consumed"] = True
            elif v == "bad":
                base["rejected"] = _py_bad(emu if o[1] in ("press", "release") else h, m, o[1], int(o[2]))
            elif v == "hkil":
                # key-input read from the host side of the machine's bus (the Python machine consumes its queue
                # on every bus read of the register)
                base["verb"] = "kil"
                base["kil"] = int(mem.read_byte(INT + 0xF2)) & 0xFF
                base["consumed"] = True
            elif v == "hw":
                # firmware-visible register written from the host side of the bus: ["hw", offset, "and"|"set", value]
                cur = int(ext[len(ext) - 256 + int(o[1])]) & 0xFF
                mem.write_byte(INT + int(o[1]), (cur & int(o[3])) if o[2] == "and" else int(o[3]) & 0xFF)
            elif v == "x":
                meta = o[7]
                base["verb"] = meta["kind"]
                base["args"] = [meta.get("start"), meta.get("width")]
                for off, val in sorted(o[4].items(), key=lambda kv: int(kv[0])):
                    mem.write_byte(INT + int(off), int(val) & 0xFF)
                for i, b in enumerate(o[2]):
                    mem.write_byte(int(o[1]) + i, int(b) & 0xFF)
                for rn, val in sorted(o[3].items()):
                    emu.cpu.regs.set(getattr(RN, rn), int(val))
                emu.cpu.regs.set(RN.PC, int(o[1]))
                try:
                    emu.step()
                except Exception as exc:  # the generated straight-line instruction must execute
                    raise HarnessError(f"C14: Python machine failed to execute {o[2]} ({meta['form']}): {exc!r}")
                if int(emu.cpu.regs.get(RN.PC)) != int(o[1]) + len(o[2]):
                    raise HarnessError(f"C14: generated instruction {o[2]} ({meta['form']}) did not execute as one "
                                       f"instruction of {len(o[2])} bytes on the Python machine")
                ret = {"regs": {rn: int(emu.cpu.regs.get(getattr(RN, rn))) for rn in o[5]},
                       "imem": [int(mem.read_byte(INT + int(off))) & 0xFF for off in o[6]]}
                if not any(e[0] == "t" for e in log):
                    # "Scan the key matrix once per instruction" (PCE500Emulator._scan_keyboard_per_instruction):
                    # an executed instruction is a scan tick of the history even if the machine skipped the call
                    log.append(["t", [], snapshot()])
                recs = _segment(base, meta, ret, list(log), snapshot())
                recs[-1].update(irq_view())      # ISR is sampled at instruction boundaries only
                recs[-1]["pending_seen"] = pending_seen(recs[-1]["fifo"])
                obs.extend(recs)
                continue
            else:
                raise HarnessError(f"C14: op {v!r} is not defined for model py-cpu")
            base["ticks"] = [{"certain": True, "events": e[1]} for e in log if e[0] == "t"]
            base["fifo"] = snapshot()
            base.update(irq_view())
            base["pending_seen"] = pending_seen(base["fifo"])
            obs.append(base)
    finally:
        try:
            emu.save_lcd_on_exit = False
            emu.close()
        except Exception:
            pass
    return info, obs


def _segment(base: Dict[str, Any], meta: Dict[str, Any], ret: Dict[str, Any], log: List[List[Any]],
             final_fifo: List[int]) -> List[Dict[str, Any]]:
    """Cut one executed instruction into history records in the order things happened inside the step: a scan tick
    after the key-input value was sampled, or before the strobe registers were written, gets a record of its own.
    What the strobe write / the read *mean* comes from the instruction (c14_cpu), not from the observed calls."""
    recs: List[Dict[str, Any]] = []

    def new() -> Dict[str, Any]:
        r = dict(base)
        r["ticks"] = []
        recs.append(r)
        return r

    cur = new()
    strobes = CPU.implied_strobes(meta) if meta["kind"] == "st" else []
    kil = CPU.kil_of_load(meta, CPU.loaded_value(meta, ret)) if meta["kind"] == "ld" else None
    placed_strobes = not strobes
    placed_kil = kil is None
    if strobes and not any(e[0] == "w" for e in log):
        cur["strobes"], cur["wide"], placed_strobes = strobes, int(meta["width"]) > 1, True
    for e in log:
        if e[0] == "t":
            if "kil" in cur:
                cur = new()
            cur["ticks"].append({"certain": True, "events": e[1]})
            cur["fifo"] = e[2]
        elif e[0] == "k" and not placed_kil:
            cur["kil"], cur["wide"], placed_kil = kil, int(meta["width"]) > 1, True
            cur["fifo"] = e[1]
        elif e[0] == "w" and not placed_strobes:
            if cur["ticks"]:
                cur = new()
            cur["strobes"], cur["wide"], placed_strobes = strobes, int(meta["width"]) > 1, True
    if not placed_kil:
        # the key-input value reached the CPU without the handler's read being called: judged at the end of the step
        if "kil" in cur:
            cur = new()
        cur["kil"], cur["wide"] = kil, int(meta["width"]) > 1
    recs[-1]["fifo"] = final_fifo
    # Any key-input read through the machine's bus -- the instruction's own, or the read the emulator itself performs
    # while an interrupt request is pending -- empties the queue on the Python machine (as the Rust KIL read does):
    # the whole step is an explicit consumption as far as the queue clause is concerned.
    consumed = any(e[0] == "k" for e in log)
    for r in recs:
        r.setdefault("fifo", final_fifo)
        if consumed:
            r["consumed"] = True
    return recs


def normalise_rs(case: Dict[str, Any], res: Dict[str, Any]) -> Tuple[Dict[str, Any], List[Dict[str, Any]]]:
    if "panic" in res or "init" not in res:
        raise HarnessError(f"C14: rust harness failed on a history: {str(res)[:300]}")
    info = dict(res["init"])
    cap = int(info["capacity"])
    fifo = list(info["fifo"])
    obs: List[Dict[str, Any]] = []
    for o, r in zip(case["ops"], res["obs"]):
        if "error" in r:
            raise HarnessError(f"C14: rust harness rejected op {o}: {r['error']}")
        v = o[0]
        rec: Dict[str, Any] = {"verb": v, "args": list(o[1:]), "fifo": list(r["fifo"]),
                               "isr": None if r.get("isr") is None else int(r["isr"]),
                               "irq_enabled": bool(r["irq_enabled"]), "latched": bool(r.get("latched", False)),
                               "irq_count": r.get("irq_count"), "ticks": []}
        ret = r.get("ret") or {}
        after = rec["fifo"]
        if v == "x":
            # an executed instruction: the history is told what it means architecturally (c14_cpu), nothing else
            meta = o[7]
            rec["args"] = [meta["start"], meta["width"]]
            if ret.get("pc") != (int(o[1]) + len(o[2])) & 0xFFFFF:
                raise HarnessError(f"C14: generated instruction {o[2]} ({meta['form']}) did not execute as one "
                                   f"instruction of {len(o[2])} bytes: pc={ret.get('pc')}")
            if meta["kind"] == "st":
                v = rec["verb"] = "st"
                rec["strobes"] = CPU.implied_strobes(meta)
                rec["wide"] = int(meta["width"]) > 1
            else:
                v = rec["verb"] = "ld"
                kv = CPU.kil_of_load(meta, CPU.loaded_value(meta, ret))
                if kv is not None:
                    rec["kil"] = kv
                    rec["ticks"] = [{"certain": False, "events": None}]
                    rec["consumed"] = True
                    rec["wide"] = int(meta["width"]) > 1
        if v == "scan" or (v == "ttick" and ret.get("mti")):
            n = int(ret.get("n", 0))
            if n == 0:
                evs: Optional[List[Dict[str, Any]]] = []
            elif n > cap:
                evs = None  # more events in one tick than the queue can show
            elif n <= len(after):
                evs = [{"code": b & 0x7F, "release": bool(b & 0x80), "repeat": None} for b in after[len(after) - n:]]
            else:
                evs = None
                rec["adapter_violation"] = ("fifo", "scan reported more new events than the queue holds afterwards",
                                            f"n={n} before={fifo} after={after}")
            rec["ticks"] = [{"certain": True, "events": evs, "n_events": n}]
        elif v == "kil":
            kv = ret.get("kil")
            rec["kil"] = None if kv is None else int(kv)
            # Rust KIL read: documented to advance the debounce state and to consume the queue; events it
            # generates are not observable, and the tick is treated as "possible".
            rec["ticks"] = [{"certain": False, "events": None}]
            rec["consumed"] = True
        elif v == "inject":
            rec["injected"] = True
        elif v == "consume":
            rec["consumed"] = True
        fifo = after
        obs.append(rec)
    return info, obs


# ------------------------------------------------------------------------------------------------
# verdicts
# ------------------------------------------------------------------------------------------------

def verdicts_for(case: Dict[str, Any], info: Dict[str, Any], obs: List[Dict[str, Any]]) -> Tuple[List[Violation], Dict[str, Any]]:
    V, facts = H.judge(info, obs)
    out: List[Violation] = []
    seen = set()
    for sub, verb, sym, ridx, detail in V.items:
        fp = (sub, verb, sym)
        if fp in seen:
            continue
        seen.add(fp)
        idx = int(obs[ridx].get("op", ridx))     # an executed instruction may be cut into several records
        small = {"model": case["model"], "cfg": case["cfg"], "ops": case["ops"][: idx + 1]}
        out.append(Violation(sub, f"{case['model']}:{verb}", sym, small,
                             f"op #{idx} {case['ops'][idx]}: {detail}; thresholds P={info['press_threshold']} "
                             f"R={info['release_threshold']} delay={info['repeat_delay']} "
                             f"interval={info['repeat_interval']} active_high={info['active_high']}"))
    return out, facts


def run_cases(cases: List[Dict[str, Any]]) -> List[Tuple[List[Violation], Dict[str, Any]]]:
    """Execute fully expanded cases ({model,cfg,ops}) and judge them."""
    results: List[Optional[Tuple[List[Violation], Dict[str, Any]]]] = [None] * len(cases)
    rs_idx = [i for i, c in enumerate(cases) if c["model"] in ("rs", "rs-cpu")]
    if rs_idx:
        rust = rsclient.shared()
        B = 64
        for j in range(0, len(rs_idx), B):
            chunk = rs_idx[j:j + B]
            req = {"cmd": "c14.run", "cases": [{"cfg": cases[i]["cfg"], "ops": cases[i]["ops"],
                                                "cpu": cases[i]["model"] == "rs-cpu"} for i in chunk]}
            try:
                resp = rust.call(req)
            except HarnessError:
                # requests are stateless: if the harness subprocess went away (e.g. killed from outside), start a
                # fresh one and repeat the batch once; a second failure is reported as a harness error
                rsclient._shared = None
                rust = rsclient.shared()
                resp = rust.call(req)
            if not resp.get("ok"):
                raise HarnessError(f"c14.run failed: {str(resp)[:300]}")
            for i, res in zip(chunk, resp["results"]):
                info, obs = normalise_rs(cases[i], res)
                results[i] = verdicts_for(cases[i], info, obs)
    for i, c in enumerate(cases):
        if c["model"] not in ("rs", "rs-cpu"):
            info, obs = exec_pycpu(c) if c["model"] == "py-cpu" else exec_py(c)
            results[i] = verdicts_for(c, info, obs)
    return [r for r in results if r is not None]


def _labels(case: Dict[str, Any], facts: Dict[str, Any], viols: List[Violation]) -> List[str]:
    lb = [f"model:{case['model']}", "polarity:" + ("high" if case["cfg"]["active_high"] else "low")]
    for f in ("row_share", "strobe_change_while_held", "overflow"):
        if facts[f]:
            lb.append(f"hist:{f}")
    for f, name in (("press_events", "press-event"), ("release_events", "release-event"),
                    ("repeat_events", "repeat-event"), ("kil_nonzero", "kil-nonzero"), ("keyi_rises", "keyi-rise"),
                    ("redundant_press", "redundant-press"), ("redundant_release", "redundant-release"),
                    ("chatter", "chatter"), ("lossy", "lossy-tick"), ("parked_release", "parked-release-tick"),
                    ("cpu_strobe_stores", "cpu-strobe-store"), ("cpu_wide_strobe_stores", "cpu-wide-strobe-store"),
                    ("keyi_clears", "keyi-cleared"), ("keyi_rerises", "keyi-rise-after-clear"),
                    ("wake_events", "wake-event"), ("inject_fresh_press", "inject-press-of-unheld-key"),
                    ("full_queue", "queue-full"), ("rejected_ops", "rejected-op"),
                    ("big_ticks", "tick-with-more-events-than-capacity"), ("multi_event_ticks", "tick-with-5+-events"),
                    ("observer_calls", "observer-invoked"), ("observer_raises", "observer-raised"),
                    ("observer_raises_in_tick", "observer-raised-inside-event-tick")):
        if facts[f]:
            lb.append(f"saw:{name}")
    if facts.get("keys", 0) >= 9:
        lb.append("hist:chord-keys(>=9)")
    if case["model"] in ("py-matrix", "py-handler"):
        ob = case["cfg"].get("observers")
        lb.append("py-observers:" + ("none" if not ob else ("flaky" if ob.get("raise_at") else "quiet")))
        if ob:
            for hk in ob.get("hooks") or []:
                lb.append(f"py-observer-hook:{hk}")
    mode = case["cfg"].get("kbd_mode") or []
    if case["model"] in ("rs", "rs-cpu"):
        lb.append("rs-kbd-mode:" + ("+".join(mode) if mode else "default"))
    if case["model"] == "py-cpu":
        imr = int(case["cfg"].get("imr", 0))
        lb.append("py-cpu:imr-" + ("zero" if imr == 0 else ("irm-set" if imr & 0x80 else "irm-clear")))
        if facts["keyi_clears"] and facts["keyi_rerises"]:
            lb.append("py-cpu:keyi-acknowledged-and-raised-again")
    if case["model"] in ("rs", "rs-cpu"):
        lb.append("rs:irq-" + ("on" if case["cfg"]["irq_enabled"] else "off"))
    if case["model"] == "py-cpu":
        lb.append("py-cpu:irq-" + ("on" if case["cfg"]["irq_enabled"] else "off"))
    for v in viols:
        lb.append(f"viol:{v.subcheck}")
    return lb


def _shard(task: Tuple[int, int, str, int, int]) -> Report:
    shard, seed, tier, nhist, max_ops = task
    rep = Report()
    cases: List[Dict[str, Any]] = []
    for j in range(nhist):
        st = Stream(seed, 0xC14, shard, j)
        long = (j % 16 == 15)
        hist = gen_history(st, max_ops * (3 if long else 1) if tier != "quick" else max_ops + (80 if long else 0))
        for model in MODELS:
            if hist["rs_only"] and model not in ("rs", "rs-cpu"):
                continue
            if model == "py-cpu" and j % 2 == 0:
                continue                      # the Python machine is the slowest model: every second history
            cases.append({"model": model, "cfg": hist["cfg"],
                          "ops": ops_for_model(hist["ops"], model, hist["cpu_seed"], hist["cfg"])})
    results = run_cases(cases)
    for case, (viols, facts) in zip(cases, results):
        for v in viols:
            rep.violate(v)
        nt = facts["press_events"] > 0 and (facts["row_share"] or facts["strobe_change_while_held"] or facts["overflow"])
        sample = None
        if rep.evaluations % 97 == 5:
            sample = {"model": case["model"], "cfg": case["cfg"], "n_ops": len(case["ops"]),
                      "ops_head": case["ops"][:25], "facts": facts, "violations": [v.fingerprint for v in viols]}
        rep.case(jhash(case) if nt else None, _labels(case, facts, viols), sample)
    return rep


ASSUMPTIONS = [
    "no cross-model verdict: Python and Rust are judged separately against the history invariants",
    "thresholds, polarity, queue capacity and initial KOL/KOH are read from the object under test after configuration; "
    "Rust release threshold / repeat delay / repeat interval have no setter and are applied through "
    "snapshot_state()/load_snapshot_state() of a fresh matrix",
    "a second press of an already-held key and a release of a non-held key are physical no-ops in the history",
    "scan ticks = explicit scan/timer ticks plus the tick the Python handler performs inside a KIL read (observed by "
    "wrapping scan_tick); the tick inside a Rust KIL read is only a *possible* tick: it counts towards upper bounds "
    "(when an event may appear) but not towards lower bounds (when a bit/event must appear)",
    "events generated inside a Rust KIL read are consumed by the same call and therefore unobservable; the per-key "
    "grammar position is narrowed from tick bounds only and no cadence is asserted across such a read",
    "Rust events carry no repeat flag: a make event while a press is outstanding is judged as a repeat (cadence), "
    "or as a duplicate press when the matrix' own repeat switch is off",
    "repeat cadence is asserted only inside clean windows (key continuously held and strobed at every tick); delay/"
    "interval 0 is read as 'next tick' for the only-if direction, and no repeat is *required* when interval == 0",
    "queue: at least capacity-1 entries are retained on overflow (the Python ring buffer keeps 7 of 8)",
    "KEYI clause is checked on the Rust composition KeyboardMatrix + TimerContext with the closure CoreRuntime uses, "
    "and on the Python machine (py-cpu) for polling firmware: interrupt mask generated with the KEY bit clear, so "
    "nothing is delivered; delivery / RETI flows are C12's",
    "py-cpu KEYI: ISR bit 2 is sampled at operation boundaries; a rise inside an operation is justified when the queue "
    "was non-empty at any observed point of the operation (start, after each tick, at each key-input read, end) and "
    "the machine's keyboard-interrupt enable is on; firmware acknowledges (store / AND / host write to ISR, 16-bit "
    "store at IMR) only ever clear bit 2 and never set a status bit; the machine's queue is consumed through bus "
    "reads of the key-input register only (the handler's consume call behind the machine's back is not used)",
    "Rust device configurations: 'iq7000' = disable_fifo_mirroring + set_keyi_on_any_press(true) + set_raw_kil(true) "
    "as in sc62015/core/src/device.rs. With wake-on-press a press of a key that is not held enqueues one make event "
    "at the press (keyboard.rs comment 'Wake on any new physical press'), a repeated press none; with mirroring off "
    "the per-key event grammar, its timing and the repeat cadence are NOT asserted (only queue accounting, KEYI and "
    "the KIL clauses); combinations no device uses (wake-on-press with mirroring on, mirroring off alone) are not "
    "generated",
    "KeyboardMatrix::irq_count() may not advance by more than the number of events an operation enqueued (requests "
    "without events); not judged for operations whose events are invisible (Rust KIL read)",
    "rejected operations (unknown key name / matrix code >= 128, read or write of a port other than 0xF0..0xF2 through "
    "the keyboard's own handler) are no-ops of the history",
    "injected events are taken as given (they reset the key's grammar position), only their queueing is checked",
    "CPU flavours (rs-cpu, py-cpu): a port access is an executed instruction; the history is told only what the "
    "instruction means architecturally -- a little-endian store of w bytes at IMEM offset s writes byte i to s+i, the "
    "bytes landing on 0xF0/0xF1 are strobe writes; a load covering 0xF2 carries KIL in byte 0xF2-s. 24-bit immediates "
    "and X/Y/U hold 20 bits on both cores, so a third byte with its top nibble set is only moved by MVP (m),(n)",
    "rs-cpu keeps CoreRuntime's default (disabled) timer: instructions perform no scan, ticks are direct scan_tick "
    "calls on rt.keyboard plus the possible tick inside a KIL read; KEYI is not judged there (C12)",
    "py-cpu: every executed instruction is at least one scan tick ('Scan the key matrix once per instruction', "
    "PCE500Emulator._scan_keyboard_per_instruction); ticks and their events are observed at "
    "PCE500KeyboardHandler.scan_tick, the order of ticks / KIL sampling / strobe writes inside one step is taken from "
    "position markers on the handler's register read/write entry points; a step in which KIL was read through the "
    "bus (by the instruction, or by the emulator itself while an interrupt request is pending) counts as an explicit "
    "consumption of the queue; timers are off and the KEY bit of IMR is clear (straight-line program); ISR bit 2 is "
    "sampled at instruction boundaries and judged against the machine's _kb_irq_enabled (a generated configuration)",
    "py-handler: every call of PCE500KeyboardHandler.scan_tick (explicit, or inside a KIL read) is a scan tick",
    "host observers (Python matrix / handler models): KeyboardMatrix._trace_hook, _kio_trace_hook and _perf_tracer -- "
    "the attributes pce500/emulator.py attaches -- are observers: whether they are attached, what the KIO hook returns "
    "and whether they raise (Exception subclasses only) is not part of the history; the host catches a generated "
    "observer fault that escapes an operation and carries on; a scan tick that ended with such a fault is a scan tick "
    "of the history that handed no events to its caller (afterwards every key's grammar position is resynchronised)",
    "a Rust scan tick that reports more new events than the queue's capacity has unobservable events; the queue must "
    "be within capacity and full (>= capacity-1) afterwards",
    "Rust scan_enabled=false, Python scan_enabled=False / KSD masking / release_all_keys are not explored",
]


def run(ctx: Ctx) -> Report:
    rsclient.build()
    nshards = 16 if ctx.quick else 64
    nhist = ctx.pick(110, 420)
    max_ops = 120
    reports = ctx.pmap(_shard, [(i, ctx.seed, ctx.tier, nhist, max_ops) for i in range(nshards)])
    rep = ctx.merge_reports(reports)
    rep.rule = RULE
    rep.assumptions = list(ASSUMPTIONS)
    return rep


def replay(ctx: Ctx, case: Dict[str, Any]) -> List[Violation]:
    if case.get("model") in ("rs", "rs-cpu"):
        rsclient.build()
    (viols, _facts), = run_cases([{"model": case["model"], "cfg": case["cfg"], "ops": case["ops"]}])
    return viols


def shrink(ctx: Ctx, v: Violation) -> Violation:
    """Greedy removal of operations (chunks, then single ops) while the same fingerprint persists."""
    key = v.key()
    best = v

    def attempt(ops: List[List[Any]]) -> Optional[Violation]:
        c = {"model": best.case["model"], "cfg": best.case["cfg"], "ops": ops}
        try:
            (viols, _), = run_cases([c])
        except HarnessError:
            return None
        for w in viols:
            if w.key() == key:
                return w
        return None

    import time

    t_end = time.time() + 10.0  # wall clock only bounds the effort; the result is any witness of the same class
    budget = 1500
    chunk = max(1, len(best.case["ops"]) // 2)
    while chunk >= 1 and budget > 0 and time.time() < t_end:
        i = 0
        changed = False
        while i < len(best.case["ops"]) and budget > 0 and time.time() < t_end:
            ops = best.case["ops"]
            trial = ops[:i] + ops[i + chunk:]
            budget -= 1
            w = attempt(trial) if trial else None
            if w is not None and len(w.case["ops"]) < len(ops):
                best = w
                changed = True
            else:
                i += chunk
        if not changed or chunk == 1:
            chunk //= 2
    return best
