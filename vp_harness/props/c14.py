"""C14 -- keyboard reads show exactly the held keys on strobed columns; events ordered.

Generated domain: histories over {press k, release k, write KOL/KOH, scan tick, KIL read, inject event, consume}
(+ Rust: timer-driven tick through TimerContext::tick_timers_with_keyboard, write_fifo_to_memory, RETI-style
acknowledge, keyboard-interrupt enable) for 2..6 keys biased to share rows/columns, both column polarities,
press/release thresholds 1..6, repeat delay/interval in {0,1,2,6,24}; composite sub-sequences for chatter,
strobe change mid-debounce, long holds (repeat) and bursts (queue overflow).  Each abstract history is run on
three models: pce500.keyboard_matrix.KeyboardMatrix, pce500.keyboard_handler.PCE500KeyboardHandler and the Rust
sc62015_core::keyboard::KeyboardMatrix (+ TimerContext).

Oracle: history invariants only (c14_hist.judge) -- no cross-model verdict; thresholds, polarity, capacity and
initial strobe registers are read back from the object under test.
"""

from __future__ import annotations

from typing import Any, Dict, List, Optional, Tuple

from ..core import Ctx, HarnessError, Report, Violation, jhash, mix32
from ..gen_state import Stream
from .. import rsclient
from . import c14_hist as H

PROPERTY = "C14"
RULE = ("seeded histories (<= 120..300 ops) over press/release/strobe writes/scan ticks/KIL reads/inject/consume "
        "(+ Rust timer tick, write_fifo_to_memory, acknowledge, irq enable) on 2..6 keys biased to share rows and "
        "columns, both polarities, thresholds 1..6, repeat delay/interval in {0,1,2,6,24}, with chatter, "
        "mid-debounce strobe change, long-hold and burst sub-sequences; every history is executed on the Python "
        "matrix, the Python handler and the Rust matrix. Non-trivial = the model produced >= 1 debounced press "
        "event and the history has two held keys sharing a row, a strobe change while a key is held, or a queue "
        "overflow; distinct = hash of (model, configuration, operation list).")

MODELS = ("py-matrix", "py-handler", "rs")
RS_ONLY_VERBS = ("wfifo", "ack", "iclr", "irq")
THRESH = (1, 1, 2, 2, 3, 4, 5, 6, 6)
REPEAT = (0, 1, 2, 6, 24)

_KEYMAP: Optional[Dict[int, str]] = None


def keymap() -> Dict[int, str]:
    """matrix code -> key name, from the repository's own table (data under test, not oracle)."""
    global _KEYMAP
    if _KEYMAP is None:
        from pce500.keyboard_matrix import KEY_LOCATIONS

        _KEYMAP = {((loc.column << 3) | loc.row): name for name, loc in sorted(KEY_LOCATIONS.items())}
    return _KEYMAP


# ------------------------------------------------------------------------------------------------
# generation
# ------------------------------------------------------------------------------------------------

def _strobe_ops(cols: List[int], active_high: bool, st: Stream, both: bool = True) -> List[List[Any]]:
    word = 0
    for c in cols:
        word |= 1 << c
    if not active_high:
        word ^= 0xFFFF
    kol, koh = word & 0xFF, (word >> 8) & 0xFF
    ops: List[List[Any]] = [["kol", kol], ["koh", koh]]
    if not both:
        return [ops[st.below(2)]]
    if st.chance(1, 2):
        ops.reverse()
    return ops


def gen_history(st: Stream, max_ops: int) -> Dict[str, Any]:
    km = sorted(keymap())
    cfg: Dict[str, Any] = {
        "press_threshold": st.choice(THRESH),
        "release_threshold": st.choice(THRESH),
        "repeat_delay": st.choice(REPEAT),
        "repeat_interval": st.choice(REPEAT),
        "active_high": not st.chance(1, 3),
        "irq_enabled": not st.chance(1, 3),
        "repeat_enabled": not st.chance(1, 8),
        "mti_period": 2 if st.chance(1, 10) else 1,
    }
    polling = st.chance(1, 8)          # firmware that clears ISR bit 2 without RETI / toggles the enable
    rs_only = st.chance(1, 12)         # uses matrix codes that have no Python key name
    timer_ticks = st.chance(1, 2)      # Rust flavour of a tick: TimerContext path or direct scan_tick
    P, R = cfg["press_threshold"], cfg["release_threshold"]

    nkeys = 2 + st.below(5)
    keys: List[int] = [st.choice(km)]
    while len(keys) < nkeys:
        base = st.choice(keys)
        r = st.below(100)
        if rs_only and st.chance(1, 2):
            cand = st.below(128)
        elif r < 40:
            cand = (st.below(11) << 3) | (base & 7)
        elif r < 65:
            cand = (base & ~7) | st.below(8)
        else:
            cand = st.choice(km)
        if cand in keys:
            continue
        if not rs_only and cand not in keymap():
            continue
        keys.append(cand)
    cols = sorted({k >> 3 for k in keys})
    ah = cfg["active_high"]

    ops: List[List[Any]] = []
    held: set = set()

    def tick_op() -> List[Any]:
        if timer_ticks:
            return ["ttick"] if not st.chance(1, 6) else ["scan"]
        return ["scan"] if not st.chance(1, 6) else ["ttick"]

    def ticks(n: int) -> None:
        for _ in range(n):
            ops.append(tick_op())

    def strobe_some() -> None:
        r = st.below(100)
        if r < 40:
            sel = list(cols)
        elif r < 55:
            sel = list(range(11))
        elif r < 75:
            sel = [st.choice(keys) >> 3]
        elif r < 85:
            sel = []
        elif r < 95:
            sel = [c for c in cols if st.chance(1, 2)]
        else:
            sel = [c for c in range(16) if st.chance(1, 2)]
        ops.extend(_strobe_ops(sel, ah, st, both=not st.chance(1, 4)))

    def tick_count() -> int:
        r = st.below(100)
        if r < 25:
            return 1
        if r < 40:
            return P
        if r < 50:
            return max(1, P - 1)
        if r < 60:
            return R
        if r < 70:
            return max(1, cfg["repeat_delay"])
        if r < 78:
            return max(1, cfg["repeat_interval"]) * (1 + st.below(3))
        if r < 90:
            return 1 + st.below(8)
        return 1 + st.below(40)

    if not st.chance(1, 5):
        ops.extend(_strobe_ops(cols, ah, st))

    while len(ops) < max_ops:
        r = st.below(200)
        if r < 24:
            strobe_some()
        elif r < 54:
            cands = [k for k in keys if k not in held]
            if cands and not st.chance(1, 10):
                k = st.choice(cands)
            else:
                k = st.choice(keys)
            ops.append(["press", k])
            held.add(k)
        elif r < 74:
            if held and not st.chance(1, 10):
                k = st.choice(sorted(held))
            else:
                k = st.choice(keys)
            ops.append(["release", k])
            held.discard(k)
        elif r < 124:
            ticks(tick_count())
        elif r < 144:
            ops.append(["kil", 1 if st.chance(1, 3) else 0])
        elif r < 152:
            # chatter: release/press alternating faster than the thresholds
            k = st.choice(keys)
            if k not in held:
                ops.append(["press", k])
                held.add(k)
                ticks(st.choice((0, 1, P, P + 1)))
            for _ in range(2 + st.below(5)):
                ops.append(["release", k])
                ticks(st.choice((0, 0, 1, max(0, R - 1))))
                ops.append(["press", k])
                ticks(st.choice((0, 1, 1, max(0, P - 1))))
            if st.chance(1, 2):
                ops.append(["kil", 0])
        elif r < 160:
            # strobe change in the middle of a debounce
            k = st.choice(keys)
            ops.extend(_strobe_ops(cols, ah, st))
            if k not in held:
                ops.append(["press", k])
                held.add(k)
            ticks(st.below(P + 1))
            others = [c for c in range(11) if c != (k >> 3)]
            ops.extend(_strobe_ops([st.choice(others)] if st.chance(1, 2) else [], ah, st))
            ticks(st.choice((0, 1, max(0, R - 1), R, R + 1)))
            if st.chance(1, 3):
                ops.append(["kil", 0])
            ops.extend(_strobe_ops([k >> 3], ah, st))
            ticks(st.choice((max(0, P - 1), P, P + 1)))
            ops.append(["kil", 0])
        elif r < 168:
            # burst: many transitions in few ticks (queue overflow when thresholds are small)
            ops.extend(_strobe_ops(cols if st.chance(2, 3) else list(range(11)), ah, st))
            for _ in range(1 + st.below(3)):
                for k in keys:
                    if st.chance(3, 4) and k not in held:
                        ops.append(["press", k])
                        held.add(k)
                ticks(P + st.below(2))
                for k in keys:
                    if st.chance(3, 4) and k in held:
                        ops.append(["release", k])
                        held.discard(k)
                ticks(R + st.below(2))
        elif r < 174:
            k = st.choice(keys)
            rel = st.chance(1, 3)
            ops.append(["inject", k, 1 if rel else 0])
            if rel:
                held.discard(k)
            else:
                held.add(k)
        elif r < 180:
            ops.append(["consume", 1 if st.chance(1, 2) else 0])
        elif r < 186:
            # long hold of one key on a strobed column: repeat cadence
            k = st.choice(keys)
            ops.extend(_strobe_ops(cols, ah, st))
            if k not in held:
                ops.append(["press", k])
                held.add(k)
            ticks(P + max(1, cfg["repeat_delay"]) + max(1, cfg["repeat_interval"]) * (1 + st.below(3)) + st.below(2))
        elif r < 192:
            ops.append(["ack"])
        elif r < 195:
            ops.append(["wfifo"])
        elif r < 200 and polling:
            if st.chance(1, 2):
                ops.append(["iclr"])
            else:
                ops.append(["irq", 1 if st.chance(1, 2) else 0])
    ops = ops[:max_ops]
    return {"cfg": cfg, "ops": ops, "rs_only": rs_only, "polling": polling}


def ops_for_model(ops: List[List[Any]], model: str) -> List[List[Any]]:
    """Translate the abstract (Rust-dialect) history into the op set a Python model has."""
    if model == "rs":
        return [list(o) for o in ops]
    out: List[List[Any]] = []
    for o in ops:
        v = o[0]
        if v in RS_ONLY_VERBS:
            continue
        if v == "ttick":
            out.append(["scan"])
        elif v == "kil":
            out.append(["peek"] if (o[1] and model == "py-matrix") else ["kil"])
        elif v == "consume":
            out.append(["pop"] if (o[1] and model == "py-matrix") else ["consume"])
        else:
            out.append(list(o))
    return out


# ------------------------------------------------------------------------------------------------
# execution adapters (observation only)
# ------------------------------------------------------------------------------------------------

def _ev_dict(e: Any) -> Dict[str, Any]:
    return {"code": int(e.code), "release": bool(e.release), "repeat": bool(e.repeat)}


def exec_py(case: Dict[str, Any]) -> Tuple[Dict[str, Any], List[Dict[str, Any]]]:
    from pce500 import keyboard_matrix as KM

    cfg = case["cfg"]
    model = case["model"]
    names = keymap()
    if model == "py-matrix":
        m = KM.KeyboardMatrix(columns_active_high=bool(cfg["active_high"]),
                              press_threshold=int(cfg["press_threshold"]),
                              release_threshold=int(cfg["release_threshold"]),
                              repeat_delay=int(cfg["repeat_delay"]),
                              repeat_interval=int(cfg["repeat_interval"]))
        h = None
    else:
        from pce500.keyboard_handler import PCE500KeyboardHandler

        h = PCE500KeyboardHandler(None, columns_active_high=bool(cfg["active_high"]))
        m = h._matrix
        # the maintainers' handler tests configure the thresholds exactly like this
        m.press_threshold = int(cfg["press_threshold"])
        m.release_threshold = int(cfg["release_threshold"])
        m.repeat_delay = int(cfg["repeat_delay"])
        m.repeat_interval = int(cfg["repeat_interval"])
    calls: List[List[Any]] = []
    orig_scan = m.scan_tick

    def recording_scan_tick() -> Any:
        ev = orig_scan()
        calls.append(list(ev))
        return ev

    m.scan_tick = recording_scan_tick  # observation only: lets us see ticks the handler performs internally

    def snapshot() -> List[int]:
        return [int(b) for b in (h.fifo_snapshot() if h is not None else m.fifo_snapshot())]

    info = {"press_threshold": int(m.press_threshold), "release_threshold": int(m.release_threshold),
            "repeat_delay": int(m.repeat_delay), "repeat_interval": int(m.repeat_interval),
            "repeat_enabled": True, "capacity": int(KM.FIFO_SIZE), "active_high": bool(m.columns_active_high),
            "kol": int(m.kol), "koh": int(m.koh), "fifo": snapshot(), "isr": None, "irq_enabled": None}
    obs: List[Dict[str, Any]] = []
    for o in case["ops"]:
        v = o[0]
        rec: Dict[str, Any] = {"verb": v, "args": list(o[1:])}
        del calls[:]
        if v == "press":
            (h or m).press_key(names[o[1]])
        elif v == "release":
            (h or m).release_key(names[o[1]])
        elif v == "kol":
            if h is not None:
                h.handle_register_write(0xF0, o[1])
            else:
                m.write_kol(o[1])
        elif v == "koh":
            if h is not None:
                h.handle_register_write(0xF1, o[1])
            else:
                m.write_koh(o[1])
        elif v == "scan":
            (h or m).scan_tick()
        elif v == "kil":
            rec["kil"] = int(h.handle_register_read(0xF2)) if h is not None else int(m.read_kil())
        elif v == "peek":
            rec["kil"] = int(h.peek_keyboard_input()) if h is not None else int(m.peek_kil())
        elif v == "inject":
            m.inject_event(names[o[1]], release=bool(o[2]))
            rec["injected"] = True
        elif v == "consume":
            (h or m).consume_pending_events()
            rec["consumed"] = True
        elif v == "pop":
            rec["popped"] = m.pop_fifo()
            rec["consumed"] = True
        else:
            raise HarnessError(f"C14: op {v!r} is not defined for model {model}")
        rec["ticks"] = [{"certain": True, "events": [_ev_dict(e) for e in evs]} for evs in calls]
        rec["fifo"] = snapshot()
        obs.append(rec)
    return info, obs


def normalise_rs(case: Dict[str, Any], res: Dict[str, Any]) -> Tuple[Dict[str, Any], List[Dict[str, Any]]]:
    if "panic" in res or "init" not in res:
        raise HarnessError(f"C14: rust harness failed on a history: {str(res)[:300]}")
    info = dict(res["init"])
    cap = int(info["capacity"])
    fifo = list(info["fifo"])
    obs: List[Dict[str, Any]] = []
    for o, r in zip(case["ops"], res["obs"]):
        if "error" in r:
            raise HarnessError(f"C14: rust harness rejected op {o}: {r['error']}")
        v = o[0]
        rec: Dict[str, Any] = {"verb": v, "args": list(o[1:]), "fifo": list(r["fifo"]), "isr": int(r["isr"]),
                               "irq_enabled": bool(r["irq_enabled"]), "latched": bool(r.get("latched", False)),
                               "ticks": []}
        ret = r.get("ret") or {}
        after = rec["fifo"]
        if v == "scan" or (v == "ttick" and ret.get("mti")):
            n = int(ret.get("n", 0))
            if n == 0:
                evs: Optional[List[Dict[str, Any]]] = []
            elif n <= len(after):
                evs = [{"code": b & 0x7F, "release": bool(b & 0x80), "repeat": None} for b in after[len(after) - n:]]
            elif n > cap:
                evs = None  # more events in one tick than the queue can show
            else:
                evs = None
                rec["adapter_violation"] = ("fifo", "scan reported more new events than the queue holds afterwards",
                                            f"n={n} before={fifo} after={after}")
            rec["ticks"] = [{"certain": True, "events": evs}]
        elif v == "kil":
            kv = ret.get("kil")
            rec["kil"] = None if kv is None else int(kv)
            # Rust KIL read: documented to advance the debounce state and to consume the queue; events it
            # generates are not observable, and the tick is treated as "possible".
            rec["ticks"] = [{"certain": False, "events": None}]
            rec["consumed"] = True
        elif v == "inject":
            rec["injected"] = True
        elif v == "consume":
            rec["consumed"] = True
        fifo = after
        obs.append(rec)
    return info, obs


# ------------------------------------------------------------------------------------------------
# verdicts
# ------------------------------------------------------------------------------------------------

def verdicts_for(case: Dict[str, Any], info: Dict[str, Any], obs: List[Dict[str, Any]]) -> Tuple[List[Violation], Dict[str, Any]]:
    V, facts = H.judge(info, obs)
    out: List[Violation] = []
    seen = set()
    for sub, verb, sym, idx, detail in V.items:
        fp = (sub, verb, sym)
        if fp in seen:
            continue
        seen.add(fp)
        small = {"model": case["model"], "cfg": case["cfg"], "ops": case["ops"][: idx + 1]}
        out.append(Violation(sub, f"{case['model']}:{verb}", sym, small,
                             f"op #{idx} {case['ops'][idx]}: {detail}; thresholds P={info['press_threshold']} "
                             f"R={info['release_threshold']} delay={info['repeat_delay']} "
                             f"interval={info['repeat_interval']} active_high={info['active_high']}"))
    return out, facts


def run_cases(cases: List[Dict[str, Any]]) -> List[Tuple[List[Violation], Dict[str, Any]]]:
    """Execute fully expanded cases ({model,cfg,ops}) and judge them."""
    results: List[Optional[Tuple[List[Violation], Dict[str, Any]]]] = [None] * len(cases)
    rs_idx = [i for i, c in enumerate(cases) if c["model"] == "rs"]
    if rs_idx:
        rust = rsclient.shared()
        B = 64
        for j in range(0, len(rs_idx), B):
            chunk = rs_idx[j:j + B]
            req = {"cmd": "c14.run", "cases": [{"cfg": cases[i]["cfg"], "ops": cases[i]["ops"]} for i in chunk]}
            try:
                resp = rust.call(req)
            except HarnessError:
                # requests are stateless: if the harness subprocess went away (e.g. killed from outside), start a
                # fresh one and repeat the batch once; a second failure is reported as a harness error
                rsclient._shared = None
                rust = rsclient.shared()
                resp = rust.call(req)
            if not resp.get("ok"):
                raise HarnessError(f"c14.run failed: {str(resp)[:300]}")
            for i, res in zip(chunk, resp["results"]):
                info, obs = normalise_rs(cases[i], res)
                results[i] = verdicts_for(cases[i], info, obs)
    for i, c in enumerate(cases):
        if c["model"] != "rs":
            info, obs = exec_py(c)
            results[i] = verdicts_for(c, info, obs)
    return [r for r in results if r is not None]


def _labels(case: Dict[str, Any], facts: Dict[str, Any], viols: List[Violation]) -> List[str]:
    lb = [f"model:{case['model']}", "polarity:" + ("high" if case["cfg"]["active_high"] else "low")]
    for f in ("row_share", "strobe_change_while_held", "overflow"):
        if facts[f]:
            lb.append(f"hist:{f}")
    for f, name in (("press_events", "press-event"), ("release_events", "release-event"),
                    ("repeat_events", "repeat-event"), ("kil_nonzero", "kil-nonzero"), ("keyi_rises", "keyi-rise"),
                    ("redundant_press", "redundant-press"), ("redundant_release", "redundant-release"),
                    ("chatter", "chatter"), ("lossy", "lossy-tick")):
        if facts[f]:
            lb.append(f"saw:{name}")
    if case["model"] == "rs":
        lb.append("rs:irq-" + ("on" if case["cfg"]["irq_enabled"] else "off"))
    for v in viols:
        lb.append(f"viol:{v.subcheck}")
    return lb


def _shard(task: Tuple[int, int, str, int, int]) -> Report:
    shard, seed, tier, nhist, max_ops = task
    rep = Report()
    cases: List[Dict[str, Any]] = []
    for j in range(nhist):
        st = Stream(seed, 0xC14, shard, j)
        long = (j % 16 == 15)
        hist = gen_history(st, max_ops * (3 if long else 1) if tier != "quick" else max_ops + (80 if long else 0))
        for model in MODELS:
            if hist["rs_only"] and model != "rs":
                continue
            cases.append({"model": model, "cfg": hist["cfg"], "ops": ops_for_model(hist["ops"], model)})
    results = run_cases(cases)
    for case, (viols, facts) in zip(cases, results):
        for v in viols:
            rep.violate(v)
        nt = facts["press_events"] > 0 and (facts["row_share"] or facts["strobe_change_while_held"] or facts["overflow"])
        sample = None
        if rep.evaluations % 97 == 5:
            sample = {"model": case["model"], "cfg": case["cfg"], "n_ops": len(case["ops"]),
                      "ops_head": case["ops"][:25], "facts": facts, "violations": [v.fingerprint for v in viols]}
        rep.case(jhash(case) if nt else None, _labels(case, facts, viols), sample)
    return rep


ASSUMPTIONS = [
    "no cross-model verdict: Python and Rust are judged separately against the history invariants",
    "thresholds, polarity, queue capacity and initial KOL/KOH are read from the object under test after configuration; "
    "Rust release threshold / repeat delay / repeat interval have no setter and are applied through "
    "snapshot_state()/load_snapshot_state() of a fresh matrix",
    "a second press of an already-held key and a release of a non-held key are physical no-ops in the history",
    "scan ticks = explicit scan/timer ticks plus the tick the Python handler performs inside a KIL read (observed by "
    "wrapping scan_tick); the tick inside a Rust KIL read is only a *possible* tick: it counts towards upper bounds "
    "(when an event may appear) but not towards lower bounds (when a bit/event must appear)",
    "events generated inside a Rust KIL read are consumed by the same call and therefore unobservable; the per-key "
    "grammar position is narrowed from tick bounds only and no cadence is asserted across such a read",
    "Rust events carry no repeat flag: a make event while a press is outstanding is judged as a repeat (cadence), "
    "or as a duplicate press when the matrix' own repeat switch is off",
    "repeat cadence is asserted only inside clean windows (key continuously held and strobed at every tick); delay/"
    "interval 0 is read as 'next tick' for the only-if direction, and no repeat is *required* when interval == 0",
    "queue: at least capacity-1 entries are retained on overflow (the Python ring buffer keeps 7 of 8)",
    "KEYI clause is checked on the Rust composition KeyboardMatrix + TimerContext with the closure CoreRuntime uses; "
    "the Python KEYI path lives in pce500/emulator.py (C12) and is not covered here",
    "injected events are taken as given (they reset the key's grammar position), only their queueing is checked",
    "non-default Rust modes (raw_kil, keyi_on_any_press, disable_fifo_mirroring, scan disabled) and Python "
    "scan_enabled=False / KSD masking / release_all_keys are not explored",
]


def run(ctx: Ctx) -> Report:
    rsclient.build()
    nshards = 16 if ctx.quick else 64
    nhist = ctx.pick(110, 420)
    max_ops = 120
    reports = ctx.pmap(_shard, [(i, ctx.seed, ctx.tier, nhist, max_ops) for i in range(nshards)])
    rep = ctx.merge_reports(reports)
    rep.rule = RULE
    rep.assumptions = list(ASSUMPTIONS)
    return rep


def replay(ctx: Ctx, case: Dict[str, Any]) -> List[Violation]:
    if case.get("model") == "rs":
        rsclient.build()
    (viols, _facts), = run_cases([{"model": case["model"], "cfg": case["cfg"], "ops": case["ops"]}])
    return viols


def shrink(ctx: Ctx, v: Violation) -> Violation:
    """Greedy removal of operations (chunks, then single ops) while the same fingerprint persists."""
    key = v.key()
    best = v

    def attempt(ops: List[List[Any]]) -> Optional[Violation]:
        c = {"model": best.case["model"], "cfg": best.case["cfg"], "ops": ops}
        try:
            (viols, _), = run_cases([c])
        except HarnessError:
            return None
        for w in viols:
            if w.key() == key:
                return w
        return None

    import time

    t_end = time.time() + 10.0  # wall clock only bounds the effort; the result is any witness of the same class
    budget = 1500
    chunk = max(1, len(best.case["ops"]) // 2)
    while chunk >= 1 and budget > 0 and time.time() < t_end:
        i = 0
        changed = False
        while i < len(best.case["ops"]) and budget > 0 and time.time() < t_end:
            ops = best.case["ops"]
            trial = ops[:i] + ops[i + chunk:]
            budget -= 1
            w = attempt(trial) if trial else None
            if w is not None and len(w.case["ops"]) < len(ops):
                best = w
                changed = True
            else:
                i += chunk
        if not changed or chunk == 1:
            chunk //= 2
    return best
