"""C06 -- the Rust LLAMA core and the Python core agree on every instruction.

Generated domain: decoder-accepted encodings (structural heads complete in thorough, stratified sample in
quick) x generated machine states on identical hash-filled memory; plus random straight-line programs run in
lockstep.  Oracle: differential Python Emulator <-> Rust LlamaExecutor on registers, flags, PC, consumed
length, low-power state and final contents of every address either core wrote.
"""

from __future__ import annotations

import re
from typing import Any, Dict, List, Optional, Tuple

from ..core import Ctx, HarnessError, Report, Violation, mix32, jhash
from .. import gen_enc as G
from .. import gen_state as S
from .. import pycore, rsclient
from .. import textparse as TP

PROPERTY = "C06"
RULE = ("decoder-accepted encodings: every (prefix|none, opcode) pair with second byte/operands from a seeded "
        "hash + boundary bytes (thorough: every structural head (pre, opcode, b2) the Python decoder accepts) x "
        "one generated state each (registers boundary-biased, pointers interior 7/8 / boundary 1/8, F random, "
        "BP/PX/PY random, memory = address hash), executed once on both cores; plus lockstep programs; plus landmark operands "
        "(every opcode, no prefix + 1 (quick) / 3 (thorough) prefixes: whole-operand values equal to the instruction's "
        "own address, its fall-through address, vectors, window bases, re-pointed at the PC drawn). "
        "Non-trivial = the instruction writes memory or a register other than PC, or changes power state (on "
        "either core); distinct = (pre, opcode, b2, state class).")

REG_FIELDS = ("BA", "I", "X", "Y", "U", "S", "PC")


def describe(code: bytes) -> Tuple[str, str]:
    """(mnemonic, abstract operand shape) from the rendered token stream."""
    r = TP.tokens(code + G.NOP_PAD)
    if r is None:
        return "?", "?"
    toks, _ = r
    return TP.mnemonic(toks), TP.shape(toks)


def where_of(pre: Optional[int], op: int, mn: str) -> str:
    """Fingerprint location: opcode + mnemonic (operand details and prefix deliberately left out so that one
    root cause is one bucket; the differing-field set and symptom discriminate further)."""
    return f"{op:02X} {mn}"


EDGE_ADDRS = frozenset((0x00000, 0xFFFFF, 0x100000, 0x1000FF))


def _fetch_window(pc: int) -> set:
    """Canonical addresses an instruction fetch at pc may read (instruction + decoder look-ahead)."""
    return {pycore.canon(pc + i) for i in range(16)}


def touches_edge(py: Dict[str, Any], rs: Dict[str, Any], pc: Optional[int] = None) -> bool:
    """True when either core accessed (read or wrote) the first or last byte of the external or the internal
    space, or emitted an address outside the canonical ranges (bits above 20 set, internal offset beyond 0xFF):
    the only situations in which an address wrap-around can take place."""
    fetch = _fetch_window(pc) if pc is not None else set()
    near_top = pc is not None and (pc & 0xFFFFF) >= 0xFFFF0
    for side in (py, rs):
        if side.get("noncanon") and not near_top:
            return True
        for a, _ in side.get("writes", []):
            if a in EDGE_ADDRS:
                return True
        for a in side.get("reads", []):
            if a in EDGE_ADDRS and a not in fetch:
                return True
    return False


def fetch_at_top(case: Dict[str, Any]) -> bool:
    return (case["regs"]["PC"] & 0xFFFFF) >= 0xFFFF0


def _accessed(side: Dict[str, Any]) -> set:
    acc = set(side.get("reads", []))
    acc.update(a for a, _ in side.get("writes", []))
    return acc


def window_alias(py: Dict[str, Any], rs: Dict[str, Any]) -> bool:
    """True when one core accessed external address a (< 0x100) while the other accessed internal address
    0x100000 + a instead: bits 20-23 of an absolute address / pointer selected the internal window on one core
    only (Python masks 20-bit immediates and pointers, Rust passes 24 bits to the bus)."""
    ap, ar = _accessed(py), _accessed(rs)
    for a in range(0x100):
        i = 0x100000 + a
        # (the internal cell may be accessed by both cores for another reason, e.g. BP/PX/PY read for addressing;
        #  what identifies the alias is the external cell that only one core touched)
        if (a in ap and a not in ar and i in ar) or (a in ar and a not in ap and i in ap):
            return True
    return False


# Round 5: report a low-power-state difference as a verdict of its own instead of filing it under @edge/@alias.
# DISABLED: with True the unchanged tree fires `power / FF RESET / power:py=halted,rs=running` (RESET executed by a
# core that starts halted; genuine, so far swallowed by C06-edge-class) -- waiting for the lead's decision on that
# finding.  With True seeded/C06/r1 is caught (power / DE HALT, DF OFF); with False HALT/OFF divergences stay @edge.
POWER_OWN_VERDICT = True


def compare_step(case: Dict[str, Any], py: Dict[str, Any], rs: Dict[str, Any], init: pycore.HashMemory,
                 where: str, regs0: Optional[Dict[str, int]] = None) -> List[Violation]:
    """Field-level differential of one executed step."""
    out: List[Violation] = []
    if "err" in py:
        return out  # Python-side exception on a valid encoding is C01/C04's subject, not a C06 verdict
    if "err" in rs:
        if (py.get("pc", 0) & 0xFFFFF) >= 0xFFFF0:
            where = where + " @fetch-top"
        out.append(Violation("rust-error", where, f"rust error: {rs['err'][:60]}", case,
                             f"python ok len={py.get('len')}; rust: {rs['err']}"))
        return out
    regs0 = regs0 if regs0 is not None else case["regs"]
    diffs: List[str] = []
    details: List[str] = []
    if py.get("len") != rs.get("len"):
        diffs.append(f"len:py={py.get('len')},rs={rs.get('len')}")
        details.append(f"len py={py.get('len')} rs={rs.get('len')}")
    for r in REG_FIELDS:
        a, b = py["regs"][r], rs["regs"][r]
        if a != b:
            before = regs0.get(r, 0)
            if r == "PC" and abs(a - b) < 16:
                cls = f"rs-py={b - a:+d}"
            else:
                cls = ("py-unchanged" if a == before else "py-changed") + "/" + \
                      ("rs-unchanged" if b == before else "rs-changed")
            diffs.append(f"{r}:{cls}")
            details.append(f"{r} py={a:#x} rs={b:#x} (before {before:#x})")
    fa, fb = py["regs"]["F"], rs["regs"]["F"]
    if (fa ^ fb) & 1:
        diffs.append(f"FC:py={fa & 1},rs={fb & 1}")
    if (fa ^ fb) & 2:
        diffs.append(f"FZ:py={(fa >> 1) & 1},rs={(fb >> 1) & 1}")
    if (fa ^ fb) & 0xFC:
        diffs.append("F-high-bits")
    if (fa ^ fb):
        details.append(f"F py={fa:#04x} rs={fb:#04x} (before {regs0.get('F', 0):#04x})")
    pa = py["power"] != "running"
    pb = rs["power"] != "running"
    if pa != pb:
        diffs.append(f"power:py={py['power']},rs={rs['power']}")
        details.append(f"power py={py['power']} rs={rs['power']}")
    wa = pycore.final_writes([py])
    wb = pycore.final_writes([rs])
    memdiff = []
    for addr in sorted(set(wa) | set(wb)):
        va = wa.get(addr, init.peek(addr))
        vb = wb.get(addr, init.peek(addr))
        if va != vb:
            memdiff.append((addr, va, vb, addr in wa, addr in wb))
    if memdiff:
        only_py = sum(1 for m in memdiff if m[3] and not m[4])
        only_rs = sum(1 for m in memdiff if m[4] and not m[3])
        both = sum(1 for m in memdiff if m[3] and m[4])
        kind = []
        if both:
            kind.append("value-differs")
        if only_py:
            kind.append("only-py-wrote")
        if only_rs:
            kind.append("only-rs-wrote")
        space = "imem" if all(m[0] >= 0x100000 for m in memdiff) else ("emem" if all(m[0] < 0x100000 for m in memdiff) else "mixed")
        diffs.append(f"mem[{space}]:" + "+".join(kind))
        details.append("mem " + ", ".join(f"{a:#x}: py={x:#04x} rs={y:#04x}" for a, x, y, _, _ in memdiff[:6]))
    near_top = (py.get("pc", 0) & 0xFFFFF) >= 0xFFFF0
    pw = [d for d in diffs if d.startswith("power:")]
    if POWER_OWN_VERDICT and pw and not near_top:
        # The low-power state is not an address phenomenon: a data access at the first/last byte of a space (HALT and
        # OFF always write SSR = 0x1000FF) or a window alias cannot explain it, so it is reported on its own and never
        # filed under the @edge / @alias classes (only a fetch at the top of memory can make the cores decode
        # different instructions, see @fetch-top).
        out.append(Violation("power", where, "; ".join(pw), case,
                             "; ".join(d for d in details if d.startswith("power "))))
        diffs = [d for d in diffs if not d.startswith("power:")]
        details = [d for d in details if not d.startswith("power ")]
    if diffs:
        sub = ",".join(sorted(d.split(":")[0] for d in diffs))
        if touches_edge(py, rs, py.get("pc")):
            where = where + " @edge"
        elif (py.get("pc", 0) & 0xFFFFF) >= 0xFFFF0:
            where = where + " @fetch-top"
        elif window_alias(py, rs):
            where = where + " @alias"
        out.append(Violation(sub, where, "; ".join(diffs), case, "; ".join(details)))
    return out


def nontrivial(case: Dict[str, Any], py: Dict[str, Any], rs: Dict[str, Any]) -> bool:
    for side in (py, rs):
        if "regs" not in side:
            continue
        if side.get("writes"):
            return True
        if side.get("power") != "running":
            return True
        for r in ("BA", "I", "X", "Y", "U", "S", "F"):
            if side["regs"][r] != (case["regs"].get(r, 0) & (0xFFFFF if r in "XYUS" else 0xFFFF if r in ("BA", "I") else 0xFF)):
                return True
    return False


def eval_cases(cases: List[Tuple[Dict[str, Any], str, Any, List[str]]], rep: Report) -> None:
    """cases: (case, where, ntkey, labels). Runs both cores and records verdicts."""
    rust = rsclient.shared()
    B = 256
    for i in range(0, len(cases), B):
        chunk = cases[i:i + B]
        rs_results = rust.cpu_batch([dict(c[0], want_reads=True) for c in chunk])
        for (case, where, ntkey, labels), rs in zip(chunk, rs_results):
            py = pycore.run_case(case, want_reads=True)
            ps = py["steps"][0] if py["steps"] else {"err": "no step"}
            rss = rs["steps"][0] if rs.get("steps") else {"err": rs.get("error") or rs.get("panic") or "no step"}
            init = pycore.HashMemory(case["seed"], {pycore.canon(a): v for a, v in case["mem"]})
            vs = compare_step(case, ps, rss, init, where)
            for v in vs:
                rep.violate(v)
            lab = list(labels)
            if "err" in ps:
                lab.append("python-exception")
            nt = nontrivial(case, ps, rss)
            sample = None
            if rep.evaluations % 4001 == 17:
                sample = {"code": S.code_of(case, 6).hex(), "where": where, "regs": case["regs"],
                          "py": {k: ps.get(k) for k in ("len", "regs", "power", "writes", "err")},
                          "rs_equal": not vs}
            rep.case(ntkey if nt else None, lab, sample)


def _maybe_pc_top(st: S.Stream, case: Dict[str, Any], labels: List[str]) -> None:
    """One case in thirty-two places the instruction so that its bytes reach or cross the top of the external
    space (PC in 0xFFFF8..0xFFFFF): instruction fetch across the end of memory."""
    if not st.chance(1, 32):
        return
    old_pc = case["regs"]["PC"]
    new_pc = 0xFFFF8 + st.below(8)
    moved = []
    for a, v in case["mem"]:
        if old_pc <= a < old_pc + 16:
            moved.append([new_pc + (a - old_pc), v])   # may exceed 0xFFFFF: both buses canonicalise
        else:
            moved.append([a, v])
    case["mem"] = moved
    case["regs"]["PC"] = new_pc
    labels.append("pc:top-of-memory")


def _maybe_low_power(st: S.Stream, case: Dict[str, Any], labels: List[str]) -> None:
    """One case in sixteen starts in the low-power state ("every architectural state"): the instruction is
    executed by both cores' single-instruction entry points with the halted flag already set."""
    if st.chance(1, 16):
        case["power"] = "halted"
        case["stop_on_halt"] = False
        labels.append("power0:halted")


def _shard(task: Tuple[int, int, int, str]) -> Report:
    shard, nshards, seed, tier = task
    rep = Report()
    cases: List[Tuple[Dict[str, Any], str, Any, List[str]]] = []
    if tier == "quick":
        per = 3600
        encs, filtered = G.sample_valid_encodings(mix32(seed, shard), per)
        rep.filtered += filtered
        for j, (pre, code) in enumerate(encs):
            mn, shape = describe(code)
            st = S.Stream(seed, shard, j)
            case, labels = S.gen_state(st, code, mn, imax=12)
            _maybe_low_power(st, case, labels)
            _maybe_pc_top(st, case, labels)
            op = code[1] if pre is not None else code[0]
            where = where_of(pre, op, mn)
            b2 = code[2] if pre is not None and len(code) > 2 else (code[1] if pre is None and len(code) > 1 else 0)
            cases.append((case, where, f"{pre}:{op:02X}:{b2:02X}:{labels[-1]}", labels + [f"pre:{'yes' if pre else 'no'}"]))
    else:
        idx = 0
        for pre in G.PRES:
            for op in range(256):
                if G.is_pre(op):
                    continue
                for b2 in range(256):
                    idx += 1
                    if idx % nshards != shard:
                        continue
                    tail = G.hash_tail(seed, pre, op, b2, 5)
                    data = G.head_bytes(pre, op, b2) + tail
                    ln = G.info_len(data + G.NOP_PAD)
                    if ln is None:
                        rep.filtered += 1
                        continue
                    code = data[:ln]
                    mn, shape = describe(code)
                    st = S.Stream(seed, idx)
                    case, labels = S.gen_state(st, code, mn, imax=12)
                    _maybe_low_power(st, case, labels)
                    _maybe_pc_top(st, case, labels)
                    where = where_of(pre, op, mn)
                    cases.append((case, where, f"{pre}:{op:02X}:{b2:02X}:{labels[-1]}", labels + [f"pre:{'yes' if pre else 'no'}"]))
                    if len(cases) >= 2048:
                        eval_cases(cases, rep)
                        cases = []
    eval_cases(cases, rep)
    return rep


def _landmark_shard(task: Tuple[int, int, int, str]) -> Report:
    """Whole-operand landmark values (gen_enc.landmark_values): operands equal to the instruction's own address, its
    fall-through address, vectors, window bases ... for every opcode, without prefix and with one (quick) / three
    (thorough) seed-chosen prefixes.  The state is generated first; the operand is then rewritten for the PC drawn."""
    shard, nshards, seed, tier = task
    rep = Report()
    cases: List[Tuple[Dict[str, Any], str, Any, List[str]]] = []
    npre = 1 if tier == "quick" else 3
    for op in range(256):
        if op % nshards != shard or G.is_pre(op):
            continue
        pres = [None] + [G.PRE_OPCODES[mix32(seed, op, j, 0x1B) % len(G.PRE_OPCODES)] for j in range(npre)]
        for pi, pre in enumerate(pres):
            probe = G.landmark_buffers(pre, op, 0x1000, seed)
            for k, (tag, buf0) in enumerate(probe):
                keep = tag.startswith("self") or (mix32(seed, op, k, pi) % 4 == 0) or tier != "quick"
                if not keep:
                    continue
                ln = G.info_len(buf0 + G.NOP_PAD)
                if ln is None:
                    rep.filtered += 1
                    continue
                mn, _shape = describe(buf0[:ln])
                st = S.Stream(seed, 0x1A4D, op, pi, k)
                case, labels = S.gen_state(st, buf0[:ln], mn, imax=12)
                pc = case["regs"]["PC"]
                buf = dict(G.landmark_buffers(pre, op, pc, seed)).get(tag)
                # re-point the operand at the PC actually drawn (same length required, otherwise the case is dropped)
                if buf is None or G.info_len(buf + G.NOP_PAD, pc) != ln or pc + ln > 0xFFFFF:
                    rep.filtered += 1
                    continue
                code = buf[:ln]
                newmem = []
                for a, v in case["mem"]:
                    off = a - pc
                    newmem.append([a, code[off]] if 0 <= off < ln else [a, v])
                case["mem"] = newmem
                where = where_of(pre, op, mn)
                cases.append((case, where, f"lm:{pre}:{op:02X}:{tag}", labels + ["landmark:" + tag.split("@")[0].split(":")[0]]))
    eval_cases(cases, rep)
    return rep


CONTROL_FLOW = set(range(0x01, 0x08)) | set(range(0x10, 0x20)) | {0xFE, 0xFF, 0xDE, 0xDF}


def _known_divergent_opcodes() -> set:
    """Opcodes named by open C06 known findings (their `where` starts with the opcode in hex): lockstep
    programs are built from the remaining opcodes so that a run is not ended at once by a listed finding."""
    import re as _re
    from .. import findings as F

    ops = set()
    for e in F.load_findings(PROPERTY):
        if not F.is_open(e):
            continue
        for m in _re.finditer(r"\b([0-9A-F]{2}) [A-Z?]", str(e.get("match", {}).get("where", ""))):
            ops.add(int(m.group(1), 16))
        for o in e.get("opcodes", []):
            ops.add(int(o, 16) if isinstance(o, str) else int(o))
    return ops


def lockstep(case: Dict[str, Any]) -> Tuple[List[Violation], int]:
    """Run case["steps"] instructions on both cores from the same state and compare after every step; stops at
    the first divergence (afterwards the states differ). Returns (violations, number of agreeing steps)."""
    rust = rsclient.shared()
    rs = rust.cpu_batch([dict(case, want_reads=True)])[0]
    py = pycore.run_case(case, want_reads=True)
    return lockstep_compare(case, py, rs)


def lockstep_compare(case: Dict[str, Any], py: Dict[str, Any], rs: Dict[str, Any],
                     note: str = "") -> Tuple[List[Violation], int]:
    """Step-by-step differential of two recorded runs of the same case (see lockstep())."""
    init = pycore.HashMemory(case["seed"], {pycore.canon(a): v for a, v in case["mem"]})
    regs_prev = dict(case["regs"])
    steps_ok = 0
    for k, ps in enumerate(py["steps"]):
        if k >= len(rs.get("steps", [])):
            break
        rss = rs["steps"][k]
        if "err" in ps:
            break
        code_k = bytes(init.peek(ps["pc"] + j) for j in range(8))
        ln = G.info_len(code_k + G.NOP_PAD)
        mn, _ = describe(code_k[:ln] if ln else code_k)
        pre = code_k[0] if code_k[0] in G.PRE_OPCODES else None
        op = code_k[1] if pre is not None else code_k[0]
        sub_case = dict(case)
        sub_case["steps"] = k + 1
        vs = compare_step(sub_case, ps, rss, init, where_of(pre, op, mn), regs_prev)
        if vs:
            for v in vs:
                v.detail = f"{note}lockstep step {k}: " + v.detail
            return vs, steps_ok
        for a, val in ps.get("writes", []):
            init.over[a] = val
        regs_prev = dict(ps["regs"])
        steps_ok += 1
    return [], steps_ok


def _record_program(rep: Report, case: Dict[str, Any], kind: str, sample: bool) -> Tuple[List[Violation], int]:
    vs, steps_ok = lockstep(case)
    for v in vs:
        rep.violate(v)
    rep.labels[f"{kind}_steps_ok:{min(steps_ok // 10 * 10, 40)}+"] += 1
    rep.extra["lockstep_steps"] = rep.extra.get("lockstep_steps", 0) + steps_ok
    code = S.code_of(case, 24)
    rep.case(f"prog:{jhash([case['regs']['PC'], code.hex(), case['seed']])}" if steps_ok >= 3 else None,
             [f"kind:{kind}", f"{kind}:diverged" if vs else f"{kind}:agreed"],
             {"kind": kind, "pc": case["regs"]["PC"], "code_at_pc": code.hex(), "steps_compared": steps_ok} if sample else None)
    return vs, steps_ok


def _program_shard(task: Tuple[int, int, str, int]) -> Report:
    shard, seed, tier, nprog = task
    rep = Report()
    excluded = _known_divergent_opcodes() | CONTROL_FLOW
    ops = [o for o in range(256) if not G.is_pre(o) and o not in excluded]
    rep.extra["lockstep_opcodes_excluded"] = len(excluded) if shard == 0 else 0
    for pi in range(nprog):
        st = S.Stream(seed, 0x10C, shard, pi)
        n = 5 + st.below(36)
        encs = []
        for _ in range(n):
            pre_j = G.PRES[st.below(len(G.PRES))] if st.chance(1, 3) else None
            e1, filtered = G.sample_valid_encodings(st.u32(), 1, pres=[pre_j], opcodes=[ops[st.below(len(ops))]])
            rep.filtered += filtered
            encs += e1
        code = b"".join(c for _, c in encs)
        case, labels = S.gen_state(st, code, "", imax=6, pad=bytes(16))
        case["regs"]["I"] = 1 + st.below(6)  # counted instructions inside programs stay short
        case["steps"] = len(encs)
        _record_program(rep, case, "lockstep", pi % 97 == 0)
    # control-flow skeletons: calls, far jumps and returns across 64 KiB pages
    for pi in range(nprog):
        st = S.Stream(seed, 0xCF10, shard, pi)
        case = skeleton_program(st)
        _record_program(rep, case, "skeleton", pi % 53 == 0)
        case = selfmod_program(S.Stream(seed, 0x5E1F, shard, pi))
        _record_program(rep, case, "selfmod", pi % 59 == 0)
    # flag-context programs (round 5): alone (even index) or as members of a pool of 2-4 live cores whose single
    # steps are interleaved (odd index)
    fops = flag_opcodes(ops)
    pend: List[Dict[str, Any]] = []
    want = 2
    for pi in range(nprog):
        st = S.Stream(seed, 0xFC7, shard, pi)
        case, stats = fctx_program(st, fops)
        rep.labels["fctx:whole-F-writes>=2" if stats["whole_writes"] >= 2 else "fctx:whole-F-writes<2"] += 1
        if stats["same_byte"]:
            rep.labels["fctx:restores-same-byte"] += 1
        if stats["ir"]:
            rep.labels["fctx:has-IR..RETI"] += 1
        rep.extra["fctx_whole_F_writes"] = rep.extra.get("fctx_whole_F_writes", 0) + stats["whole_writes"]
        rep.extra["fctx_flag_instrs"] = rep.extra.get("fctx_flag_instrs", 0) + stats["flag_instrs"]
        if pi % 2 == 0:
            vs, ok = _record_program(rep, case, "fctx", pi % 31 == 0)
            rep.labels["fctx:ran-to-end" if ok == case["steps"] else "fctx:cut-short"] += 1
        else:
            if not pend:
                want = 2 + st.below(3)
            pend.append(case)
            if len(pend) == want or pi >= nprog - 2:
                keys = [jhash([c["regs"]["PC"], c["seed"], c["steps"]]) for c in pend]
                _record_pool(rep, pend, pool_schedule(st, pend), "fctx-pool", keys, pi % 29 == 0)
                pend = []
    return rep


# Hand-encoded control-flow templates (checked against the repository's decoder in _check_templates()).
def _t_call(t: int) -> bytes: return bytes([0x04, t & 0xFF, (t >> 8) & 0xFF])
def _t_callf(t: int) -> bytes: return bytes([0x05, t & 0xFF, (t >> 8) & 0xFF, (t >> 16) & 0x0F])
def _t_jp(t: int) -> bytes: return bytes([0x02, t & 0xFF, (t >> 8) & 0xFF])
def _t_jpf(t: int) -> bytes: return bytes([0x03, t & 0xFF, (t >> 8) & 0xFF, (t >> 16) & 0x0F])
_T_RET, _T_RETF, _T_NOP = bytes([0x06]), bytes([0x07]), bytes([0x00])
FILLERS = (bytes([0x08, 0x5A]), bytes([0x40, 0x01]), bytes([0x0A, 0x34, 0x12]), bytes([0x00]),
           bytes([0x6C, 0x04]), bytes([0x64, 0x0F]), bytes([0x0C, 0x78, 0x56, 0x03]))  # MV A,n / ADD A,n / MV BA,mn / NOP / INC X / TEST A,n / MV X,lmn
_templates_checked = False


def _check_templates() -> None:
    global _templates_checked
    if _templates_checked:
        return
    want = [(_t_call(0x1234), "CALL"), (_t_callf(0x12345), "CALLF"), (_t_jp(0x1234), "JP"), (_t_jpf(0x12345), "JPF"),
            (_T_RET, "RET"), (_T_RETF, "RETF"), (_T_NOP, "NOP"), (bytes([0xA8, 0x34, 0x12, 0x05]), "MV"), (bytes([0x97]), "SC"), (FILLERS[0], "MV"), (FILLERS[1], "ADD"),
            (FILLERS[2], "MV"), (FILLERS[4], "INC"), (FILLERS[5], "TEST"), (FILLERS[6], "MV")]
    for code, mn in want:
        r = TP.tokens(code + G.NOP_PAD)
        if r is None or TP.mnemonic(r[0]) != mn or r[1] != len(code):
            raise HarnessError(f"control-flow template {code.hex()} does not decode as {mn}: {r}")
    _templates_checked = True


def selfmod_program(st: S.Stream) -> Dict[str, Any]:
    """A program that stores into the bytes of an instruction it is about to execute (operand or opcode byte of the
    next or the second-next instruction).  Both cores must execute the bytes that are in memory when the instruction
    is reached."""
    _check_templates()
    base = (0x10000 * (1 + st.below(13))) | (0x0200 + (st.below(0xF000) & 0xFFF0))
    v = 1 + st.below(254)
    mem: List[List[int]] = []

    def place(addr: int, data: bytes) -> int:
        for b in data:
            mem.append([addr & 0xFFFFF, b])
            addr += 1
        return addr

    gap = st.below(3)                      # 0: next instruction, 1..2: a later one
    victim = base + 2 + 4 + gap            # address of the victim instruction (after MV A,v ; MV [lmn],A ; gap NOPs)
    kind = st.below(3)
    if kind == 0:                          # patch the immediate of `MV A,00`
        target, victim_code, v_store = victim + 1, bytes([0x08, 0x00]), v
    elif kind == 1:                        # patch the opcode: `MV A,33` (08 33) becomes `ADD A,33` (40 33)
        target, victim_code, v_store = victim, bytes([0x08, 0x33]), 0x40
    else:                                  # patch the opcode of a NOP into INC-less 1-byte form: NOP (00) -> SC (97)? keep length 1
        target, victim_code, v_store = victim, bytes([0x00]), 0x00 if st.chance(1, 4) else 0x97
    a = place(base, bytes([0x08, v_store]))
    a = place(a, bytes([0xA8, target & 0xFF, (target >> 8) & 0xFF, (target >> 16) & 0x0F]))
    a = place(a, _T_NOP * gap)
    a = place(a, victim_code)
    place(a, _T_NOP * 6)
    steps = 2 + gap + 1 + 1
    regs = {"BA": st.word(), "I": st.word(), "X": st.pointer(False)[0], "Y": st.pointer(False)[0],
            "U": st.pointer(False)[0], "S": 0xE0000 + st.below(0x8000) * 2, "F": st.u32() & 0xFF, "PC": base}
    return {"regs": regs, "power": "running", "seed": st.u32(), "mem": mem, "steps": steps}


def skeleton_program(st: S.Stream) -> Dict[str, Any]:
    """main (page A): fillers, CALL/CALLF sub, fillers.  sub: fillers, then either RET/RETF directly or a far/near
    jump to a tail block in another (or the same) page which returns.  The path length is known, so exactly the
    planned number of steps is compared."""
    _check_templates()
    pages = [0x10000 * (1 + st.below(13)) for _ in range(3)]
    if st.chance(1, 3):
        pages[1] = pages[0]
    if st.chance(1, 3):
        pages[2] = pages[0]
    offs = [0x0200 + st.below(0xF000) & 0xFFF0 for _ in range(3)]
    # keep blocks apart when they share a page
    offs[1] = (offs[0] + 0x0400 + st.below(0x3000)) & 0xFFF0 if pages[1] == pages[0] else offs[1]
    offs[2] = (offs[1] + 0x0400 + st.below(0x3000)) & 0xFFF0 if pages[2] in (pages[0], pages[1]) else offs[2]
    main, sub, tail = (pages[0] | offs[0]) & 0xFFFFF, (pages[1] | offs[1]) & 0xFFFFF, (pages[2] | offs[2]) & 0xFFFFF
    far_call = st.chance(1, 2) or (pages[1] != pages[0])

    def fill(n: int) -> List[bytes]:
        return [FILLERS[st.below(len(FILLERS))] for _ in range(n)]

    mem: List[List[int]] = []
    steps = 0

    def place(addr: int, chunks: List[bytes]) -> int:
        for c in chunks:
            for b in c:
                mem.append([addr & 0xFFFFF, b])
                addr += 1
        return addr

    pre_main = fill(st.below(3))
    call = _t_callf(sub) if far_call else _t_call(sub)
    post_main = fill(1 + st.below(3))
    place(main, pre_main + [call] + post_main + [_T_NOP] * 4)
    sub_body = fill(st.below(3))
    ret = _T_RETF if far_call else _T_RET
    shape = st.below(3)
    if shape == 0:
        place(sub, sub_body + [ret] + [_T_NOP] * 2)
        steps = len(pre_main) + 1 + len(sub_body) + 1 + len(post_main)
    else:
        jump = _t_jpf(tail) if (shape == 1 or (tail & 0xF0000) != (sub & 0xF0000)) else _t_jp(tail)
        tail_body = fill(st.below(3))
        place(sub, sub_body + [jump] + [_T_NOP] * 2)
        place(tail, tail_body + [ret] + [_T_NOP] * 2)
        # after a near RET in another page execution continues in that page (not at main): stop after the RET
        back_at_main = far_call or (tail & 0xF0000) == (main & 0xF0000)
        steps = len(pre_main) + 1 + len(sub_body) + 1 + len(tail_body) + 1 + (len(post_main) if back_at_main else 0)
    regs = {"BA": st.word(), "I": st.word(), "X": st.pointer(False)[0], "Y": st.pointer(False)[0],
            "U": st.pointer(False)[0], "S": 0xE0000 + st.below(0x8000) * 2, "F": st.u32() & 0xFF, "PC": main}
    return {"regs": regs, "power": "running", "seed": st.u32(), "mem": mem, "steps": steps}


# ---------------------------------------------------------------------------------------------------------------
# Round 5 (a): pools of live cores.  Everywhere above one Python Emulator is constructed and stepped at once, so at
# any moment exactly one core exists that has not finished.  Here K cores are constructed first (one per member
# case, each on its own memory) and stepped afterwards in a generated schedule (single steps of different members
# interleaved); every member is compared with an independent Rust run of the same case exactly as above.
def run_pool_python(members: List[Dict[str, Any]], schedule: List[int]) -> List[Dict[str, Any]]:
    emus = [pycore.make_emulator(c, log_reads=True) for c in members]      # all constructed before any step
    steps: List[List[Dict[str, Any]]] = [[] for _ in members]
    done = [False] * len(members)
    pre_halted = [False] * len(members)
    for i in schedule:
        if done[i]:
            continue
        emu, mem = emus[i]
        c = members[i]
        if len(steps[i]) >= int(c.get("steps", 1)):
            done[i] = True
            continue
        if emu.state.halted and c.get("stop_on_halt", True):
            if not steps[i] and c.get("power", "running") == "running":
                pre_halted[i] = True
            done[i] = True
            continue
        sres = pycore.step(emu, mem, False, True)
        steps[i].append(sres)
        if "err" in sres:
            done[i] = True
    return [{"ok": True, "steps": st, "pre_halted": ph} for st, ph in zip(steps, pre_halted)]


def pool_schedule(st: S.Stream, members: List[Dict[str, Any]]) -> List[int]:
    """Every member gets exactly its number of steps; the order of single steps across members is generated."""
    todo = [i for i, c in enumerate(members) for _ in range(int(c.get("steps", 1)))]
    for k in range(len(todo) - 1, 0, -1):
        j = st.below(k + 1)
        todo[k], todo[j] = todo[j], todo[k]
    return todo


def eval_pool(members: List[Dict[str, Any]], schedule: List[int],
              only: Optional[int] = None) -> List[Tuple[List[Violation], int, Dict[str, Any], Dict[str, Any]]]:
    """Returns per member (violations, agreeing steps, python result, rust result)."""
    rust = rsclient.shared()
    rs_all = rust.cpu_batch([dict(c, want_reads=True) for c in members])
    py_all = run_pool_python(members, schedule)
    out = []
    for i, (c, py, rs) in enumerate(zip(members, py_all, rs_all)):
        if only is not None and i != only:
            out.append(([], 0, py, rs))
            continue
        first = schedule.index(i) if i in schedule else -1
        note = (f"pool member {i} of {len(members)} (constructed before {len(members) - 1 - i} other live cores, "
                f"first stepped at schedule position {first}): ")
        case = dict(c)
        case["pool"] = {"members": members, "schedule": schedule, "index": i}
        if not rs.get("steps"):
            rs = dict(rs, steps=[{"err": rs.get("error") or rs.get("panic") or "no step"}])
        if py.get("pre_halted") and "err" not in rs["steps"][0]:
            code = S.code_of(c, 8)
            ln = G.info_len(code + G.NOP_PAD)
            mn, _ = describe(code[:ln] if ln else code)
            pre = code[0] if code[0] in G.PRE_OPCODES else None
            op = code[1] if pre is not None else code[0]
            vs = [Violation("power", where_of(pre, op, mn), "power:py=halted-before-first-step,rs=running", case,
                            note + "the Python core was in the low-power state before executing anything although "
                                   "the case starts it running")]
            out.append((vs, 0, py, rs))
            continue
        vs, ok = lockstep_compare(case, py, rs, note)
        out.append((vs, ok, py, rs))
    return out


def _record_pool(rep: Report, members: List[Dict[str, Any]], schedule: List[int], kind: str,
                 keys: List[Any], sample: bool) -> None:
    res = eval_pool(members, schedule)
    rep.labels[f"{kind}:pools"] += 1
    rep.labels[f"{kind}:size={len(members)}"] += 1
    for i, ((vs, ok, py, rs), c) in enumerate(zip(res, members)):
        for v in vs:
            rep.violate(v)
        ps = py["steps"][0] if py["steps"] else {"err": "no step"}
        rss = rs["steps"][0] if rs.get("steps") else {"err": "no step"}
        nt = ok >= 3 if int(c.get("steps", 1)) > 1 else nontrivial(c, ps, rss)
        lab = [f"kind:{kind}", f"{kind}:diverged" if vs else f"{kind}:agreed",
               f"{kind}:member-" + ("newest" if i == len(members) - 1 else "older")]
        if "err" in ps:
            lab.append("python-exception")
        rep.case(f"{kind}:{keys[i]}" if nt else None, lab,
                 {"kind": kind, "pool_size": len(members), "schedule": schedule, "member": i,
                  "code": S.code_of(c, 6).hex(), "steps_compared": ok} if sample and i == 0 else None)


def _pool_shard(task: Tuple[int, int, int, str]) -> Report:
    """Single-instruction pools: for every opcode one (quick) / four (thorough) pools of 2-5 members in which that
    opcode is executed by a member that is NOT the most recently constructed core; the other members are drawn
    from all opcodes.  States as in the single-step class (incl. 1/16 starting halted)."""
    shard, nshards, seed, tier = task
    rep = Report()
    all_ops = [o for o in range(256) if not G.is_pre(o)]
    rounds = 1 if tier == "quick" else 4
    for op in all_ops:
        if op % nshards != shard:
            continue
        for rnd in range(rounds):
            st = S.Stream(seed, 0x9001, op, rnd)
            k = 2 + st.below(4)
            target = st.below(k - 1)
            members, keys = [], []
            for j in range(k):
                pre_j = G.PRE_OPCODES[st.below(len(G.PRE_OPCODES))] if st.chance(1, 3) else None
                op_j = op if j == target else all_ops[st.below(len(all_ops))]
                e1, filtered = G.sample_valid_encodings(st.u32(), 1, pres=[pre_j], opcodes=[op_j])
                rep.filtered += filtered
                if not e1:
                    continue
                code = e1[0][1]
                mn, _shape = describe(code)
                case, labels = S.gen_state(st, code, mn, imax=12)
                _maybe_low_power(st, case, labels)
                members.append(case)
                keys.append(f"{pre_j}:{op_j:02X}:{jhash([code.hex(), case['seed']])}")
            if len(members) < 2:
                continue
            _record_pool(rep, members, pool_schedule(st, members), "pool", keys, (op + rnd) % 41 == 0)
    return rep


# ---------------------------------------------------------------------------------------------------------------
# Round 5 (b): flag-context programs.  The straight-line programs above leave out every opcode named by an open
# finding, among them all instructions that read or write F as a whole (PUSHU/PUSHS F, POPU/POPS F, RETI, IR), and
# the single-step class executes them only on a freshly initialised state.  These programs interleave whole-F
# writes and reads with flag-changing instructions on ONE state, inside the domain on which the cores are stated
# (and found) to agree for those opcodes: F bits 2-7 are zero initially and in every byte that is popped into F
# (the open F-byte findings are about bits 2-7 only; they still apply unchanged if such a byte turns up).
_OP_PUSHU_F, _OP_POPU_F, _OP_PUSHS_F, _OP_POPS_F, _OP_RETI, _OP_IR = 0x2E, 0x3E, 0x4F, 0x5F, 0x01, 0xFE
FLAG_MNEMONICS = frozenset(("ADD", "SUB", "ADC", "SBC", "CMP", "AND", "OR", "XOR", "TEST", "INC", "DEC", "SC", "RC",
                            "ROR", "ROL", "SHR", "SHL", "SWAP", "CMPW", "CMPP"))
IR_VECTOR = 0xFFFFA
_fctx_checked = False
_flag_ops_cache: Dict[Tuple[int, ...], List[int]] = {}


def _check_fctx_templates() -> None:
    global _fctx_checked
    if _fctx_checked:
        return
    for op, mn, operand in ((_OP_PUSHU_F, "PUSHU", "F"), (_OP_POPU_F, "POPU", "F"), (_OP_PUSHS_F, "PUSHS", "F"),
                            (_OP_POPS_F, "POPS", "F"), (_OP_RETI, "RETI", ""), (_OP_IR, "IR", "")):
        r = TP.tokens(bytes([op]) + G.NOP_PAD)
        if r is None or TP.mnemonic(r[0]) != mn or r[1] != 1 or (operand and ("Reg", operand) not in r[0]):
            raise HarnessError(f"flag-context template {op:02X} does not decode as {mn} {operand}: {r}")
    _fctx_checked = True


def flag_opcodes(allowed: List[int]) -> List[int]:
    """Opcodes of `allowed` whose mnemonic is an arithmetic/logic/compare/shift/flag instruction."""
    key = tuple(allowed)
    if key not in _flag_ops_cache:
        out = []
        for op in allowed:
            vb = G.valid_b2(op)
            code = bytes([op, vb[0] if vb else 0, 0, 0, 0, 0])
            mn, _ = describe(code)
            if mn in FLAG_MNEMONICS:
                out.append(op)
        _flag_ops_cache[key] = out
    return _flag_ops_cache[key]


def _flag_filler(st: S.Stream, fops: List[int]) -> Optional[bytes]:
    """One generated flag-changing instruction that does not name U or S (their values are tracked statically)."""
    for _ in range(6):
        pre_j = G.PRE_OPCODES[st.below(len(G.PRE_OPCODES))] if st.chance(1, 4) else None
        e1, _f = G.sample_valid_encodings(st.u32(), 1, pres=[pre_j], opcodes=[fops[st.below(len(fops))]])
        if not e1:
            continue
        code = e1[0][1]
        r = TP.tokens(code + G.NOP_PAD)
        if r is None or any(k == "Reg" and t in ("U", "S") for k, t in r[0]):
            continue
        return code
    return None


def fctx_program(st: S.Stream, fops: List[int]) -> Tuple[Dict[str, Any], Dict[str, int]]:
    """6-24 instructions: whole-F writers (POPU F, POPS F, RETI with a prepared frame, IR .. RETI through the
    interrupt vector), whole-F readers (PUSHU F, PUSHS F) and generated flag-changing instructions in between.
    Popped bytes are drawn from 0..3, half of the time equal to the byte of the previous whole-F write
    (restore-the-same-value, the PUSH F .. POP F / IR .. RETI idiom)."""
    _check_templates()
    _check_fctx_templates()
    page = 0x10000 * (1 + st.below(12))
    main = page | (0x0200 + (st.below(0xE000) & 0xFFF0))
    handler = (0x10000 * (1 + st.below(12))) | (0x0200 + (st.below(0xE000) & 0xFFF0))
    if abs(handler - main) < 0x400:
        handler = (handler + 0x1000) & 0xFFFFF
    u = 0xD0000 + 0x100 + st.below(0x7000) * 2
    s_ = 0xE0000 + 0x100 + st.below(0x7000) * 2
    f0 = st.below(4)
    regs = {"BA": st.word(), "I": st.word(), "X": st.pointer(False)[0], "Y": st.pointer(False)[0],
            "U": u, "S": s_, "F": f0, "PC": main}
    mem: Dict[int, int] = {}
    stats = {"whole_writes": 0, "same_byte": 0, "flag_instrs": 0, "reads": 0, "ir": 0}
    last_whole: Optional[int] = f0
    cursor = main
    ret_to: Optional[int] = None
    steps = 0

    def emit(code: bytes) -> None:
        nonlocal cursor, steps
        for b in code:
            mem[cursor & 0xFFFFF] = b
            cursor += 1
        steps += 1

    def pop_byte(addr: int) -> None:
        nonlocal last_whole
        if addr in mem:                      # placed for an earlier pop of the same cell
            last_whole = mem[addr]
            return
        v = last_whole if (last_whole is not None and st.chance(1, 2)) else st.below(4)
        if v == last_whole:
            stats["same_byte"] += 1
        mem[addr] = v
        last_whole = v

    n = 6 + st.below(19)
    pushed: set = set()
    for _k in range(n):
        r = st.below(16)
        leave = ret_to is not None and (r >= 13 or _k == n - 1)
        if ret_to is not None and r in (2, 3, 5):                # inside the handler S stays balanced: use the U forms
            r = 1 if r != 5 else 4
        if leave:        # leave the handler: RETI pops the frame IR pushed
            emit(bytes([_OP_RETI]))
            s_ += 5
            cursor, ret_to, last_whole = ret_to, None, None
            stats["whole_writes"] += 1
        elif r < 2:                                              # POPU F
            emit(bytes([_OP_POPU_F]))
            if u in pushed:
                last_whole = None
            else:
                pop_byte(u)
            u += 1
            stats["whole_writes"] += 1
        elif r < 4:                                              # POPS F
            emit(bytes([_OP_POPS_F]))
            if s_ in pushed:
                last_whole = None
            else:
                pop_byte(s_)
            s_ += 1
            stats["whole_writes"] += 1
        elif r == 4:                                             # PUSHU F
            emit(bytes([_OP_PUSHU_F]))
            u -= 1
            pushed.add(u)
            stats["reads"] += 1
        elif r == 5:                                             # PUSHS F
            emit(bytes([_OP_PUSHS_F]))
            s_ -= 1
            pushed.add(s_)
            stats["reads"] += 1
        elif r == 6 and ret_to is None:                          # RETI with a prepared frame: IMR, F, PC (3 bytes)
            emit(bytes([_OP_RETI]))
            frame = [s_ + i for i in range(5)]
            if any(a in pushed for a in frame):                  # frame overlaps bytes pushed earlier: stop here
                steps -= 1
                cursor -= 1
                mem.pop(cursor & 0xFFFFF, None)
                break
            mem.setdefault(frame[0], st.byte())
            pop_byte(frame[1])
            nxt = cursor & 0xFFFFF
            if any(a in mem and mem[a] != b for a, b in zip(frame[2:], (nxt & 0xFF, (nxt >> 8) & 0xFF, nxt >> 16))):
                steps -= 1
                cursor -= 1
                mem.pop(cursor & 0xFFFFF, None)
                break
            mem[frame[2]], mem[frame[3]], mem[frame[4]] = nxt & 0xFF, (nxt >> 8) & 0xFF, nxt >> 16
            s_ += 5
            stats["whole_writes"] += 1
        elif r == 7 and ret_to is None and _k < n - 2 and not stats["ir"]:   # IR (once): push PC, F, IMR; go on at the vector target
            emit(bytes([_OP_IR]))
            mem[IR_VECTOR], mem[IR_VECTOR + 1], mem[IR_VECTOR + 2] = handler & 0xFF, (handler >> 8) & 0xFF, handler >> 16
            ret_to = cursor
            cursor = handler
            for i in range(1, 6):
                pushed.add(s_ - i)
            s_ -= 5
            stats["ir"] += 1
            stats["reads"] += 1
        else:
            code = _flag_filler(st, fops) if st.chance(7, 8) else FILLERS[st.below(len(FILLERS))]
            if code is None:
                code = bytes([0x97 if st.chance(1, 2) else 0x9F])   # SC / RC (checked by _check_templates: 97)
            emit(code)
            stats["flag_instrs"] += 1
    if ret_to is not None:                                       # never stop inside the handler without its RETI
        emit(bytes([_OP_RETI]))
        cursor = ret_to
        stats["whole_writes"] += 1
    for i in range(8):
        mem.setdefault((cursor + i) & 0xFFFFF, 0x00)
    mem[S.IMEM + S.BP], mem[S.IMEM + S.PX], mem[S.IMEM + S.PY] = st.byte(), st.byte(), st.byte()
    case = {"regs": regs, "power": "running", "seed": st.u32(),
            "mem": [[a, v] for a, v in sorted(mem.items())], "steps": steps}
    return case, stats


def run(ctx: Ctx) -> Report:
    rsclient.build()
    nshards = 16 if ctx.quick else 64
    reports = ctx.pmap(_shard, [(i, nshards, ctx.seed, ctx.tier) for i in range(nshards)])
    reports += ctx.pmap(_landmark_shard, [(i, 16, ctx.seed, ctx.tier) for i in range(16)])
    reports += ctx.pmap(_pool_shard, [(i, 16, ctx.seed, ctx.tier) for i in range(16)])
    nprog = ctx.pick(16, 320)
    reports += ctx.pmap(_program_shard, [(i, ctx.shard_seed(500 + i), ctx.tier, nprog) for i in range(16)])
    rep = ctx.merge_reports(reports)
    rep.rule = RULE
    rep.exhaustive = not ctx.quick
    rep.assumptions = [
        "valid = accepted by the Python decoder; Rust-only acceptances are out of scope",
        "both cores see the same canonicalising hash-filled bus (24-bit wrap, internal window, external mod 1 MiB)",
        "the instruction under test is followed by NOP bytes",
        "TEMP registers, call-depth bookkeeping and Rust's IMR mirror register are not compared",
        "a Python-side exception on a valid encoding is not a C06 verdict (labelled python-exception)",
    ]
    return rep


def replay(ctx: Ctx, case: Dict[str, Any]) -> List[Violation]:
    rsclient.build()
    rep = Report()
    if isinstance(case.get("pool"), dict):
        pool = case["pool"]
        return eval_pool(pool["members"], [int(i) for i in pool["schedule"]], int(pool["index"]))[int(pool["index"])][0]
    if int(case.get("steps", 1)) > 1:
        vs, _ = lockstep(case)
        return vs
    code = S.code_of(case, 8)
    ln = G.info_len(code + G.NOP_PAD)
    if ln is None:
        return []
    code = code[:ln]
    pre = code[0] if code[0] in G.PRE_OPCODES else None
    op = code[1] if pre is not None else code[0]
    mn, shape = describe(code)
    where = where_of(pre, op, mn)
    eval_cases([(case, where, None, [])], rep)
    return rep.violations
