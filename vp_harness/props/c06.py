"""C06 -- the Rust LLAMA core and the Python core agree on every instruction.

Generated domain: decoder-accepted encodings (structural heads complete in thorough, stratified sample in
quick) x generated machine states on identical hash-filled memory; plus random straight-line programs run in
lockstep.  Oracle: differential Python Emulator <-> Rust LlamaExecutor on registers, flags, PC, consumed
length, low-power state and final contents of every address either core wrote.
"""

from __future__ import annotations

import re
from typing import Any, Dict, List, Optional, Tuple

from ..core import Ctx, HarnessError, Report, Violation, mix32, jhash
from .. import gen_enc as G
from .. import gen_state as S
from .. import pycore, rsclient
from .. import textparse as TP

PROPERTY = "C06"
RULE = ("decoder-accepted encodings: every (prefix|none, opcode) pair with second byte/operands from a seeded "
        "hash + boundary bytes (thorough: every structural head (pre, opcode, b2) the Python decoder accepts) x "
        "one generated state each (registers boundary-biased, pointers interior 7/8 / boundary 1/8, F random, "
        "BP/PX/PY random, memory = address hash), executed once on both cores; plus lockstep programs; plus landmark operands "
        "(every opcode, no prefix + 1 (quick) / 3 (thorough) prefixes: whole-operand values equal to the instruction's "
        "own address, its fall-through address, vectors, window bases, re-pointed at the PC drawn). "
        "Non-trivial = the instruction writes memory or a register other than PC, or changes power state (on "
        "either core); distinct = (pre, opcode, b2, state class).")

REG_FIELDS = ("BA", "I", "X", "Y", "U", "S", "PC")


def describe(code: bytes) -> Tuple[str, str]:
    """(mnemonic, abstract operand shape) from the rendered token stream."""
    r = TP.tokens(code + G.NOP_PAD)
    if r is None:
        return "?", "?"
    toks, _ = r
    return TP.mnemonic(toks), TP.shape(toks)


def where_of(pre: Optional[int], op: int, mn: str) -> str:
    """Fingerprint location: opcode + mnemonic (operand details and prefix deliberately left out so that one
    root cause is one bucket; the differing-field set and symptom discriminate further)."""
    return f"{op:02X} {mn}"


EDGE_ADDRS = frozenset((0x00000, 0xFFFFF, 0x100000, 0x1000FF))


def _fetch_window(pc: int) -> set:
    """Canonical addresses an instruction fetch at pc may read (instruction + decoder look-ahead)."""
    return {pycore.canon(pc + i) for i in range(16)}


def touches_edge(py: Dict[str, Any], rs: Dict[str, Any], pc: Optional[int] = None) -> bool:
    """True when either core accessed (read or wrote) the first or last byte of the external or the internal
    space, or emitted an address outside the canonical ranges (bits above 20 set, internal offset beyond 0xFF):
    the only situations in which an address wrap-around can take place."""
    fetch = _fetch_window(pc) if pc is not None else set()
    near_top = pc is not None and (pc & 0xFFFFF) >= 0xFFFF0
    for side in (py, rs):
        if side.get("noncanon") and not near_top:
            return True
        for a, _ in side.get("writes", []):
            if a in EDGE_ADDRS:
                return True
        for a in side.get("reads", []):
            if a in EDGE_ADDRS and a not in fetch:
                return True
    return False


def fetch_at_top(case: Dict[str, Any]) -> bool:
    return (case["regs"]["PC"] & 0xFFFFF) >= 0xFFFF0


def _accessed(side: Dict[str, Any]) -> set:
    acc = set(side.get("reads", []))
    acc.update(a for a, _ in side.get("writes", []))
    return acc


def window_alias(py: Dict[str, Any], rs: Dict[str, Any]) -> bool:
    """True when one core accessed external address a (< 0x100) while the other accessed internal address
    0x100000 + a instead: bits 20-23 of an absolute address / pointer selected the internal window on one core
    only (Python masks 20-bit immediates and pointers, Rust passes 24 bits to the bus)."""
    ap, ar = _accessed(py), _accessed(rs)
    for a in range(0x100):
        i = 0x100000 + a
        # (the internal cell may be accessed by both cores for another reason, e.g. BP/PX/PY read for addressing;
        #  what identifies the alias is the external cell that only one core touched)
        if (a in ap and a not in ar and i in ar) or (a in ar and a not in ap and i in ap):
            return True
    return False


def compare_step(case: Dict[str, Any], py: Dict[str, Any], rs: Dict[str, Any], init: pycore.HashMemory,
                 where: str, regs0: Optional[Dict[str, int]] = None) -> List[Violation]:
    """Field-level differential of one executed step."""
    out: List[Violation] = []
    if "err" in py:
        return out  # Python-side exception on a valid encoding is C01/C04's subject, not a C06 verdict
    if "err" in rs:
        if (py.get("pc", 0) & 0xFFFFF) >= 0xFFFF0:
            where = where + " @fetch-top"
        out.append(Violation("rust-error", where, f"rust error: {rs['err'][:60]}", case,
                             f"python ok len={py.get('len')}; rust: {rs['err']}"))
        return out
    regs0 = regs0 if regs0 is not None else case["regs"]
    diffs: List[str] = []
    details: List[str] = []
    if py.get("len") != rs.get("len"):
        diffs.append(f"len:py={py.get('len')},rs={rs.get('len')}")
        details.append(f"len py={py.get('len')} rs={rs.get('len')}")
    for r in REG_FIELDS:
        a, b = py["regs"][r], rs["regs"][r]
        if a != b:
            before = regs0.get(r, 0)
            if r == "PC" and abs(a - b) < 16:
                cls = f"rs-py={b - a:+d}"
            else:
                cls = ("py-unchanged" if a == before else "py-changed") + "/" + \
                      ("rs-unchanged" if b == before else "rs-changed")
            diffs.append(f"{r}:{cls}")
            details.append(f"{r} py={a:#x} rs={b:#x} (before {before:#x})")
    fa, fb = py["regs"]["F"], rs["regs"]["F"]
    if (fa ^ fb) & 1:
        diffs.append(f"FC:py={fa & 1},rs={fb & 1}")
    if (fa ^ fb) & 2:
        diffs.append(f"FZ:py={(fa >> 1) & 1},rs={(fb >> 1) & 1}")
    if (fa ^ fb) & 0xFC:
        diffs.append("F-high-bits")
    if (fa ^ fb):
        details.append(f"F py={fa:#04x} rs={fb:#04x} (before {regs0.get('F', 0):#04x})")
    pa = py["power"] != "running"
    pb = rs["power"] != "running"
    if pa != pb:
        diffs.append(f"power:py={py['power']},rs={rs['power']}")
        details.append(f"power py={py['power']} rs={rs['power']}")
    wa = pycore.final_writes([py])
    wb = pycore.final_writes([rs])
    memdiff = []
    for addr in sorted(set(wa) | set(wb)):
        va = wa.get(addr, init.peek(addr))
        vb = wb.get(addr, init.peek(addr))
        if va != vb:
            memdiff.append((addr, va, vb, addr in wa, addr in wb))
    if memdiff:
        only_py = sum(1 for m in memdiff if m[3] and not m[4])
        only_rs = sum(1 for m in memdiff if m[4] and not m[3])
        both = sum(1 for m in memdiff if m[3] and m[4])
        kind = []
        if both:
            kind.append("value-differs")
        if only_py:
            kind.append("only-py-wrote")
        if only_rs:
            kind.append("only-rs-wrote")
        space = "imem" if all(m[0] >= 0x100000 for m in memdiff) else ("emem" if all(m[0] < 0x100000 for m in memdiff) else "mixed")
        diffs.append(f"mem[{space}]:" + "+".join(kind))
        details.append("mem " + ", ".join(f"{a:#x}: py={x:#04x} rs={y:#04x}" for a, x, y, _, _ in memdiff[:6]))
    if diffs:
        sub = ",".join(sorted(d.split(":")[0] for d in diffs))
        if touches_edge(py, rs, py.get("pc")):
            where = where + " @edge"
        elif (py.get("pc", 0) & 0xFFFFF) >= 0xFFFF0:
            where = where + " @fetch-top"
        elif window_alias(py, rs):
            where = where + " @alias"
        out.append(Violation(sub, where, "; ".join(diffs), case, "; ".join(details)))
    return out


def nontrivial(case: Dict[str, Any], py: Dict[str, Any], rs: Dict[str, Any]) -> bool:
    for side in (py, rs):
        if "regs" not in side:
            continue
        if side.get("writes"):
            return True
        if side.get("power") != "running":
            return True
        for r in ("BA", "I", "X", "Y", "U", "S", "F"):
            if side["regs"][r] != (case["regs"].get(r, 0) & (0xFFFFF if r in "XYUS" else 0xFFFF if r in ("BA", "I") else 0xFF)):
                return True
    return False


def eval_cases(cases: List[Tuple[Dict[str, Any], str, Any, List[str]]], rep: Report) -> None:
    """cases: (case, where, ntkey, labels). Runs both cores and records verdicts."""
    rust = rsclient.shared()
    B = 256
    for i in range(0, len(cases), B):
        chunk = cases[i:i + B]
        rs_results = rust.cpu_batch([dict(c[0], want_reads=True) for c in chunk])
        for (case, where, ntkey, labels), rs in zip(chunk, rs_results):
            py = pycore.run_case(case, want_reads=True)
            ps = py["steps"][0] if py["steps"] else {"err": "no step"}
            rss = rs["steps"][0] if rs.get("steps") else {"err": rs.get("error") or rs.get("panic") or "no step"}
            init = pycore.HashMemory(case["seed"], {pycore.canon(a): v for a, v in case["mem"]})
            vs = compare_step(case, ps, rss, init, where)
            for v in vs:
                rep.violate(v)
            lab = list(labels)
            if "err" in ps:
                lab.append("python-exception")
            nt = nontrivial(case, ps, rss)
            sample = None
            if rep.evaluations % 4001 == 17:
                sample = {"code": S.code_of(case, 6).hex(), "where": where, "regs": case["regs"],
                          "py": {k: ps.get(k) for k in ("len", "regs", "power", "writes", "err")},
                          "rs_equal": not vs}
            rep.case(ntkey if nt else None, lab, sample)


def _maybe_pc_top(st: S.Stream, case: Dict[str, Any], labels: List[str]) -> None:
    """One case in thirty-two places the instruction so that its bytes reach or cross the top of the external
    space (PC in 0xFFFF8..0xFFFFF): instruction fetch across the end of memory."""
    if not st.chance(1, 32):
        return
    old_pc = case["regs"]["PC"]
    new_pc = 0xFFFF8 + st.below(8)
    moved = []
    for a, v in case["mem"]:
        if old_pc <= a < old_pc + 16:
            moved.append([new_pc + (a - old_pc), v])   # may exceed 0xFFFFF: both buses canonicalise
        else:
            moved.append([a, v])
    case["mem"] = moved
    case["regs"]["PC"] = new_pc
    labels.append("pc:top-of-memory")


def _maybe_low_power(st: S.Stream, case: Dict[str, Any], labels: List[str]) -> None:
    """One case in sixteen starts in the low-power state ("every architectural state"): the instruction is
    executed by both cores' single-instruction entry points with the halted flag already set."""
    if st.chance(1, 16):
        case["power"] = "halted"
        case["stop_on_halt"] = False
        labels.append("power0:halted")


def _shard(task: Tuple[int, int, int, str]) -> Report:
    shard, nshards, seed, tier = task
    rep = Report()
    cases: List[Tuple[Dict[str, Any], str, Any, List[str]]] = []
    if tier == "quick":
        per = 3600
        encs, filtered = G.sample_valid_encodings(mix32(seed, shard), per)
        rep.filtered += filtered
        for j, (pre, code) in enumerate(encs):
            mn, shape = describe(code)
            st = S.Stream(seed, shard, j)
            case, labels = S.gen_state(st, code, mn, imax=12)
            _maybe_low_power(st, case, labels)
            _maybe_pc_top(st, case, labels)
            op = code[1] if pre is not None else code[0]
            where = where_of(pre, op, mn)
            b2 = code[2] if pre is not None and len(code) > 2 else (code[1] if pre is None and len(code) > 1 else 0)
            cases.append((case, where, f"{pre}:{op:02X}:{b2:02X}:{labels[-1]}", labels + [f"pre:{'yes' if pre else 'no'}"]))
    else:
        idx = 0
        for pre in G.PRES:
            for op in range(256):
                if G.is_pre(op):
                    continue
                for b2 in range(256):
                    idx += 1
                    if idx % nshards != shard:
                        continue
                    tail = G.hash_tail(seed, pre, op, b2, 5)
                    data = G.head_bytes(pre, op, b2) + tail
                    ln = G.info_len(data + G.NOP_PAD)
                    if ln is None:
                        rep.filtered += 1
                        continue
                    code = data[:ln]
                    mn, shape = describe(code)
                    st = S.Stream(seed, idx)
                    case, labels = S.gen_state(st, code, mn, imax=12)
                    _maybe_low_power(st, case, labels)
                    _maybe_pc_top(st, case, labels)
                    where = where_of(pre, op, mn)
                    cases.append((case, where, f"{pre}:{op:02X}:{b2:02X}:{labels[-1]}", labels + [f"pre:{'yes' if pre else 'no'}"]))
                    if len(cases) >= 2048:
                        eval_cases(cases, rep)
                        cases = []
    eval_cases(cases, rep)
    return rep


def _landmark_shard(task: Tuple[int, int, int, str]) -> Report:
    """Whole-operand landmark values (gen_enc.landmark_values): operands equal to the instruction's own address, its
    fall-through address, vectors, window bases ... for every opcode, without prefix and with one (quick) / three
    (thorough) seed-chosen prefixes.  The state is generated first; the operand is then rewritten for the PC drawn."""
    shard, nshards, seed, tier = task
    rep = Report()
    cases: List[Tuple[Dict[str, Any], str, Any, List[str]]] = []
    npre = 1 if tier == "quick" else 3
    for op in range(256):
        if op % nshards != shard or G.is_pre(op):
            continue
        pres = [None] + [G.PRE_OPCODES[mix32(seed, op, j, 0x1B) % len(G.PRE_OPCODES)] for j in range(npre)]
        for pi, pre in enumerate(pres):
            probe = G.landmark_buffers(pre, op, 0x1000, seed)
            for k, (tag, buf0) in enumerate(probe):
                keep = tag.startswith("self") or (mix32(seed, op, k, pi) % 4 == 0) or tier != "quick"
                if not keep:
                    continue
                ln = G.info_len(buf0 + G.NOP_PAD)
                if ln is None:
                    rep.filtered += 1
                    continue
                mn, _shape = describe(buf0[:ln])
                st = S.Stream(seed, 0x1A4D, op, pi, k)
                case, labels = S.gen_state(st, buf0[:ln], mn, imax=12)
                pc = case["regs"]["PC"]
                buf = dict(G.landmark_buffers(pre, op, pc, seed)).get(tag)
                # re-point the operand at the PC actually drawn (same length required, otherwise the case is dropped)
                if buf is None or G.info_len(buf + G.NOP_PAD, pc) != ln or pc + ln > 0xFFFFF:
                    rep.filtered += 1
                    continue
                code = buf[:ln]
                newmem = []
                for a, v in case["mem"]:
                    off = a - pc
                    newmem.append([a, code[off]] if 0 <= off < ln else [a, v])
                case["mem"] = newmem
                where = where_of(pre, op, mn)
                cases.append((case, where, f"lm:{pre}:{op:02X}:{tag}", labels + ["landmark:" + tag.split("@")[0].split(":")[0]]))
    eval_cases(cases, rep)
    return rep


CONTROL_FLOW = set(range(0x01, 0x08)) | set(range(0x10, 0x20)) | {0xFE, 0xFF, 0xDE, 0xDF}


def _known_divergent_opcodes() -> set:
    """Opcodes named by open C06 known findings (their `where` starts with the opcode in hex): lockstep
    programs are built from the remaining opcodes so that a run is not ended at once by a listed finding."""
    import re as _re
    from .. import findings as F

    ops = set()
    for e in F.load_findings(PROPERTY):
        if not F.is_open(e):
            continue
        for m in _re.finditer(r"\b([0-9A-F]{2}) [A-Z?]", str(e.get("match", {}).get("where", ""))):
            ops.add(int(m.group(1), 16))
        for o in e.get("opcodes", []):
            ops.add(int(o, 16) if isinstance(o, str) else int(o))
    return ops


def lockstep(case: Dict[str, Any]) -> Tuple[List[Violation], int]:
    """Run case["steps"] instructions on both cores from the same state and compare after every step; stops at
    the first divergence (afterwards the states differ). Returns (violations, number of agreeing steps)."""
    rust = rsclient.shared()
    rs = rust.cpu_batch([dict(case, want_reads=True)])[0]
    py = pycore.run_case(case, want_reads=True)
    init = pycore.HashMemory(case["seed"], {pycore.canon(a): v for a, v in case["mem"]})
    regs_prev = dict(case["regs"])
    steps_ok = 0
    for k, ps in enumerate(py["steps"]):
        if k >= len(rs.get("steps", [])):
            break
        rss = rs["steps"][k]
        if "err" in ps:
            break
        code_k = bytes(init.peek(ps["pc"] + j) for j in range(8))
        ln = G.info_len(code_k + G.NOP_PAD)
        mn, _ = describe(code_k[:ln] if ln else code_k)
        pre = code_k[0] if code_k[0] in G.PRE_OPCODES else None
        op = code_k[1] if pre is not None else code_k[0]
        sub_case = dict(case)
        sub_case["steps"] = k + 1
        vs = compare_step(sub_case, ps, rss, init, where_of(pre, op, mn), regs_prev)
        if vs:
            for v in vs:
                v.detail = f"lockstep step {k}: " + v.detail
            return vs, steps_ok
        for a, val in ps.get("writes", []):
            init.over[a] = val
        regs_prev = dict(ps["regs"])
        steps_ok += 1
    return [], steps_ok


def _record_program(rep: Report, case: Dict[str, Any], kind: str, sample: bool) -> None:
    vs, steps_ok = lockstep(case)
    for v in vs:
        rep.violate(v)
    rep.labels[f"{kind}_steps_ok:{min(steps_ok // 10 * 10, 40)}+"] += 1
    rep.extra["lockstep_steps"] = rep.extra.get("lockstep_steps", 0) + steps_ok
    code = S.code_of(case, 24)
    rep.case(f"prog:{jhash([case['regs']['PC'], code.hex(), case['seed']])}" if steps_ok >= 3 else None,
             [f"kind:{kind}", f"{kind}:diverged" if vs else f"{kind}:agreed"],
             {"kind": kind, "pc": case["regs"]["PC"], "code_at_pc": code.hex(), "steps_compared": steps_ok} if sample else None)


def _program_shard(task: Tuple[int, int, str, int]) -> Report:
    shard, seed, tier, nprog = task
    rep = Report()
    excluded = _known_divergent_opcodes() | CONTROL_FLOW
    ops = [o for o in range(256) if not G.is_pre(o) and o not in excluded]
    rep.extra["lockstep_opcodes_excluded"] = len(excluded) if shard == 0 else 0
    for pi in range(nprog):
        st = S.Stream(seed, 0x10C, shard, pi)
        n = 5 + st.below(36)
        encs = []
        for _ in range(n):
            pre_j = G.PRES[st.below(len(G.PRES))] if st.chance(1, 3) else None
            e1, filtered = G.sample_valid_encodings(st.u32(), 1, pres=[pre_j], opcodes=[ops[st.below(len(ops))]])
            rep.filtered += filtered
            encs += e1
        code = b"".join(c for _, c in encs)
        case, labels = S.gen_state(st, code, "", imax=6, pad=bytes(16))
        case["regs"]["I"] = 1 + st.below(6)  # counted instructions inside programs stay short
        case["steps"] = len(encs)
        _record_program(rep, case, "lockstep", pi % 97 == 0)
    # control-flow skeletons: calls, far jumps and returns across 64 KiB pages
    for pi in range(nprog):
        st = S.Stream(seed, 0xCF10, shard, pi)
        case = skeleton_program(st)
        _record_program(rep, case, "skeleton", pi % 53 == 0)
        case = selfmod_program(S.Stream(seed, 0x5E1F, shard, pi))
        _record_program(rep, case, "selfmod", pi % 59 == 0)
    return rep


# Hand-encoded control-flow templates (checked against the repository's decoder in _check_templates()).
def _t_call(t: int) -> bytes: return bytes([0x04, t & 0xFF, (t >> 8) & 0xFF])
def _t_callf(t: int) -> bytes: return bytes([0x05, t & 0xFF, (t >> 8) & 0xFF, (t >> 16) & 0x0F])
def _t_jp(t: int) -> bytes: return bytes([0x02, t & 0xFF, (t >> 8) & 0xFF])
def _t_jpf(t: int) -> bytes: return bytes([0x03, t & 0xFF, (t >> 8) & 0xFF, (t >> 16) & 0x0F])
_T_RET, _T_RETF, _T_NOP = bytes([0x06]), bytes([0x07]), bytes([0x00])
FILLERS = (bytes([0x08, 0x5A]), bytes([0x40, 0x01]), bytes([0x0A, 0x34, 0x12]), bytes([0x00]),
           bytes([0x6C, 0x04]), bytes([0x64, 0x0F]), bytes([0x0C, 0x78, 0x56, 0x03]))  # MV A,n / ADD A,n / MV BA,mn / NOP / INC X / TEST A,n / MV X,lmn
_templates_checked = False


def _check_templates() -> None:
    global _templates_checked
    if _templates_checked:
        return
    want = [(_t_call(0x1234), "CALL"), (_t_callf(0x12345), "CALLF"), (_t_jp(0x1234), "JP"), (_t_jpf(0x12345), "JPF"),
            (_T_RET, "RET"), (_T_RETF, "RETF"), (_T_NOP, "NOP"), (bytes([0xA8, 0x34, 0x12, 0x05]), "MV"), (bytes([0x97]), "SC"), (FILLERS[0], "MV"), (FILLERS[1], "ADD"),
            (FILLERS[2], "MV"), (FILLERS[4], "INC"), (FILLERS[5], "TEST"), (FILLERS[6], "MV")]
    for code, mn in want:
        r = TP.tokens(code + G.NOP_PAD)
        if r is None or TP.mnemonic(r[0]) != mn or r[1] != len(code):
            raise HarnessError(f"control-flow template {code.hex()} does not decode as {mn}: {r}")
    _templates_checked = True


def selfmod_program(st: S.Stream) -> Dict[str, Any]:
    """A program that stores into the bytes of an instruction it is about to execute (operand or opcode byte of the
    next or the second-next instruction).  Both cores must execute the bytes that are in memory when the instruction
    is reached."""
    _check_templates()
    base = (0x10000 * (1 + st.below(13))) | (0x0200 + (st.below(0xF000) & 0xFFF0))
    v = 1 + st.below(254)
    mem: List[List[int]] = []

    def place(addr: int, data: bytes) -> int:
        for b in data:
            mem.append([addr & 0xFFFFF, b])
            addr += 1
        return addr

    gap = st.below(3)                      # 0: next instruction, 1..2: a later one
    victim = base + 2 + 4 + gap            # address of the victim instruction (after MV A,v ; MV [lmn],A ; gap NOPs)
    kind = st.below(3)
    if kind == 0:                          # patch the immediate of `MV A,00`
        target, victim_code, v_store = victim + 1, bytes([0x08, 0x00]), v
    elif kind == 1:                        # patch the opcode: `MV A,33` (08 33) becomes `ADD A,33` (40 33)
        target, victim_code, v_store = victim, bytes([0x08, 0x33]), 0x40
    else:                                  # patch the opcode of a NOP into INC-less 1-byte form: NOP (00) -> SC (97)? keep length 1
        target, victim_code, v_store = victim, bytes([0x00]), 0x00 if st.chance(1, 4) else 0x97
    a = place(base, bytes([0x08, v_store]))
    a = place(a, bytes([0xA8, target & 0xFF, (target >> 8) & 0xFF, (target >> 16) & 0x0F]))
    a = place(a, _T_NOP * gap)
    a = place(a, victim_code)
    place(a, _T_NOP * 6)
    steps = 2 + gap + 1 + 1
    regs = {"BA": st.word(), "I": st.word(), "X": st.pointer(False)[0], "Y": st.pointer(False)[0],
            "U": st.pointer(False)[0], "S": 0xE0000 + st.below(0x8000) * 2, "F": st.u32() & 0xFF, "PC": base}
    return {"regs": regs, "power": "running", "seed": st.u32(), "mem": mem, "steps": steps}


def skeleton_program(st: S.Stream) -> Dict[str, Any]:
    """main (page A): fillers, CALL/CALLF sub, fillers.  sub: fillers, then either RET/RETF directly or a far/near
    jump to a tail block in another (or the same) page which returns.  The path length is known, so exactly the
    planned number of steps is compared."""
    _check_templates()
    pages = [0x10000 * (1 + st.below(13)) for _ in range(3)]
    if st.chance(1, 3):
        pages[1] = pages[0]
    if st.chance(1, 3):
        pages[2] = pages[0]
    offs = [0x0200 + st.below(0xF000) & 0xFFF0 for _ in range(3)]
    # keep blocks apart when they share a page
    offs[1] = (offs[0] + 0x0400 + st.below(0x3000)) & 0xFFF0 if pages[1] == pages[0] else offs[1]
    offs[2] = (offs[1] + 0x0400 + st.below(0x3000)) & 0xFFF0 if pages[2] in (pages[0], pages[1]) else offs[2]
    main, sub, tail = (pages[0] | offs[0]) & 0xFFFFF, (pages[1] | offs[1]) & 0xFFFFF, (pages[2] | offs[2]) & 0xFFFFF
    far_call = st.chance(1, 2) or (pages[1] != pages[0])

    def fill(n: int) -> List[bytes]:
        return [FILLERS[st.below(len(FILLERS))] for _ in range(n)]

    mem: List[List[int]] = []
    steps = 0

    def place(addr: int, chunks: List[bytes]) -> int:
        for c in chunks:
            for b in c:
                mem.append([addr & 0xFFFFF, b])
                addr += 1
        return addr

    pre_main = fill(st.below(3))
    call = _t_callf(sub) if far_call else _t_call(sub)
    post_main = fill(1 + st.below(3))
    place(main, pre_main + [call] + post_main + [_T_NOP] * 4)
    sub_body = fill(st.below(3))
    ret = _T_RETF if far_call else _T_RET
    shape = st.below(3)
    if shape == 0:
        place(sub, sub_body + [ret] + [_T_NOP] * 2)
        steps = len(pre_main) + 1 + len(sub_body) + 1 + len(post_main)
    else:
        jump = _t_jpf(tail) if (shape == 1 or (tail & 0xF0000) != (sub & 0xF0000)) else _t_jp(tail)
        tail_body = fill(st.below(3))
        place(sub, sub_body + [jump] + [_T_NOP] * 2)
        place(tail, tail_body + [ret] + [_T_NOP] * 2)
        # after a near RET in another page execution continues in that page (not at main): stop after the RET
        back_at_main = far_call or (tail & 0xF0000) == (main & 0xF0000)
        steps = len(pre_main) + 1 + len(sub_body) + 1 + len(tail_body) + 1 + (len(post_main) if back_at_main else 0)
    regs = {"BA": st.word(), "I": st.word(), "X": st.pointer(False)[0], "Y": st.pointer(False)[0],
            "U": st.pointer(False)[0], "S": 0xE0000 + st.below(0x8000) * 2, "F": st.u32() & 0xFF, "PC": main}
    return {"regs": regs, "power": "running", "seed": st.u32(), "mem": mem, "steps": steps}


def run(ctx: Ctx) -> Report:
    rsclient.build()
    nshards = 16 if ctx.quick else 64
    reports = ctx.pmap(_shard, [(i, nshards, ctx.seed, ctx.tier) for i in range(nshards)])
    reports += ctx.pmap(_landmark_shard, [(i, 16, ctx.seed, ctx.tier) for i in range(16)])
    nprog = ctx.pick(16, 320)
    reports += ctx.pmap(_program_shard, [(i, ctx.shard_seed(500 + i), ctx.tier, nprog) for i in range(16)])
    rep = ctx.merge_reports(reports)
    rep.rule = RULE
    rep.exhaustive = not ctx.quick
    rep.assumptions = [
        "valid = accepted by the Python decoder; Rust-only acceptances are out of scope",
        "both cores see the same canonicalising hash-filled bus (24-bit wrap, internal window, external mod 1 MiB)",
        "the instruction under test is followed by NOP bytes",
        "TEMP registers, call-depth bookkeeping and Rust's IMR mirror register are not compared",
        "a Python-side exception on a valid encoding is not a C06 verdict (labelled python-exception)",
    ]
    return rep


def replay(ctx: Ctx, case: Dict[str, Any]) -> List[Violation]:
    rsclient.build()
    rep = Report()
    if int(case.get("steps", 1)) > 1:
        vs, _ = lockstep(case)
        return vs
    code = S.code_of(case, 8)
    ln = G.info_len(code + G.NOP_PAD)
    if ln is None:
        return []
    code = code[:ln]
    pre = code[0] if code[0] in G.PRE_OPCODES else None
    op = code[1] if pre is not None else code[0]
    mn, shape = describe(code)
    where = where_of(pre, op, mn)
    eval_cases([(case, where, None, [])], rep)
    return rep.violations
