"""C05 helper: *histories* -- one long-lived executor instance, code bytes that change between executions.

The statement quantifies over inputs **and histories**: the static facts are those of the bytes that are in
memory when the instruction executes.  The single/other/pair domains build a fresh executor per case, so every
address is executed at most once per instance.  A history runs 8-30 *episodes* on ONE executor instance (the
Python `Emulator`; the Rust `LlamaExecutor` + `LlamaState` session of `cpu.batch`).  An episode

  1. brings a *slot* (one of 1-3 fixed code addresses of the history: interior, 1-7 bytes below a 64 KiB page
     end so that, depending on the length, the instruction ends at the boundary or straddles it, or at a page
     start) to its next content -- a brand-new instruction, the same head with other operand bytes, another
     opcode under the same PRE byte, or unchanged bytes -- either **by the host** (writes through the memory
     object / bus, "a second program loaded to the same RAM address") or **by the program itself**: a driver
     routine `MV A,n ; MV [lmn],A` per changed byte, then `JPF slot` (self-modifying code; the driver lies at an
     address never executed before, so the stores are what they look like);
  2. sets the registers a test bench would set (flags, pointers, S/U; PC = driver or slot);
  3. executes the slot's instruction (1/10 of the episodes only *inspect* it through the public
     `Emulator.decode_instruction`, so that a later episode executes bytes that were seen but never run); for call
     episodes also the `[PRE] RET/RETF` at the history's return slot
     (whose opcode alternates under a PRE byte that stays the same).

Every executed instruction -- driver, slot, return -- is judged by the same `judge()` as the single domain
against `get_instruction_info` of the 16 bytes that are in memory *at that moment* (peeked through the
executor's memory just before the step), with the flags the executor holds at that moment.  Call episodes add
the pair law (resume address, S, F).  Nothing else is asserted; in particular nothing is assumed about what the
intended content was (a clobbered slot is judged by what it holds).
"""

from __future__ import annotations

import copy
from typing import Any, Dict, List, Optional, Tuple

from ..core import HarnessError, Violation, jhash
from .. import gen_enc as G
from .. import gen_state as S
from .. import pycore
from .. import rsclient
from .. import textparse as TP
from . import c05_pairs as P
from .c05_pairs import M20, addr_class, diffclass, s20

WINDOW = 12  # bytes of a slot that an episode defines: instruction (<= 7) + NOP padding
RWINDOW = 4  # return slot: [PRE] RET/RETF + NOPs
DRV_STRIDE = 0x70  # driver bytes reserved per store episode: (2 + 4) * (WINDOW + RWINDOW) + 4 <= 0x70
# operand bytes of the control-flow heads
OPERAND_LEN = {0x02: 2, 0x04: 2, 0x14: 2, 0x15: 2, 0x16: 2, 0x17: 2, 0x03: 3, 0x05: 3, 0x10: 1, 0x11: 1,
               0x12: 1, 0x13: 1, **{o: 1 for o in range(0x18, 0x20)}}
# immediates forms three times as often as returns / indirect jumps / IR / RESET
CF_WEIGHTED = tuple(o for o in (0x02, 0x03, 0x04, 0x05, 0x12, 0x13) + tuple(range(0x14, 0x20)) for _ in range(3)) \
    + (0x01, 0x06, 0x07, 0x10, 0x11, 0xFE, 0xFF)
CORES = ("py", "rs")
CORE_TAG = {"py": "", "rs": "rs "}

_TESTED = False


def self_test() -> None:
    """The driver's three instruction forms must be what the repository's decoder says they are."""
    global _TESTED
    if _TESTED:
        return
    for code, mn, must in ((b"\x08\x5A", "MV", "A,"), (b"\xA8\x21\x80\x0B", "MV", "],A"),
                           (b"\x03\x21\x80\x0B", "JPF", "")):
        tk = TP.tokens(code + G.NOP_PAD, 0x31000)
        ln = G.info_len(code + G.NOP_PAD, 0x31000)
        txt = (TP.text(tk[0]) if tk else "").replace(" ", "")
        if tk is None or ln != len(code) or TP.mnemonic(tk[0]) != mn or must not in txt:
            raise HarnessError(f"C05 history driver template {code.hex()} is not decoded as assumed: len={ln} "
                               f"text={txt!r}")
    tk = TP.tokens(b"\xA8\x21\x80\x0B" + G.NOP_PAD, 0x31000)
    if "[" not in TP.text(tk[0]):
        raise HarnessError("C05 history driver template A8 is not an external-memory store")
    _TESTED = True


# ------------------------------------------------------------------------------------------------
# generation
# ------------------------------------------------------------------------------------------------

def build_pool(seed: int, count: int) -> List[Tuple[Optional[int], str, str]]:
    """[(pre, code hex, mnemonic)] of decoder-accepted non-control-flow encodings (shared sampler)."""
    encs, _ = G.sample_valid_encodings(seed, count)
    out = []
    for pre, code in encs:
        tk = TP.tokens(code + G.NOP_PAD)
        mn = TP.mnemonic(tk[0]) if tk else ""
        if not mn or mn.startswith("???"):
            continue
        out.append((pre, code.hex(), mn))
    return out


def _cf_instruction(st: S.Stream, addr: int, pre: Optional[int], op: Optional[int] = None) -> Dict[str, Any]:
    from . import c05 as C

    if op is None:
        op = st.choice(CF_WEIGHTED)
    n = OPERAND_LEN.get(op, 0)
    length = (1 if pre is not None else 0) + 1 + n
    variants = C.operand_variants(st, op, addr, length, 2, n_fixed=-1, derived=True)
    # landmark targets (own address +-k, vectors, region bases ...) one time in three; the classic list otherwise
    lms = [v for v in variants if v[0].startswith("lm:")]
    if lms and st.chance(1, 3):
        ocls, operand, xregs = st.choice(lms)
    else:
        ocls, operand, xregs = st.choice([v for v in variants if not v[0].startswith("lm:")])
    code = (bytes([pre]) if pre is not None else b"") + bytes([op]) + operand
    return {"code": code.hex(), "pre": pre, "op": op, "kind": "cf", "mn": "",
            "xregs": {k: v for k, v in xregs.items() if k in ("X", "Y", "BA", "I")}}


def _pool_instruction(st: S.Stream, pool: List[Tuple[Optional[int], str, str]]) -> Dict[str, Any]:
    pre, code, mn = st.choice(pool)
    b = bytes.fromhex(code)
    return {"code": code, "pre": pre, "op": b[1] if pre is not None else b[0], "kind": "pool", "mn": mn, "xregs": {}}


def _retail(st: S.Stream, cur: Dict[str, Any]) -> Optional[Dict[str, Any]]:
    """Same head (PRE + opcode) as a pool encoding, other operand bytes (accepted by the decoder)."""
    b = bytes.fromhex(cur["code"])
    nhead = 2 if cur["pre"] is not None else 1
    if len(b) <= nhead:
        return None
    for _ in range(4):
        tail = bytearray(b[nhead:])
        k = st.below(len(tail))
        tail[k] = st.byte()
        if st.chance(1, 2):
            tail[st.below(len(tail))] = st.byte()
        cand = b[:nhead] + bytes(tail)
        if cand == b:
            continue
        ln = G.info_len(cand + G.NOP_PAD)
        if ln is None:
            continue
        cand = cand[:ln]
        tk = TP.tokens(cand + G.NOP_PAD)
        mn = TP.mnemonic(tk[0]) if tk else ""
        if not mn or mn.startswith("???"):
            continue
        return {**cur, "code": cand.hex(), "mn": mn, "xregs": {}}
    return None


def _new_instruction(st: S.Stream, addr: int, pool: List[Tuple[Optional[int], str, str]],
                     pre_forced: Optional[int] = None) -> Dict[str, Any]:
    if pre_forced is not None:
        return _cf_instruction(st, addr, pre_forced)
    r = st.below(10)
    if r < 7 or not pool:
        pre = st.choice(G.PRE_OPCODES) if st.chance(1, 3) else None
        return _cf_instruction(st, addr, pre)
    return _pool_instruction(st, pool)


def _free(used: List[Tuple[int, int]], lo: int, hi: int) -> bool:
    if lo < 0x10100 or hi > 0xF0000:
        return False
    for a, b in used:
        if lo < b and a < hi:
            return False
    return True


def _alloc(st: S.Stream, used: List[Tuple[int, int]], mk: Any, before: int, after: int) -> Optional[int]:
    for _ in range(16):
        a = mk()
        if _free(used, a - before, a + after):
            used.append((a - before, a + after))
            return a
    return None


def gen_history(st: S.Stream, thorough: bool, pool: List[Tuple[Optional[int], str, str]]) -> Optional[Dict[str, Any]]:
    used: List[Tuple[int, int]] = []
    n_slots = 1 + st.below(3)
    n_eps = (10 + st.below(21)) if thorough else (8 + st.below(13))
    slots: List[Dict[str, Any]] = []
    for _ in range(n_slots):
        cls = st.choice(("interior", "interior", "interior", "page-end", "page-end", "page-start"))
        if cls == "interior":
            a = _alloc(st, used, lambda: ((1 + st.below(13)) << 16) + 0x400 + st.below(0xF800), 16, 32)
        elif cls == "page-end":
            a = _alloc(st, used, lambda: ((2 + st.below(13)) << 16) - 1 - st.below(7), 16, 32)
        else:
            a = _alloc(st, used, lambda: ((2 + st.below(12)) << 16) + st.below(3), 16, 32)
        if a is None:
            return None
        page = a & 0xF0000
        r = _alloc(st, used, lambda: page + 0x400 + st.below(0xF800), 8, 16)
        if r is None:
            return None
        slots.append({"addr": a, "ret": r, "ret_pre": st.choice(P.PRE_CHOICES) if st.chance(1, 2) else None,
                      "cls": cls})
    dpg = 1 + st.below(13)
    drv = _alloc(st, used, lambda: (dpg << 16) + 0x400 + st.below(0xF800 - n_eps * DRV_STRIDE), 16,
                 n_eps * DRV_STRIDE + 16)
    sp = _alloc(st, used, lambda: 0x10400 + st.below(0xDF000), 0x80, 0x20)
    up = _alloc(st, used, lambda: 0x10400 + st.below(0xDF000), 0x80, 0x20)
    if drv is None or sp is None or up is None:
        return None
    cur: List[Optional[Dict[str, Any]]] = [None] * n_slots
    episodes: List[Dict[str, Any]] = []
    for e in range(n_eps):
        # revisit an already used slot 3/4 of the time
        seen = [i for i in range(n_slots) if cur[i] is not None]
        si = st.choice(seen) if seen and st.chance(3, 4) else st.below(n_slots)
        slot = slots[si]
        a = slot["addr"]
        c = cur[si]
        ins: Optional[Dict[str, Any]] = None
        if c is not None:
            m = st.below(10)
            if m < 4:  # same head, other operand bytes
                if c["kind"] == "cf" and OPERAND_LEN.get(c["op"], 0):
                    for _ in range(4):
                        ins = _cf_instruction(st, a, c["pre"], c["op"])
                        if ins["code"] != c["code"]:
                            break
                elif c["kind"] == "pool":
                    ins = _retail(st, c)
                elif c["kind"] == "call":
                    ins = {**c, "flavor": st.choice(("CALL", "CALLF"))}
            elif m < 6:  # same PRE byte, another opcode
                if c["pre"] is not None:
                    ins = _new_instruction(st, a, pool, pre_forced=c["pre"]) if st.chance(3, 4) else \
                        {"kind": "call", "pre": c["pre"], "flavor": st.choice(("CALL", "CALLF")), "xregs": {}}
            elif m == 6:  # unchanged bytes, other flags/registers
                ins = c
        if ins is None:
            if st.chance(1, 6):
                ins = {"kind": "call", "pre": st.choice(P.PRE_CHOICES) if st.chance(1, 3) else None,
                       "flavor": st.choice(("CALL", "CALLF")), "xregs": {}}
            else:
                ins = _new_instruction(st, a, pool)
        ep: Dict[str, Any] = {"slot": a}
        if ins["kind"] == "call":
            op, nop = P.CALL_OP[ins["flavor"]]
            ln = (1 if ins["pre"] is not None else 0) + 1 + nop
            if ins["flavor"] == "CALL" and ((a + ln) & 0xF0000) != (a & 0xF0000):
                # the near call's return address would lie in the next page: the pair domain's (known) class
                ins = {**ins, "flavor": "CALLF"}
                op, nop = P.CALL_OP["CALLF"]
            d = slot["ret"]
            code = (bytes([ins["pre"]]) if ins["pre"] is not None else b"") + bytes([op, d & 0xFF, (d >> 8) & 0xFF])
            if ins["flavor"] == "CALLF":
                code += bytes([(d >> 16) & 0x0F])
            rname, rop = P.RET_OF[ins["flavor"]]
            rcode = (bytes([slot["ret_pre"]]) if slot["ret_pre"] is not None else b"") + bytes([rop])
            ins = {**ins, "code": code.hex(), "op": op, "mn": ins["flavor"]}
            ep["ret"] = {"addr": d, "code": rcode.hex(), "flavor": ins["flavor"], "name": rname}
        ep["code"] = ins["code"]
        cur[si] = {k: v for k, v in ins.items() if k != "xregs"}
        first = c is None
        ep["via"] = "host" if first or st.chance(1, 2) else "store"
        if st.chance(1, 10):
            # the host loads the code and only *inspects* it (Emulator.decode_instruction, as a debugger or the
            # machine's trace hook does); it is executed, if at all, after a later episode changed it again
            ep["via"] = "host"
            ep["exec"] = False
        if ep["via"] == "store":
            ep["drv"] = drv + e * DRV_STRIDE
        regs: Dict[str, int] = {"BA": st.word(), "X": st.pointer()[0], "Y": st.pointer()[0], "S": sp, "U": up,
                                "F": (st.u32() & 0xFF) if st.chance(3, 4) else st.below(4)}
        regs["I"] = (1 + st.below(12)) if ins.get("mn") in S.COUNTED else st.word()
        regs.update(ins.get("xregs", {}))
        ep["regs"] = regs
        episodes.append(ep)
    return {"kind": "hist", "seed": st.u32(),
            "imem": [[S.BP, st.byte()], [S.PX, st.byte()], [S.PY, st.byte()], [0xFB, st.byte()]],
            "episodes": episodes}


# ------------------------------------------------------------------------------------------------
# plan: episodes -> visits (one executed instruction each)
# ------------------------------------------------------------------------------------------------

def plan(case: Dict[str, Any]) -> List[Dict[str, Any]]:
    """Visits: {"at": planned address, "mem": host writes before, "regs": host registers before (first visit of
    an episode only), "ep": episode index, "role": driver|slot|ret}.  The planned content of every window is
    tracked so that a store episode's driver writes exactly the bytes that differ from the previous plan."""
    content: Dict[int, int] = {}
    visits: List[Dict[str, Any]] = []
    for ei, ep in enumerate(case["episodes"]):
        a = int(ep["slot"])
        code = bytes.fromhex(ep["code"])
        want: List[Tuple[int, int]] = [(a + i, b) for i, b in enumerate(code + bytes(WINDOW - len(code)))]
        ret = ep.get("ret")
        if ret:
            rc = bytes.fromhex(ret["code"])
            want += [(int(ret["addr"]) + i, b) for i, b in enumerate(rc + bytes(RWINDOW - len(rc)))]
        regs = {k: int(v) for k, v in ep["regs"].items()}
        first: Dict[str, Any]
        if ep.get("via") == "store":
            diff = [(x, b) for x, b in want if content.get(x) != b]
            d = int(ep["drv"])
            drv = b""
            for x, b in diff:
                drv += bytes([0x08, b, 0xA8, x & 0xFF, (x >> 8) & 0xFF, (x >> 16) & 0x0F])
            drv += bytes([0x03, a & 0xFF, (a >> 8) & 0xFF, (a >> 16) & 0x0F])
            if len(drv) > DRV_STRIDE - 8:
                raise HarnessError("C05 history driver does not fit its stride")
            host = [[d + i, b] for i, b in enumerate(drv + bytes(4))]
            at = d
            for k in range(2 * len(diff) + 1):
                ln = 4 if (k % 2 == 1 or k == 2 * len(diff)) else 2
                visits.append({"at": at, "ep": ei, "role": "driver"})
                at += ln
            first = visits[-(2 * len(diff) + 1)]
            first["mem"] = host
            first["regs"] = {**regs, "PC": d}
            visits.append({"at": a, "ep": ei, "role": "slot"})
        elif ep.get("exec", True) is False:
            visits.append({"at": a, "ep": ei, "role": "inspect", "mem": [[x, b] for x, b in want],
                           "regs": {**regs, "PC": a}})
        else:
            first = {"at": a, "ep": ei, "role": "slot", "mem": [[x, b] for x, b in want], "regs": {**regs, "PC": a}}
            visits.append(first)
        if ret and ep.get("exec", True):
            visits.append({"at": int(ret["addr"]), "ep": ei, "role": "ret"})
        for x, b in want:
            content[x] = b
    return visits


# ------------------------------------------------------------------------------------------------
# executors: run the visits on ONE instance, record what a debugger would see around each step
# ------------------------------------------------------------------------------------------------
# record = {"pc0","f0","s0","bytes"(hex of 16 bytes at the planned address before the step),"pc1","s1","f1","err"}

def _run_py(case: Dict[str, Any], visits: List[Dict[str, Any]], fresh: bool = False) -> List[Dict[str, Any]]:
    """fresh=True: the *control experiment* -- immediately before every visit the Emulator object is replaced
    by a new one on the same memory object with the same register values and halted flag (what a snapshot/
    restore of the architectural state would give); everything else is identical."""
    from sc62015.pysc62015.emulator import Emulator, RegisterName as R

    mem = pycore.HashMemory(int(case.get("seed", 0)),
                            {0x100000 + (off & 0xFF): v & 0xFF for off, v in case.get("imem", [])})
    emu = Emulator(mem, reset_on_init=False)  # type: ignore[arg-type]
    out: List[Dict[str, Any]] = []
    for k, v in enumerate(visits):
        if fresh and k > 0:
            regs = pycore.get_regs(emu, temps=True)
            halted = emu.state.halted
            emu = Emulator(mem, reset_on_init=False)  # type: ignore[arg-type]
            pycore.set_regs(emu, regs)
            emu.state.halted = halted
        for a, b in v.get("mem", ()):
            mem.write_byte(a & M20, b & 0xFF)  # through the memory object, as a loader would
        if v.get("regs"):
            pycore.set_regs(emu, v["regs"])
            emu.state.halted = False
        at = int(v["at"])
        rec: Dict[str, Any] = {"bytes": bytes(mem.peek(at + i) for i in range(16)).hex(),
                               "pc0": int(emu.regs.get(R.PC)) & M20, "f0": int(emu.regs.get(R.F)) & 0xFF,
                               "s0": int(emu.regs.get(R.S))}
        if v["role"] == "inspect":
            try:
                emu.decode_instruction(at)
            except BaseException:  # noqa: BLE001 - an inspection that fails is just an inspection that failed
                pass
            rec["inspect"] = True
            out.append(rec)
            continue
        st = pycore.step(emu, mem)
        rec.update(pc1=int(st["regs"]["PC"]) & M20, s1=int(st["regs"]["S"]), f1=int(st["regs"]["F"]) & 0xFF)
        if "err" in st:
            rec["err"] = st["err"]
        out.append(rec)
    return out


def _run_rs(case: Dict[str, Any], visits: List[Dict[str, Any]]) -> List[Dict[str, Any]]:
    reqs: List[Dict[str, Any]] = []
    for i, v in enumerate(visits):
        at = int(v["at"])
        setup: Dict[str, Any] = {"sess": "c05h", "keep": i > 0, "steps": 0, "want_final": True,
                                 "peek": [at + k for k in range(16)]}
        if i == 0:
            setup["seed"] = int(case.get("seed", 0))
            setup["mem"] = [[0x100000 + (off & 0xFF), b & 0xFF] for off, b in case.get("imem", [])]
        if v.get("mem"):
            setup["mem"] = setup.get("mem", []) + [[a & M20, b & 0xFF] for a, b in v["mem"]]
        if v.get("regs"):
            setup["regs"] = v["regs"]
            setup["power"] = "running"
        reqs.append(setup)
        # an inspect-only visit is a host write without execution on this core (it has no decode entry point)
        reqs.append({"sess": "c05h", "keep": True, "steps": 0 if v["role"] == "inspect" else 1, "stop_on_halt": False})
    res = rsclient.shared().cpu_batch(reqs)
    out: List[Dict[str, Any]] = []
    for i in range(len(visits)):
        r0, r1 = res[2 * i], res[2 * i + 1]
        fr = r0["final_regs"]
        rec: Dict[str, Any] = {"bytes": bytes(int(b) & 0xFF for b in r0["peek"]).hex(), "pc0": int(fr["PC"]) & M20,
                               "f0": int(fr["F"]) & 0xFF, "s0": int(fr["S"])}
        steps = r1.get("steps") or []
        if visits[i]["role"] == "inspect":
            rec["inspect"] = True
        elif not steps:
            rec.update(pc1=rec["pc0"], s1=rec["s0"], f1=rec["f0"], err="no step executed")
        else:
            rg = steps[0]["regs"]
            rec.update(pc1=int(rg["PC"]) & M20, s1=int(rg["S"]), f1=int(rg["F"]) & 0xFF)
            if "err" in steps[0]:
                rec["err"] = str(steps[0]["err"])
        out.append(rec)
    return out


# ------------------------------------------------------------------------------------------------
# verdict
# ------------------------------------------------------------------------------------------------

def revisit_class(old: Optional[bytes], new: bytes) -> str:
    if old is None:
        return "first-visit"
    if old == new:
        return "revisit:unchanged"
    if old[0] != new[0]:
        return "revisit:first-byte-changed"
    if new[0] in G.PRE_OPCODES and (len(old) < 2 or len(new) < 2 or old[1] != new[1]):
        return "revisit:opcode-changed-under-same-PRE"
    return "revisit:operand-bytes-changed"


HISTORY_SYMPTOM = ("history-dependent: a fresh Emulator on the same memory and registers goes where the metadata "
                   "says, the long-lived instance does not")


def exec_history(case: Dict[str, Any]) -> Dict[str, Any]:
    core = case.get("core", "py")
    visits = plan(case)
    recs = _run_py(case, visits) if core == "py" else _run_rs(case, visits)
    res = _verdict(case, core, visits, recs)
    if core == "py":
        # Attribution only (never decides *whether* something is a violation): a violation at an address that was
        # executed/inspected before is re-examined in a second run of the same history in which the Emulator object is
        # replaced before every instruction.  If the fresh instance obeys the statement the cause is state the
        # instance kept from the address's past, and all such violations share one coarse fingerprint per
        # (subcheck, revisit class) instead of one per mnemonic/operand/address class (the fine-grained fingerprint is kept in the detail).
        out: List[Violation] = []
        ctl_marks: Optional[set] = None
        for (k0, k, revisited, coarse), v in zip(res["marks"], res["viol"]):
            if revisited:
                if ctl_marks is None:
                    ctl_marks = {m[1] for m in _verdict(case, core, visits, _run_py(case, visits, fresh=True))["marks"]}
                if k not in ctl_marks:
                    v = Violation(v.subcheck, coarse, HISTORY_SYMPTOM, case, v.detail + " [" + v.where + ": " + v.symptom + "]")
            out.append(v)
        res["viol"] = out
    return res


def _verdict(case: Dict[str, Any], core: str, visits: List[Dict[str, Any]], recs: List[Dict[str, Any]]) -> Dict[str, Any]:
    from . import c05 as C

    tag = CORE_TAG[core]
    res: Dict[str, Any] = {"viol": [], "marks": [], "episodes": [], "steps": len(visits), "labels": []}
    last: Dict[int, bytes] = {}
    dead_ep = -1  # episode whose planned path was left: its remaining visits are not judged
    call_ctx: Optional[Dict[str, Any]] = None
    for k, (v, r) in enumerate(zip(visits, recs)):
        ei = v["ep"]
        ep = case["episodes"][ei]
        role = v["role"]
        at = int(v["at"]) & M20
        if call_ctx is not None and call_ctx["ep"] != ei:
            call_ctx = None
        if ei == dead_ep:
            continue
        if r["pc0"] != at:
            # the previous instruction of this episode did not arrive here: already judged there
            res["labels"].append(f"hist:astray-before-{role}")
            dead_ep = ei
            continue
        data = bytes.fromhex(r["bytes"])
        dec = C._decode_facts(data, at)
        if dec is None:
            res["labels"].append("hist:undecodable")
            dead_ep = ei
            continue
        length, branches, toks = dec
        mn = TP.mnemonic(toks)
        now = data[:length]
        rv = revisit_class(last.get(at), now)
        last[at] = now
        if r.get("inspect"):
            res["labels"].append("hist:inspect-only")
            continue
        cls = addr_class(at, length)
        if cls == "straddle" and now[0] in G.PRE_OPCODES and ((at + 1) & 0xFFFF) == 0:
            cls = "straddle-after-pre"  # the PRE byte is the last byte of a page, the opcode the first of the next
        info: Dict[str, Any] = {"role": role, "rv": rv, "cls": cls, "mn": mn, "len": length, "via": ep.get("via"),
                                "head": now[:2].hex() if now[0] in G.PRE_OPCODES else now[:1].hex(),
                                "cz": r["f0"] & 3, "branches": [t for t, _ in branches], "code": now.hex()}
        if "err" in r:
            info["err"] = r["err"]
            res["labels"].append("python-exception" if core == "py" else "rs-error")
            if role == "slot":
                res["episodes"].append(info)
            dead_ep = ei
            continue
        shape = C.where_of(toks)
        where = f"{tag}{shape} @{cls} [history]"  # the revisit class is in the detail (and in the coarse fingerprint)
        imem_operand = data[length - 1] if shape.endswith(" (n)") else None
        found = C.judge(branches, length, at, mn, r["f0"], r["pc1"], imem_operand)
        for sub, sym, detail in found:
            res["marks"].append((k, k, rv != "first-visit", f"{tag}any instruction [{rv}]"))
            res["viol"].append(Violation(sub, where, sym, case,
                                         f"[{core}] episode {ei} ({role}, code {'written by the host' if ep.get('via') == 'host' else 'patched by the program'}): "
                                         f"{now.hex()} {TP.text(toks)} ({rv}): {detail}"))
        info["moved"] = r["pc1"] != ((at + length) & M20)
        if found:
            dead_ep = ei
        if role == "slot":
            res["episodes"].append(info)
            ret = ep.get("ret")
            if ret and not found and mn in ("CALL", "CALLF"):
                call_ctx = {"ep": ei, "a": at, "ln": length, "s0": r["s0"], "f0": r["f0"], "pre": now[0] in G.PRE_OPCODES,
                            "flavor": mn, "rv": rv, "k": k}
        elif role == "ret" and call_ctx is not None and call_ctx["ep"] == ei and not found:
            cc = call_ctx
            call_ctx = None
            exp = (cc["a"] + cc["ln"]) & M20
            site = "same-page" if (cc["a"] >> 16) == (exp >> 16) else "next-page"
            retc = "inside" if ((at & M20) >> 16) == (((at + length) & M20) >> 16) else "page-cross"
            w = (f"{tag}{cc['flavor']}..{mn}" + (" pre-call" if cc["pre"] else "") + (" pre-ret" if length > 1 else "")
                 + f" site:{site} ret:{retc} [history]")
            detail = (f"[{core}] episode {ei}: {cc['flavor']} at {cc['a']:#x} (len {cc['ln']}, {cc['rv']}), {now.hex()} {mn} at "
                      f"{at:#x} ({rv}): resumed at {r['pc1']:#x} (expected {exp:#x}); S {cc['s0']:#x}->{r['s1']:#x}; "
                      f"F {cc['f0']:#04x}->{r['f1']:#04x}")
            res["labels"].append("hist:pair")
            expected_ret = P.RET_OF[cc["flavor"]][0]
            pv: Optional[Violation] = None
            if mn != expected_ret:
                res["labels"].append("hist:pair-unmatched-return")  # clobbered return slot: no pair to judge
            elif r["pc1"] != exp:
                pv = Violation("pair:resume", w, "resume address: " + diffclass(exp, r["pc1"]), case, detail)
            elif r["s1"] != cc["s0"]:
                d = s20(r["s1"] - cc["s0"])
                pv = Violation("pair:S", w, f"S after return = S before call{d:+d}" if abs(d) <= 8
                               else "S not restored (unrelated)", case, detail)
            elif r["f1"] != cc["f0"]:
                bits = [n for n, mk in (("C", 1), ("Z", 2), ("high", 0xFC)) if (cc["f0"] ^ r["f1"]) & mk]
                pv = Violation("pair:F", w, "F not restored: " + "+".join(bits), case, detail)
            if pv is not None:
                revisited = cc["rv"] != "first-visit" or rv != "first-visit"
                res["marks"].append((cc["k"], k, revisited, f"{tag}call..return [call or return address revisited]"))
                res["viol"].append(pv)
    return res


# ------------------------------------------------------------------------------------------------
# shrinking: drop episodes while the same fingerprint persists
# ------------------------------------------------------------------------------------------------

def _same(case: Dict[str, Any], key: str) -> Optional[Violation]:
    try:
        for v in exec_history(case)["viol"]:
            if v.key() == key:
                return v
    except HarnessError:
        return None
    return None


def shrink(v: Violation) -> Violation:
    key = v.key()
    cur = copy.deepcopy(v.case)
    best = v
    budget = 60
    i = len(cur["episodes"]) - 1
    while i >= 0 and budget > 0 and len(cur["episodes"]) > 1:
        budget -= 1
        trial = {**cur, "episodes": cur["episodes"][:i] + cur["episodes"][i + 1:]}
        nv = _same(trial, key)
        if nv is not None:
            cur, best = copy.deepcopy(trial), nv
        i -= 1
    for i in range(len(cur["episodes"])):
        if budget <= 0:
            break
        if cur["episodes"][i].get("via") == "store":
            budget -= 1
            trial = copy.deepcopy(cur)
            trial["episodes"][i]["via"] = "host"
            nv = _same(trial, key)
            if nv is not None:
                cur, best = trial, nv
    return best


def history_key(case: Dict[str, Any]) -> str:
    return jhash([[e["slot"], e["code"], e.get("via")] for e in case["episodes"]], 10)
