"""C16 -- saving and restoring a snapshot does not change the future.

Per model (Python PCE500Emulator, Rust CoreRuntime): run A uninterrupted; run A' identical but saving a
snapshot before every step index k in 0..N; for every k a fresh machine of the same configuration loads
snapshot k and continues K steps with the same remaining host events.  After the load and after every
continuation step the observable state (registers, IMEM, RAM/card windows, LCD, keyboard queue, power state,
cycle/instruction counters, interrupt delivery counters) must equal run A's.  Cross-model: register blob
layout byte-identical; a bundle written by one model loads in the other and yields the saved registers,
IMEM, RAM windows, counters, timer schedule, keyboard keys and LCD.
"""

from __future__ import annotations

import copy
import os
import re
from typing import Any, Dict, List, Optional, Sequence, Tuple

from ..core import ROOT, Ctx, HarnessError, Report, Violation, jhash, mix32
from .. import c16_scen as S
from .. import rsclient

PROPERTY = "C16"
LEVEL = "fault_enumeration"  # every step index of a generated run is enumerated as the snapshot point
RULE = ("scenario = generated ROM (prologue, main loop, interrupt handler, subroutine from decoder-verified "
        "templates: IMR/ISR/KOL/KOH/USR/LCC writes, KIL/ISR/SSR reads logged to RAM, LCD instruction/data/status "
        "accesses, memory-card, RAM and RAM-expansion stores, reads of the first/last bytes of every memory "
        "region (ROM end 0xFFFFF!), HALT/OFF, short and long WAIT, CALL/RET, stack ops) x memory configuration "
        "(card image, RAM expansion position/size, device map) x timer periods x host events (key "
        "press/release, ON key; profiles incl. nested interrupts = handler re-enables IRM + ON-key double taps, "
        "and key flood = keys held over long idle periods with nobody reading KIL); for each model every step "
        "index k in 0..N is a snapshot point, continued K steps. Non-trivial = at the snapshot point the "
        "machine is halted/off, inside a handler, has a handler frame left after a nested return, a pending "
        "request, a key held, a non-empty/full key FIFO, a timer within 2 cycles of firing or overdue, LCD "
        "drawn or card written, AND the continuation contains a delivery, a power-state change or a logged "
        "read; distinct = (model, scenario, k). Snapshot GENERATIONS are a generated dimension: generation 1 = "
        "every k (above); per scenario and model additionally a few chains k1<=k2(<=k3): a fresh machine loads "
        "bundle k1, runs on (gap 0 .. most of the run) and is saved again at k2, a fresh machine loads that "
        "second-generation bundle (and so on for k3); the first bundle is written by the model itself or by the "
        "other implementation; reference = the machine that was saved, running on; distinct = (model, scenario, "
        "origin, chain prefix). Round 5, what the program DOES is a generated dimension: profile call-flow "
        "builds a call graph (DAG, depth <= 4) of routines spread over the four 64 KiB ROM pages, entered by "
        "near CALL or CALLF, bodies = work items + calls of further routines + JPF continuations into another "
        "page, ending in the matching RET/RETF directly or through a shared tail in any page; every near-CALL "
        "return offset has a JPF pad in the other pages so the program is defined whichever page RET resumes "
        "in; called from the main loop and from the interrupt handler; every step index inside the graph is a "
        "snapshot point (labels pt:in-call-graph, pt:flow:<chunk kind>, pt:nested-call, pt:pc-in-other-page).")

MODELS = ("py", "rs")

_IMEM_NAMED = {0xFB: "IMR", 0xFC: "ISR", 0xF0: "KOL", 0xF1: "KOH", 0xF2: "KIL", 0xF8: "USR", 0xFF: "SSR",
               0xFE: "LCC", 0xF7: "UCR", 0xFD: "SCR", 0xF9: "RXD", 0xFA: "TXD"}


# ---------------------------------------------------------------------------------------------------------
# observation diffing
# ---------------------------------------------------------------------------------------------------------

def diff_obs(a: Dict[str, Any], b: Dict[str, Any]) -> Tuple[List[str], List[str]]:
    """(semantic field names that differ, human detail)."""
    names: List[str] = []
    det: List[str] = []
    if a.get("err") != b.get("err"):
        names.append("step-error")
        det.append(f"err orig={a.get('err')!r} restored={b.get('err')!r}")
    if a["power"] != b["power"]:
        names.append("power")
        det.append(f"power orig={a['power']} restored={b['power']}")
    for f in ("cycles", "instr"):
        if a[f] != b[f]:
            names.append(f)
            det.append(f"{f} orig={a[f]} restored={b[f]}")
    for r, va in a["regs"].items():
        vb = b["regs"].get(r)
        if va != vb:
            names.append(f"regs.{r}")
            det.append(f"{r} orig={va:#x} restored={vb:#x}")
    if a["imem"] != b["imem"]:
        ia, ib = bytes.fromhex(a["imem"]), bytes.fromhex(b["imem"])
        for off in range(min(len(ia), len(ib))):
            if ia[off] != ib[off]:
                nm = "imem." + _IMEM_NAMED.get(off, "ram")
                if nm not in names:
                    names.append(nm)
                det.append(f"imem[{off:02X}] orig={ia[off]:02X} restored={ib[off]:02X}")
    for w, va in a["win"].items():
        vb = b["win"].get(w)
        if va != vb:
            names.append(f"mem.{w}")
            det.append(f"mem.{w} orig={va} restored={vb}")
    if a.get("memmap") != b.get("memmap"):
        names.append("mem.readonly-map")
        det.append(f"write-protected address set orig={a.get('memmap')} restored={b.get('memmap')}")
    la, lb = a.get("lcd") or {}, b.get("lcd") or {}
    if la.get("chips") != lb.get("chips"):
        names.append("lcd.state")
        det.append(f"lcd chips orig={la.get('chips')} restored={lb.get('chips')}")
    if la.get("vram") != lb.get("vram"):
        names.append("lcd.vram")
        det.append("lcd vram differs")
    ka, kb = a.get("kb") or {}, b.get("kb") or {}
    if ka.get("fifo") != kb.get("fifo"):
        names.append("kb.fifo")
        det.append(f"key fifo orig={ka.get('fifo')} restored={kb.get('fifo')}")
    if ka.get("pressed") != kb.get("pressed"):
        names.append("kb.pressed")
        det.append(f"keys held orig={ka.get('pressed')} restored={kb.get('pressed')}")
    if a.get("irq") != b.get("irq"):
        names.append("irq.stats")
        det.append(f"irq stats orig={a.get('irq')} restored={b.get('irq')}")
    return names, det


_CATEGORY_ORDER = ("step-error", "power", "cycles", "instr", "regs", "imem", "mem", "lcd", "kb", "irq")


def category(names: Sequence[str]) -> str:
    heads = {n.split(".")[0] for n in names}
    for c in _CATEGORY_ORDER:
        if c in heads:
            return {"cycles": "counters", "instr": "counters"}.get(c, c)
    return "other"


def instr_class(scen: Dict[str, Any], pc: int) -> str:
    """Semantic class of the template at pc (from the scenario listing), e.g. 'MV A,[lcd-status-read]'."""
    for line in scen.get("listing", []):
        if line.startswith(f"{pc:05X}:"):
            text = line.split(None, 2)[2] if len(line.split(None, 2)) > 2 else ""
            text = re.sub(r"\s+", " ", text.strip())

            def addr_class(m: "re.Match[str]") -> str:
                a = int(m.group(1), 16)
                if (a & 0xF000) in (0x2000, 0xA000) and a < 0x10000:
                    lo = a & 0xF
                    return "[lcd-" + ("data" if lo & 2 else "status" if lo & 1 else "instr") + \
                        ("-read" if lo & 1 else "-write") + "]"
                if 0x40000 <= a <= 0x4FFFF:
                    return "[card]"
                if a >= 0xC0000:
                    return "[rom]"
                return "[ram]"

            text = re.sub(r"\[([0-9A-F]{5})\]", addr_class, text)
            text = re.sub(r"\b[0-9A-F]{2,4}\b(?![\]\)])", "n", text)
            text = re.sub(r"\((1[0-3])\)", "(scratch)", text)
            return text
    return "unlisted"


# Executor bookkeeping kept per call frame (Rust: page recorded by a near CALL, tracked return width).  It is
# not in the bundle, so it differs after *every* load taken inside a subroutine, with or without consequences;
# it is therefore never part of `where` (the fingerprints of the known findings would otherwise depend on
# whether the snapshot point happens to lie in a subroutine) but is shown in the detail text and counted as a
# label.  A return instruction that resumes elsewhere is named by the symptom instead.
HIDDEN_PROBES = ("call_frames",)


def diff_diag(a: Dict[str, Any], b: Dict[str, Any]) -> List[str]:
    return sorted(k for k in a if a.get(k) != b.get(k) and k not in HIDDEN_PROBES)


def diff_hidden(a: Dict[str, Any], b: Dict[str, Any]) -> List[str]:
    return [f"{k} orig={a.get(k)} restored={b.get(k)}" for k in HIDDEN_PROBES if k in a and a.get(k) != b.get(k)]


# ---------------------------------------------------------------------------------------------------------
# model drivers (uniform result shape)
# ---------------------------------------------------------------------------------------------------------

def _scratch_dir() -> str:
    d = os.path.join(ROOT, "scratch", f"c16-{os.getpid()}")
    os.makedirs(d, exist_ok=True)
    return d


def _cleanup(prefix: str) -> None:
    d = os.path.dirname(prefix)
    base = os.path.basename(prefix)
    try:
        for name in os.listdir(d):
            if name.startswith(base):
                try:
                    os.remove(os.path.join(d, name))
                except OSError:
                    pass
    except OSError:
        pass


def _remove_scratch_dir() -> None:
    d = os.path.join(ROOT, "scratch", f"c16-{os.getpid()}")
    try:
        if os.path.isdir(d) and not os.listdir(d):
            os.rmdir(d)
    except OSError:
        pass


def run_model_py(scen: Dict[str, Any], points: List[int], prefix: str, cont: int) -> Dict[str, Any]:
    from .. import c16_py

    total = max(points) + cont
    A = c16_py.PyMachine(scen)
    o0 = A.observe()
    ra = A.run(scen["events"], 0, total)
    A.close()
    A2 = c16_py.PyMachine(scen)
    o20 = A2.observe()
    if points == list(range(0, max(points) + 1)):
        ra2 = A2.run(scen["events"], 0, total, save_prefix=prefix, save_upto=max(points), want_diag=True)
        diags = {k: ra2["diags"][k] for k in points}
    else:  # replay of selected points: save only there
        ra2 = {"obs": [], "diags": [], "save_errs": []}
        diags = {}
        j = 0
        for k in sorted(points):
            r = A2.run(scen["events"], j, k)
            ra2["obs"] += r["obs"]
            e = A2.save(f"{prefix}{k}.pcsnap")
            if e:
                ra2["save_errs"].append([k, e])
            diags[k] = A2.diag()
            j = k
        ra2["obs"] += A2.run(scen["events"], j, total)["obs"]
    A2.close()
    B: Dict[int, Dict[str, Any]] = {}
    for k in points:
        m = c16_py.PyMachine(scen)
        le = m.load(f"{prefix}{k}.pcsnap")
        b0 = m.observe()
        bd = m.diag()
        rb = m.run(scen["events"], k, k + cont) if le is None else {"obs": []}
        m.close()
        B[k] = {"load_err": le, "obs0": b0, "diag": bd, "obs": rb["obs"]}
    return {"A": [o0] + ra["obs"], "A2": [o20] + ra2["obs"], "diags": diags, "save_errs": ra2["save_errs"], "B": B}


def run_model_rs(scen: Dict[str, Any], points: List[int], prefix: str, cont: int) -> Dict[str, Any]:
    from .. import c16_rs

    total = max(points) + cont
    ra = c16_rs.run_original(scen, total)
    if points == list(range(0, max(points) + 1)):
        ra2 = c16_rs.run_with_saves(scen, total, prefix, max(points))
        diags = {k: ra2["diags"][k] for k in points}
        a2obs = ra2["obs"]
        save_errs = ra2["save_errs"]
    else:
        batch: List[Dict[str, Any]] = [{"op": "new", "id": "A2", "rom": scen["rom"], "cfg": scen["cfg"]},
                                       {"op": "obs", "id": "A2"}]
        j = 0
        for k in sorted(points):
            batch += [{"op": "run", "id": "A2", "from": j, "to": k, "events": scen["events"]},
                      {"op": "save", "id": "A2", "path": f"{prefix}{k}.pcsnap"}, {"op": "diag", "id": "A2"}]
            j = k
        batch += [{"op": "run", "id": "A2", "from": j, "to": total, "events": scen["events"]},
                  {"op": "drop", "id": "A2"}]
        r = c16_rs.ops(batch)
        a2obs = [r[1]["obs"]]
        diags = {}
        save_errs = []
        idx = 2
        for k in sorted(points):
            a2obs += r[idx]["obs"]
            if r[idx + 1].get("err"):
                save_errs.append([k, r[idx + 1]["err"]])
            diags[k] = r[idx + 2]["diag"]
            idx += 3
        a2obs += r[idx]["obs"]
    B = c16_rs.run_restored(scen, points, prefix, cont)
    for k in points:
        if B[k]["load_err"] is not None:
            B[k]["obs"] = []
    return {"A": ra["obs"], "A2": a2obs, "diags": diags, "save_errs": save_errs, "B": B}


# ---------------------------------------------------------------------------------------------------------
# verdicts
# ---------------------------------------------------------------------------------------------------------

def _sanitize(msg: str) -> str:
    return re.sub(r"[0-9]+", "N", re.sub(r"0x[0-9a-fA-F]+", "H", msg))[:70]


def point_labels(model: str, obs: Dict[str, Any], diag: Dict[str, Any], obs_init: Dict[str, Any],
                 scen: Optional[Dict[str, Any]] = None) -> List[str]:
    labs: List[str] = []
    if scen is not None and scen.get("flow"):
        # control-flow skeleton: where in the generated call graph the snapshot point lies
        fk = S.flow_kind(scen, int(obs["regs"]["PC"]))
        if fk is not None:
            labs.append("pt:in-call-graph")
            labs.append("pt:flow:" + fk)
            try:
                frames = diag.get("interrupt_stack")
                depth = int(diag.get("call_depth")) - (len(frames) if isinstance(frames, list) else 0)
                if depth >= 2:
                    labs.append("pt:nested-call")
            except Exception:
                pass
            if (int(obs["regs"]["PC"]) & 0xF0000) != (S.MAIN & 0xF0000):
                labs.append("pt:pc-in-other-page")
    if obs["power"] != "running":
        labs.append("pt:" + obs["power"])
    if diag.get("in_interrupt"):
        labs.append("pt:in-handler")
    if diag.get("irq_pending"):
        labs.append("pt:irq-pending")
    if (obs.get("kb") or {}).get("pressed"):
        labs.append("pt:key-held")
    if (obs.get("kb") or {}).get("fifo"):
        labs.append("pt:fifo-nonempty")
        # ring of 8 slots: the Rust queue holds 8 events (separate count), the Python one 7 (head == tail is empty)
        if len(obs["kb"]["fifo"]) >= (7 if model == "py" else 8):
            labs.append("pt:fifo-full")
    frames = diag.get("interrupt_stack")
    if isinstance(frames, list):
        if len(frames) >= 2:
            labs.append("pt:nested-irq")
        if frames and not diag.get("in_interrupt"):
            labs.append("pt:frame-after-inner-reti")
    if diag.get("key_irq_latched"):
        labs.append("pt:key-latched")
    try:
        if diag.get("timer_enabled"):
            for nm in ("next_mti", "next_sti"):
                d = int(diag[nm]) - int(obs["cycles"])
                if d <= 2:
                    labs.append("pt:timer-near")
                    break
            if any(int(diag[nm]) < int(obs["cycles"]) for nm in ("next_mti", "next_sti")):
                labs.append("pt:timer-overdue")
    except Exception:
        pass
    if (obs.get("lcd") or {}).get("vram") != (obs_init.get("lcd") or {}).get("vram") or \
            (obs.get("lcd") or {}).get("chips") != (obs_init.get("lcd") or {}).get("chips"):
        labs.append("pt:lcd-drawn")
    if obs["win"].get("card") != obs_init["win"].get("card"):
        labs.append("pt:card-written")
    isr = bytes.fromhex(obs["imem"])[0xFC]
    imr = bytes.fromhex(obs["imem"])[0xFB]
    if isr and not (imr & 0x80 and imr & isr):
        labs.append("pt:request-masked")
    return labs


def continuation_depends(A: List[Dict[str, Any]], k: int, cont: int) -> bool:
    a0 = A[k]
    for o in A[k + 1:k + cont + 1]:
        if o["irq"]["total"] != a0["irq"]["total"] or o["power"] != a0["power"] or \
                o["win"].get("log") != a0["win"].get("log"):
            return True
    return False


def judge_restored(model: str, scen: Dict[str, Any], R: List[Dict[str, Any]], dg: Dict[str, Any],
                   b: Dict[str, Any], case: Dict[str, Any], what: str) -> Tuple[Optional[Violation], List[str]]:
    """Verdict for one restored machine.  R[0] = observation of the machine that was saved, at the snapshot
    point; R[1 + i] = its observation after continuation step i (it just keeps running); dg = its diagnostic
    probes at the snapshot point; b = the fresh machine that loaded the bundle (obs0/diag right after the load,
    obs per continuation step).  Returns (violation or None, names of the diagnostic probes that differ)."""
    sub = f"{model}:continuation"
    ddiff = diff_diag(dg, b["diag"]) if dg else []
    hidden = diff_hidden(dg, b["diag"]) if dg else []
    names0, det0 = diff_obs(R[0], b["obs0"])
    # bus probes (region boundaries + strided sample of the whole external space) are memory as a program
    # would read it: an observation, not a diagnostic
    for key in [d for d in ddiff if d.startswith("bus:")]:
        ddiff.remove(key)
        names0.append("mem." + key)
        det0.append(f"bus reads {key[4:]} orig={dg.get(key)} restored={b['diag'].get(key)} (hash of bytes)")
    if names0:
        where = "unrestored: " + "+".join(sorted(set(ddiff) | set(names0)))
        return Violation(sub, where, "diverges at load", case,
                         f"{what}; right after load: " + "; ".join(det0[:8]) +
                         (f"; internal state differing: {ddiff}" if ddiff else "")), ddiff
    for i, ob in enumerate(b["obs"]):
        if 1 + i >= len(R):
            break
        names, det = diff_obs(R[1 + i], ob)
        if names:
            where = "unrestored: " + ("+".join(ddiff) if ddiff else "none-observed")
            cat = category(names)
            if cat in ("regs", "mem"):
                # instruction executed in the diverging step: the Python model delivers a pending
                # interrupt at the start of a step and then executes the handler's first instruction
                pc_exec = R[i]["regs"]["PC"]
                if model == "py" and R[1 + i]["irq"]["total"] != R[i]["irq"]["total"]:
                    pc_exec = R[1 + i]["irq"]["last"][2] or pc_exec
                ic = instr_class(scen, pc_exec)
                if cat == "regs":
                    # only a device/memory read localises a data divergence; everything else is a
                    # control-flow or asynchronous effect and gets one generic bucket
                    if "regs.PC" in names or "regs.S" in names:
                        cat = "regs (control flow)"
                        # a return/call/far jump that itself resumes elsewhere (no delivery involved)
                        if "irq.stats" not in names and ic.split(" ")[0] in ("RET", "RETF", "CALL", "CALLF", "JPF"):
                            cat += " after " + ic.split(" ")[0]
                    elif ic.startswith("MV A, (") or ic.startswith("MV A, ["):
                        cat = "regs after " + ic
                    else:
                        cat = "regs (data)"
                else:
                    cat = "mem after " + ic if ic.startswith("MV [") else "mem"
            elif cat == "imem":
                cat = "+".join(sorted(n for n in names if n.startswith("imem.")))
            return Violation(sub, where, f"diverges later: {cat}", case,
                             f"{what}; first divergence after continuation step "
                             f"{i + 1} in {sorted(names)}: " + "; ".join(det[:8]) +
                             f"; internal state differing right after load: {ddiff}" +
                             (f"; call-frame bookkeeping differing right after load: {hidden}" if hidden else "")), ddiff
    return None, ddiff


def judge_model(model: str, scen: Dict[str, Any], points: List[int], cont: int, res: Dict[str, Any],
                rep: Report, base_case: Dict[str, Any]) -> None:
    A = res["A"]

    def case_for(k: Optional[int]) -> Dict[str, Any]:
        c = dict(base_case)
        c["model"] = model
        if k is not None:
            c["points"] = [k]
        return c

    # saving must not disturb the machine that is being saved
    for j, (a, a2) in enumerate(zip(A, res["A2"])):
        names, det = diff_obs(a, a2)
        if names:
            rep.violate(Violation(f"{model}:save-perturbs-original", "fields: " + "+".join(sorted(names)),
                                  "run with save_snapshot calls differs from run without", case_for(None),
                                  f"first difference after step {j}: " + "; ".join(det[:6])))
            break
    for k, e in res["save_errs"]:
        rep.violate(Violation(f"{model}:save-error", "save_snapshot", _sanitize(str(e)), case_for(k), str(e)))

    for k in points:
        b = res["B"][k]
        dg = res["diags"].get(k, {})
        labs = point_labels(model, A[k], dg, A[0], scen)
        nt = bool(labs) and continuation_depends(A, k, cont)
        labels = [f"model:{model}", f"profile:{scen.get('profile')}"] + labs
        if not labs:
            labels.append("pt:plain-running")
        if b["load_err"] is not None:
            rep.violate(Violation(f"{model}:load-error", "load_snapshot of own bundle", _sanitize(b["load_err"]),
                                  case_for(k), b["load_err"]))
            rep.case(f"{model}:{scen.get('index')}:{k}" if nt else None, labels + ["load-error"])
            continue
        verdict, ddiff = judge_restored(model, scen, A[k:k + cont + 1], dg, b, case_for(k),
                                        f"snapshot before step {k}")
        if verdict is not None:
            rep.violate(verdict)
            labels.append("diverged")
        elif ddiff:
            labels.append("latent-internal-diff")
        if dg and diff_hidden(dg, b["diag"]):
            labels.append("call-frame-bookkeeping-not-restored")
        sample = None
        if rep.evaluations % 997 == 5:
            sample = {"model": model, "scenario": scen.get("index"), "profile": scen.get("profile"), "k": k,
                      "point": labs, "pc": A[k]["regs"]["PC"], "cycles": A[k]["cycles"],
                      "diverged": verdict is not None}
        rep.case(f"{model}:{scen.get('index')}:{k}" if nt else None, labels, sample)


# ---------------------------------------------------------------------------------------------------------
# snapshot generations: a machine that was itself restored from a snapshot is saved again
# ---------------------------------------------------------------------------------------------------------

def ensure_root(scen: Dict[str, Any], author: str, k: int, path: str) -> Optional[str]:
    """First-generation bundle taken before step k by a fresh `author` machine (unless the exploration already
    left it at `path`).  Returns a save error text or None."""
    if os.path.exists(path):
        return None
    if author == "py":
        from .. import c16_py

        m = c16_py.PyMachine(scen)
        m.run(scen["events"], 0, k)
        e = m.save(path)
        m.close()
        return e
    from .. import c16_rs

    return c16_rs.save_at(scen, k, path)["save_err"]


def _lcd_of(o: Optional[Dict[str, Any]]) -> Any:
    return (o or {}).get("lcd")


def check_chains(model: str, scen: Dict[str, Any], chains: List[Dict[str, Any]], cont: int, prefix: str,
                 rep: Report, base_case: Dict[str, Any], obs_init: Optional[Dict[str, Any]],
                 roots: Dict[Tuple[str, int], str]) -> None:
    """Generations >= 2.  For every chain: G1 (fresh) loads the first bundle; G1 runs on, is saved again and keeps
    running (reference); a fresh G2 loads the second-generation bundle and must be indistinguishable from G1 from
    the save on -- same verdict code as generation 1, the machine that was saved is the reference.  Likewise
    G3 against G2.  `roots` maps (author model, k) to a bundle file left by the exploration."""
    from .. import c16_py, c16_rs

    other = "rs" if model == "py" else "py"
    for ci, chain in enumerate(chains):
        pts = [int(x) for x in chain["pts"]]
        origin = chain.get("origin", "own")
        author = model if origin == "own" else other
        root = roots.get((author, pts[0])) or f"{prefix}{model}-root{ci}-{author}-{pts[0]}.pcsnap"
        cprefix = f"{prefix}{model}-chain{ci}-"
        base_labels = [f"model:{model}", f"profile:{scen.get('profile')}", f"chain:origin-{origin}"]
        try:
            if ensure_root(scen, author, pts[0], root) is not None:
                rep.case(None, base_labels + ["chain:root-not-saved"])  # generation-1 save errors: main run
                continue
            runner = c16_py.run_chain if model == "py" else c16_rs.run_chain
            res = runner(scen, pts, root, cprefix, cont)
        finally:
            _cleanup(cprefix)
        if res["root_load_err"] is not None:
            # own bundle: reported by the generation-1 enumeration; foreign bundle: by the cross-load check
            rep.case(None, base_labels + ["chain:root-load-error"])
            continue
        if obs_init is None:
            if model == "py":
                m0 = c16_py.PyMachine(scen)
                obs_init = m0.observe()
                m0.close()
            else:
                obs_init = c16_rs.ops([c16_rs._new("I", scen), {"op": "obs", "id": "I"},
                                       {"op": "drop", "id": "I"}])[1]["obs"]
        prev_lcd = _lcd_of(res["root_obs"])
        for link in res["links"]:
            g, k = int(link["gen"]), int(link["k"])
            sub_pts = pts[:g]
            case = dict(base_case)
            case.update({"kind": "chain", "model": model, "chains": [{"pts": sub_pts, "origin": origin}]})
            what = (f"generation-{g} snapshot: machine restored from the bundle(s) taken before step(s) "
                    f"{sub_pts[:-1]} ({'own' if origin == 'own' else 'first one written by ' + other}), "
                    f"saved again before step {k}")
            labels = base_labels + [f"chain:gen{g}"]
            if sub_pts[-1] == sub_pts[-2]:
                labels.append("chain:gap0")
            if link["save_err"] is not None:
                rep.violate(Violation(f"{model}:save-error", "save_snapshot", _sanitize(str(link["save_err"])),
                                      case, what + ": " + str(link["save_err"])))
                rep.case(None, labels + ["save-error"])
                break
            R = link["R"]
            labs = point_labels(model, R[0], link["ref_diag"], obs_init, scen)
            if _lcd_of(R[0]) != prev_lcd:
                labels.append("chain:lcd-changed-since-load")
            prev_lcd = _lcd_of(R[0])
            nt = bool(labs) and continuation_depends(R, 0, cont)
            key = f"{model}:{scen.get('index')}:chain:{origin}:" + "-".join(str(x) for x in sub_pts)
            labels += labs or ["pt:plain-running"]
            if link["load_err"] is not None:
                rep.violate(Violation(f"{model}:load-error", "load_snapshot of own bundle",
                                      _sanitize(link["load_err"]), case, what + ": " + link["load_err"]))
                rep.case(key if nt else None, labels + ["load-error"])
                break
            verdict, ddiff = judge_restored(model, scen, R, link["ref_diag"], link, case, what)
            if verdict is not None:
                rep.violate(verdict)
                labels.append("diverged")
            elif ddiff:
                labels.append("latent-internal-diff")
            if link.get("ref_diag") and diff_hidden(link["ref_diag"], link.get("diag") or {}):
                labels.append("call-frame-bookkeeping-not-restored")
            sample = None
            if rep.evaluations % 499 == 7:
                sample = {"model": model, "scenario": scen.get("index"), "profile": scen.get("profile"),
                          "chain": sub_pts, "origin": origin, "point": labs, "diverged": verdict is not None}
            rep.case(key if nt else None, labels, sample)


# ---------------------------------------------------------------------------------------------------------
# cross-model checks
# ---------------------------------------------------------------------------------------------------------

_PY2RS_REG = {"pc": "PC", "ba": "BA", "i": "I", "x": "X", "y": "Y", "u": "U", "s": "S", "f": "F"}


def check_register_blob(seed: int, count: int, rep: Report) -> None:
    from pce500.emulator import _pack_register_bytes, _unpack_register_bytes
    from sc62015.pysc62015.stepper import CPURegistersSnapshot
    from .. import c16_rs
    from ..gen_state import Stream

    st = Stream(seed, 0xB10B)
    widths = {"pc": 20, "ba": 16, "i": 16, "x": 20, "y": 20, "u": 20, "s": 20, "f": 8}
    for n in range(count):
        vals = {}
        for r, w in widths.items():
            v = st.choice((0, 1, (1 << w) - 1, 1 << (w - 1), st.u32() & ((1 << w) - 1), st.u32() & ((1 << w) - 1)))
            vals[r] = v
        case = {"kind": "register-blob", "regs": vals}
        vs = judge_register_blob(vals, case)
        for v in vs:
            rep.violate(v)
        rep.case(f"blob:{jhash(vals)}" if any(vals.values()) else None, ["cross:register-blob"],
                 {"kind": "register-blob", "regs": vals} if n == 0 else None)


def judge_register_blob(vals: Dict[str, int], case: Dict[str, Any]) -> List[Violation]:
    from pce500.emulator import _pack_register_bytes, _unpack_register_bytes
    from sc62015.pysc62015.stepper import CPURegistersSnapshot
    from .. import c16_rs

    out: List[Violation] = []
    py = _pack_register_bytes(CPURegistersSnapshot(**vals)).hex()
    rs = c16_rs.pack({_PY2RS_REG[k]: v for k, v in vals.items()})
    if py != rs:
        # name the first slot that differs
        slot = "length"
        off = 0
        for name, w in (("pc", 3), ("ba", 2), ("i", 2), ("x", 3), ("y", 3), ("u", 3), ("s", 3), ("f", 1)):
            if py[off * 2:(off + w) * 2] != rs[off * 2:(off + w) * 2]:
                slot = name
                break
            off += w
        out.append(Violation("cross:register-blob", f"slot {slot}", "python and rust registers.bin differ", case,
                             f"python={py} rust={rs} for {vals}"))
        return out
    back = c16_rs.unpack(py)
    pyback = _unpack_register_bytes(bytes.fromhex(rs))
    if back.get("err") or any(back["regs"].get(_PY2RS_REG[k]) != v for k, v in vals.items()):
        out.append(Violation("cross:register-blob", "rust unpack of python blob", "values not recovered", case,
                             f"{back} vs {vals}"))
    if any(pyback.get(k) != v for k, v in vals.items()):
        out.append(Violation("cross:register-blob", "python unpack of rust blob", "values not recovered", case,
                             f"{pyback} vs {vals}"))
    return out


def _cross_compare(direction: str, src_obs: Dict[str, Any], src_diag: Dict[str, Any], src_vram: str,
                   dst_obs: Dict[str, Any], dst_diag: Dict[str, Any], dst_vram: str) -> Tuple[List[str], List[str]]:
    names: List[str] = []
    det: List[str] = []
    for r, va in src_obs["regs"].items():
        vb = dst_obs["regs"].get(r)
        if va != vb:
            names.append(f"regs.{r}")
            det.append(f"{r} saved={va:#x} loaded={vb:#x}")
    ia, ib = bytes.fromhex(src_obs["imem"]), bytes.fromhex(dst_obs["imem"])
    for off in range(256):
        if ia[off] != ib[off]:
            nm = "imem." + _IMEM_NAMED.get(off, "ram")
            if nm not in names:
                names.append(nm)
            det.append(f"imem[{off:02X}] saved={ia[off]:02X} loaded={ib[off]:02X}")
    for w, va in src_obs["win"].items():
        if w == "card":
            continue  # card contents live outside the bundle in both models (own-model finding)
        vb = dst_obs["win"].get(w)
        if va != vb:
            names.append(f"mem.{w}")
            det.append(f"mem.{w} saved={va} loaded={vb}")
    for f in ("cycles", "instr"):
        if src_obs[f] != dst_obs[f]:
            names.append(f)
            det.append(f"{f} saved={src_obs[f]} loaded={dst_obs[f]}")
    for f in ("timer_enabled", "mti_period", "sti_period", "next_mti", "next_sti", "in_interrupt"):
        if f in src_diag and f in dst_diag and src_diag[f] != dst_diag[f]:
            names.append(f"meta.{f}")
            det.append(f"{f} saved={src_diag[f]} loaded={dst_diag[f]}")
    if (src_obs.get("kb") or {}).get("pressed") != (dst_obs.get("kb") or {}).get("pressed"):
        names.append("kb.pressed")
        det.append(f"keys held saved={(src_obs.get('kb') or {}).get('pressed')} "
                   f"loaded={(dst_obs.get('kb') or {}).get('pressed')}")
    if (src_obs.get("kb") or {}).get("fifo") != (dst_obs.get("kb") or {}).get("fifo"):
        names.append("kb.fifo")
        det.append(f"key fifo saved={(src_obs.get('kb') or {}).get('fifo')} "
                   f"loaded={(dst_obs.get('kb') or {}).get('fifo')}")
    if (src_obs.get("lcd") or {}).get("chips") != (dst_obs.get("lcd") or {}).get("chips"):
        names.append("lcd.state")
        det.append(f"lcd chips saved={(src_obs.get('lcd') or {}).get('chips')} "
                   f"loaded={(dst_obs.get('lcd') or {}).get('chips')}")
    if src_vram != dst_vram:
        names.append("lcd.vram")
        det.append("lcd vram differs")
    return names, det


def _py_vram_hex(m: Any) -> str:
    snap = m.emu.lcd.get_snapshot()
    return bytes(int(v) & 0xFF for c in snap.chips for row in c.vram for v in row).hex()


def cross_check(scen: Dict[str, Any], k: int, prefix: str, base_case: Dict[str, Any]) -> Tuple[List[Violation], List[str]]:
    """Python bundle -> Rust runtime and Rust bundle -> Python emulator at snapshot point k."""
    from .. import c16_py, c16_rs

    out: List[Violation] = []
    labels: List[str] = []
    case = dict(base_case)
    case["kind"] = "cross"
    case["points"] = [k]
    # ---- python -> rust
    p = c16_py.PyMachine(scen)
    p.run(scen["events"], 0, k)
    path = f"{prefix}x-py-{k}.pcsnap"
    e = p.save(path)
    src_obs, src_diag, src_vram = p.observe(), p.diag(), _py_vram_hex(p)
    p.close()
    if e is None:
        r = c16_rs.cross_load(scen, path)
        if r["load_err"] is not None:
            out.append(Violation("cross:py-to-rs", "rust load_snapshot of python bundle",
                                 "load error: " + _sanitize(r["load_err"]), case, r["load_err"]))
        else:
            names, det = _cross_compare("py-to-rs", src_obs, src_diag, src_vram, r["obs"], r["diag"], r["lcd_vram"])
            if names:
                out.append(Violation("cross:py-to-rs", "not carried over: " + "+".join(sorted(names)),
                                     "state loaded by rust differs from state saved by python", case,
                                     f"snapshot before step {k}: " + "; ".join(det[:10])))
    labels.append("cross:py-to-rs")
    if src_obs["kb"]["pressed"]:
        labels.append("cross:py-to-rs:key-held")
    # ---- rust -> python
    path2 = f"{prefix}x-rs-{k}.pcsnap"
    s = c16_rs.save_at(scen, k, path2)
    if s["save_err"] is None:
        q = c16_py.PyMachine(scen)
        le = q.load(path2)
        if le is not None:
            out.append(Violation("cross:rs-to-py", "python load_snapshot of rust bundle",
                                 "load error: " + _sanitize(le), case, le))
        else:
            names, det = _cross_compare("rs-to-py", s["obs"], s["diag"], s["lcd_vram"], q.observe(), q.diag(),
                                        _py_vram_hex(q))
            if names:
                out.append(Violation("cross:rs-to-py", "not carried over: " + "+".join(sorted(names)),
                                     "state loaded by python differs from state saved by rust", case,
                                     f"snapshot before step {k}: " + "; ".join(det[:10])))
        q.close()
    labels.append("cross:rs-to-py")
    if s["obs"]["kb"]["pressed"]:
        labels.append("cross:rs-to-py:key-held")
    return out, labels


# ---------------------------------------------------------------------------------------------------------
# exploration
# ---------------------------------------------------------------------------------------------------------

def check_case(case: Dict[str, Any], rep: Report) -> None:
    """Run one case dict (scenario + optional model/points/kind selection) through the verdict code."""
    S.selftest()
    kind = case.get("kind", "scenario")
    if kind == "register-blob":
        for v in judge_register_blob(case["regs"], case):
            rep.violate(v)
        rep.case(None, ["cross:register-blob"])
        return
    scen = case
    n, cont = int(scen["n"]), int(scen["k"])
    points = list(case.get("points") or range(0, n + 1))
    base_case = {key: scen[key] for key in ("rom", "cfg", "events", "n", "k", "profile", "index", "listing", "flow")
                 if key in scen}
    prefix = os.path.join(_scratch_dir(), f"s{scen.get('index', 0)}-")
    try:
        if kind == "cross":
            for k in points:
                vs, labels = cross_check(scen, k, prefix, base_case)
                for v in vs:
                    rep.violate(v)
                rep.case(f"cross:{scen.get('index')}:{k}", labels)
            return
        models = [case["model"]] if case.get("model") else list(MODELS)
        chains = list(case.get("chains") or [])
        if kind == "chain":
            for model in models:
                check_chains(model, scen, chains, cont, prefix, rep, base_case, None, {})
            return
        own = [c for c in chains if c.get("origin", "own") == "own"]
        foreign = [c for c in chains if c.get("origin", "own") != "own"]
        inits: Dict[str, Dict[str, Any]] = {}
        for model in models:
            runner = run_model_py if model == "py" else run_model_rs
            res = runner(scen, points, prefix + model + "-", cont)
            judge_model(model, scen, points, cont, res, rep, base_case)
            inits[model] = res["A"][0]
            # generation-1 bundles of this model are still on disk: they are the chains' first generation
            roots = {(model, k): f"{prefix}{model}-{k}.pcsnap" for k in points}
            check_chains(model, scen, own, cont, prefix, rep, base_case, inits[model], roots)
            _cleanup(prefix + model + "-")
        xroots: Dict[Tuple[str, int], str] = {}
        for k in case.get("cross_points") or []:
            vs, labels = cross_check(scen, int(k), prefix, base_case)
            for v in vs:
                rep.violate(v)
            rep.case(f"cross:{scen.get('index')}:{k}", labels)
            xroots[("py", int(k))] = f"{prefix}x-py-{k}.pcsnap"
            xroots[("rs", int(k))] = f"{prefix}x-rs-{k}.pcsnap"
        # chains whose first bundle was written by the other implementation (the cross-load bundles)
        for model in models:
            check_chains(model, scen, foreign, cont, prefix, rep, base_case, inits.get(model), xroots)
    finally:
        _cleanup(prefix)
        _remove_scratch_dir()


def _shard(task: Tuple[int, int, int, str, int, int, int, int]) -> Report:
    shard, nshards, seed, tier, nscen, n, cont, nchains = task
    rep = Report()
    for idx in range(shard, nscen, nshards):
        scen = S.generate(seed, idx, n, cont)
        st_pts = mix32(seed, idx, 0xC055)
        scen["cross_points"] = sorted({st_pts % (n + 1), (st_pts >> 8) % (n + 1), n})
        scen["chains"] = S.gen_chains(seed, idx, n, nchains, scen["cross_points"])
        check_case(scen, rep)
    if shard == 0:
        check_register_blob(seed, 64 if tier == "quick" else 2000, rep)
    return rep


def run(ctx: Ctx) -> Report:
    rsclient.build()
    S.selftest()
    nscen = ctx.pick(85, 221)  # 17 profile slots x 5 / x 13
    n = ctx.pick(40, 64)
    cont = ctx.pick(40, 40)
    nshards = 16 if ctx.quick else 64
    nchains = ctx.pick(6, 8)
    reports = ctx.pmap(_shard, [(i, nshards, ctx.seed, ctx.tier, nscen, n, cont, nchains) for i in range(nshards)])
    rep = ctx.merge_reports(reports)
    rep.rule = RULE
    rep.extra["scenarios"] = nscen
    rep.extra["snapshot_points_per_scenario"] = n + 1
    rep.extra["continuation_steps"] = cont
    rep.extra["generation_chains_per_scenario_and_model"] = nchains
    rep.assumptions = [
        "a fresh machine of 'the same configuration' = same ROM image, same memory-card image, same timer "
        "periods set through the knobs the maintainers' tests use, same initial S/U/X/Y; then load_snapshot",
        "compared per step: PC,BA,I,X,Y,U,S,F; all 256 IMEM bytes; RAM windows the program writes (log, scratch, "
        "stacks) and the memory-card window; LCD chip state + VRAM; key FIFO and held keys; power state; "
        "cycle/instruction counters; interrupt delivery counters and last delivery",
        "not compared: wall-clock fields (created, start_time), memory read/write perf counters, IMR/ISR "
        "bit-watch tables, instruction history, trace state, Rust TEMP registers and mirrors (diagnostic only)",
        "at every snapshot point and right after every load, additionally: bus reads (memory.read_byte / "
        "MemoryImage::load) of 64 bytes on each side of every region boundary (ROM start/end, card window and "
        "card image end, internal RAM start, RAM expansion start/end, 0x80000, 0x00000) and a stride-1021 sample "
        "of the whole 1 MiB space, hashed per region; the LCD controller windows (reads change device state) "
        "are skipped",
        "private attributes are read only to *name* the unrestored state in the fingerprint; a difference in "
        "private state without an observable divergence within K steps is a label, not a violation",
        "RAM expansion: Python PCE500Emulator.expand_ram overlay; the Rust runtime has no such call, the same "
        "range is plain RAM there (equivalent behaviour); expansions stay below 0x80000",
        "Python<->Rust behaviour after a cross-load is not compared (per-model semantics differ); only that the "
        "load succeeds and carries registers, IMEM, RAM windows, counters, timer schedule, in_interrupt, held "
        "keys/FIFO and LCD; interrupts.pending and the card window are not asserted across models",
        "scenario programs use only decoder-verified templates; instruction semantics are C04/C06's subject",
        "snapshot generations: a machine that loaded a snapshot and ran on is a reachable machine state like any "
        "other, so saving IT and loading that bundle into a fresh machine must again not change the future; the "
        "reference is the saved (restored) machine itself continuing, not run A, so an already known "
        "first-generation defect does not turn into a differently named one; a machine restored from a bundle "
        "written by the other implementation is only ever compared with machines of its own model",
    ]
    return rep


def replay(ctx: Ctx, case: Dict[str, Any]) -> List[Violation]:
    rsclient.build()
    rep = Report()
    rep.MAX_PER_FP = 50
    check_case(copy.deepcopy(case), rep)
    return rep.violations


def shrink(ctx: Ctx, v: Violation) -> Violation:
    """Single snapshot point is already in the case; shorten the continuation and drop host events."""
    case = copy.deepcopy(v.case)
    if case.get("kind") == "register-blob" or not (case.get("points") or case.get("kind") == "chain"):
        return v
    key = v.key()

    def still(c: Dict[str, Any]) -> Optional[Violation]:
        rep = Report()
        try:
            check_case(copy.deepcopy(c), rep)
        except Exception:
            return None
        for x in rep.violations:
            if x.key() == key:
                return x
        return None

    best = still(case)
    if best is None:
        return v
    for cont in (1, 2, 4, 8, 16):
        if cont >= int(case["k"]):
            break
        c2 = dict(case)
        c2["k"] = cont
        got = still(c2)
        if got is not None:
            case, best = c2, got
            break
    for step in sorted(case.get("events", {}), key=lambda s: -int(s)):
        c2 = copy.deepcopy(case)
        del c2["events"][step]
        got = still(c2)
        if got is not None:
            case, best = c2, got
    return best
