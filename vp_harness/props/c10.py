"""C10 -- assembling a program lays out code, data and labels consistently.

Generated domain
  (a) programs from the assembler grammar (Hypothesis composite): 1..N statement lines with labels (same line or
      on their own line), instructions from a palette of statement shapes the *standalone* path of the tree under
      test accepts (probed at start-up; rejected candidates are counted, so C10 is about layout, not encoding),
      operands numeric or symbolic (forward / backward labels that fit the operand's width), SECTION code|text|
      data|bss with re-entry, .ORG to distinct well-separated origins (incl. 64 KiB page edges), defb/defw/defl
      (numbers, symbols), defs, defm, comments, blank lines, keyword-case variants;
  (b) rare classes: near JP/CALL to a label on another page (must be rejected), two instructions on one physical
      line, a label-only line in front of .ORG / SECTION, .ORG <earlier label>; near JP/CALL targets written as
      NUMBERS: page-relative low-16 literals, full addresses (page bits set) on the instruction's own page (must
      assemble like the label of that value) and on another page (must be rejected like the label);
      BOUNDARY ORIGINS: `.ORG` to 0, 1, 0xFFFF, 0x10000, the section bases, 0xFFFFF at any position (after emitted
      bytes, inside data / bss, after an earlier higher .ORG), kept wherever the model says the run collides with
      nothing (M.settle_origins); code that runs across a 64 KiB boundary and then jumps page-locally to labels;
  (c) call histories: sequences of assemble() on 1..3 Assembler objects over valid and invalid programs;
  (d) LABEL SPELLINGS: in half of the programs labels are renamed (definition and every reference, references in
      any case) to register, internal-memory register, mnemonic, directive / section, mnemonic-prefixed and
      number-like names (M.apply_label_names); a reference is only written where the tree's parser reads a symbol.
  (e) ASSEMBLER CONFIGURATION (round 5): in ~28 % of the programs (and on the objects of ~40 % of the histories) the
      assembler is not plain `Assembler()` but carries an overridden SECTION_BASE_ADDRESSES map (bases from a pool
      of page starts, ROM-card style and unaligned / just-below-a-page-boundary addresses that no `.ORG` slot run
      can reach) and / or DEFAULT_SECTION = data, set as a class attribute of a subclass, inherited by a subclass
      of that subclass, or as an attribute of the object; the layout model starts from the overridden map.
  (f) STRING PAYLOAD (round 5): 45 % of the escape-free defm strings contain 1..3 raw TAB / VT / FF characters at
      drawn positions; such a statement is written at a drawn column (0..6 spaces, tabs, mixed, or behind a label
      on the same line); its reference bytes are the statement assembled alone.
Oracle: layout model (c10_model.layout) for label addresses and byte placement, per-instruction standalone
equivalence, operand-field extraction for label references, page rule, history independence.
"""

from __future__ import annotations

import copy
import time
from typing import Any, Dict, List, Optional, Tuple

from ..core import Ctx, HarnessError, Report, Violation, jhash, mix32
from .. import c10_shapes as S
from .. import c10_model as M

PROPERTY = "C10"
RULE = ("programs drawn from the assembler grammar (labels in front of most statements -- spelled L1 / lbl_2 / ... or, "
        "in half of the programs, like registers, internal-memory registers, mnemonics, directives, numbers of other "
        "notations, in any case --, palette instructions with "
        "numeric or symbolic operands, SECTION/.ORG/defb/defw/defl/defs/defm) checked against a layout model, "
        "per-instruction standalone assembly and operand-field extraction; plus assemble() call histories. "
        "Non-trivial program = assembles (or is rejected by the page rule as predicted) and has >= 1 forward and "
        ">= 1 backward symbolic reference and (>= 2 sections used or a .ORG); non-trivial history = >= 1 valid "
        "program re-assembled after another call on the same object. Distinct = distinct source text hashes. "
        "Round 5: ~28 % of the programs are assembled by a CONFIGURED assembler (section map and/or default section "
        "overridden on a subclass / grandchild / the object; labels config*, non-trivial = "
        "config-with-symbolic-reference) and 45 % of the plain defm strings carry raw TAB/VT/FF characters at a "
        "drawn column (labels string-raw-whitespace*, non-trivial = ...-followed-in-its-section); histories mix "
        "configured and plain objects (history-with-configured-object).")

# .ORG origins: pairwise >= 0x800 apart and away from the section bases, so that runs (<= 40 statements of <= 48
# bytes) can never overlap; several sit just below a 64 KiB boundary.
SLOTS = [0x00800, 0x01000, 0x04000, 0x0FFF0, 0x11000, 0x12000, 0x1FFFA, 0x21000, 0x3F800, 0x7F000,
         0x80800, 0x81000, 0x8FFF8, 0x90800, 0xA0000, 0xEFFFC, 0xFF000]
# Boundary origins: the values an origin directive is most likely to mishandle (0 -- the one value a truthiness
# test confuses with "no operand" --, 1, the first/last address of a 64 KiB page, the section bases themselves,
# the last address of the 20-bit space).  Unlike SLOTS they are NOT kept apart by construction: M.settle_origins
# keeps such an origin only where the run it starts collides with nothing (else the directive falls back to a slot).
EDGE_ORIGINS = [0x00000, 0x00000, 0x00000, 0x00001, 0x0FFFF, 0x10000, 0x80000, 0x90000, 0xFFFFF]
MAX_DEFS = 48
COMMENTS = ["note", "x: y", "NOP", 'say "hi"', "defb 1, 2", ".ORG 0x10", "SECTION data", "a;b"]
STR_ALPHABET = "ABCXYZabcxyz0189 !#$%&'()*+,-./:;<=>?@[]^_{|}~"
LABEL_STYLES = ["L{}", "lbl_{}", "_t{}", "Loop{}x", "dat{}", "Zq{}"]
# Raw white-space control characters inside string literals (the string token admits every character but a newline)
# and the wider set of indentations such a statement is written with (the column a statement stands at must not
# matter to its bytes).
RAW_WS_CHARS = ["\t", "\t", "\t", "\t", "\x0b", "\x0c"]
WS_INDENTS = ["", " ", "  ", "   ", "    ", "     ", "\t", " \t", "\t ", "\t\t", "      "]


def _base_pool() -> List[int]:
    """Section bases an overriding configuration draws from: the stock bases, page starts, ROM-card style round
    addresses and a few unaligned / just-below-a-page-boundary ones -- kept only where a run starting there
    (<= 0x800 bytes, see SLOTS) can neither reach a `.ORG` slot nor be reached by the run of one, and inside the
    address space.  Pairwise distance >= 0x800 is enforced when a map is drawn."""
    cands = [0x00000, 0x02000, 0x02001, 0x06000, 0x0C000, 0x0EF00, 0x10800, 0x18000, 0x24000, 0x2FFF8, 0x30000,
             0x40000, 0x4FFFD, 0x60000, 0x6FF00, 0x70000, 0x80000, 0x84000, 0x88001, 0x90000, 0x98000, 0xA8000,
             0xB0000, 0xC0000, 0xCFFFA, 0xE0000, 0xF0000, 0xFE000]
    return [b for b in cands if b + 0x800 <= 0x100000
            and all(not (s_ < b + 0x800 and b < s_ + 0x800) for s_ in SLOTS)]


BASE_POOL = _base_pool()

_PALETTE: List[Dict[str, Any]] = []
_PAL_SYM: List[Dict[str, Any]] = []
_PAL_NEAR: List[Dict[str, Any]] = []


def _set_palette(infos: List[Dict[str, Any]]) -> None:
    global _PALETTE, _PAL_SYM, _PAL_NEAR
    _PALETTE = [i for i in infos if i["ok"]]
    _PAL_SYM = [i for i in _PALETTE if any(s["symbolic"] for s in i["slots"])]
    _PAL_NEAR = [i for i in _PALETTE if S.is_near(i["template"])]
    M.preload_shapes(infos)


def _ensure_palette() -> None:
    if not _PALETTE:
        _set_palette(S.probe_many(S.candidate_templates()))


# ------------------------------------------------------------------------------------------------ generator

def _strategies() -> Any:
    from hypothesis import strategies as st

    KINDS = (["instr"] * 10 + ["data"] * 5 + ["org"] * 2 + ["section"] * 3)
    u8 = st.one_of(st.sampled_from([0, 1, 0x7F, 0x80, 0xFF]), st.integers(0, 0xFF))
    u16 = st.one_of(st.sampled_from([0, 1, 0xFF, 0x100, 0x7FFF, 0x8000, 0xFFFF]), st.integers(0, 0xFFFF))
    u20 = st.one_of(st.sampled_from([0, 0xFFFF, 0x10000, 0x80000, 0xFFFFF]), st.integers(0, 0xFFFFF))
    NUM = {"b": u8, "w": u16, "l": u20, "J": u16, "n": st.integers(0, 0xCF)}
    # percentages are hashed so that Hypothesis' bias towards small/boundary integers does not skew class rates
    pct = st.integers(0, 0xFFFFFFFF).map(lambda x: mix32(0xC10, x) % 100)

    def section_text(draw: Any, name: str) -> str:
        v = draw(st.integers(0, 5))
        kw = ["SECTION", "SECTION", "SECTION", "section", "Section", "SECTION"][v]
        nm = [name, name, name, name.upper(), name.capitalize(), name][v]
        return f"{kw} {nm}"

    @st.composite
    def configs(draw: Any) -> Dict[str, Any]:
        """An assembler CONFIGURATION: the section map and / or the default section overridden on a subclass, on a
        subclass of that subclass, or on the object.  Bases pairwise >= 0x800 apart; text shares the code base."""
        how = draw(st.sampled_from(M.CONFIG_HOWS))
        what = draw(pct)
        bases: Optional[Dict[str, int]] = None
        if what < 85:
            chosen: List[int] = []
            for _sec in ("code", "data", "bss"):
                free = [b for b in BASE_POOL if all(abs(b - c) >= 0x800 for c in chosen)]
                chosen.append(draw(st.sampled_from(free)))
            if draw(pct) < 20:
                chosen[0] = 0 if all(c >= 0x800 for c in chosen[1:]) else chosen[0]  # only the data side moves
            bases = {"code": chosen[0], "text": chosen[0], "data": chosen[1], "bss": chosen[2]}
        default = "data" if (what >= 85 or draw(pct) < 15) else None
        return {"how": how, "bases": bases, "default": default}

    @st.composite
    def programs(draw: Any, max_lines: int, special: bool = True) -> Dict[str, Any]:
        n = draw(st.integers(1, max_lines))
        f_cross = special and draw(pct) < 9
        f_litcross = special and draw(pct) < 8  # a near target written as a full-address LITERAL on another page
        f_pair = special and draw(pct) < 5
        f_orgsym = special and draw(pct) < 4
        f_prelabel = special and draw(pct) < 8
        # boundary-origin programs: the source starts with a location directive (code placed high first, or a data /
        # bss section), so nothing occupies the bottom of the address space when a later `.ORG 0` / `.ORG 1` moves a
        # NON-ZERO location counter there; such programs also draw most of their origins from EDGE_ORIGINS
        f_edge = special and draw(pct) < 14
        # code that RUNS ACROSS a 64 KiB boundary (origin a few bytes below it, no location directive in between) and
        # then uses page-local JP/CALL with labels: the page that counts is the instruction's own, not the run's
        f_across = special and draw(pct) < 8
        code_name = "text" if draw(pct) < 5 else "code"
        multi = draw(pct) < 75 or f_edge  # programs that use SECTION / .ORG at all
        lines: List[Dict[str, Any]] = []
        used_slots: List[int] = []
        counter = [0]

        def new_label() -> str:
            counter[0] += 1
            return draw(st.sampled_from(LABEL_STYLES)).format(counter[0])

        def deco(ln: Dict[str, Any]) -> Dict[str, Any]:
            d = draw(pct)
            ln.setdefault("own_line", False)
            ln["indent"] = ["    ", "\t", "  ", " "][d % 4]
            ln["mcase"] = 0 if d < 70 else (1 if d < 90 else 2)
            ln["blank"] = 1 if d % 10 == 3 else 0
            ln["comment"] = draw(st.sampled_from(COMMENTS)) if d % 9 == 4 else None
            ln.setdefault("join_prev", False)
            return ln

        def free_slot() -> Optional[int]:
            cands = [s for s in SLOTS if s not in used_slots]
            if not cands:
                return None
            s = draw(st.sampled_from(cands))
            used_slots.append(s)
            return s

        def origin(edge_pct: int) -> Optional[Dict[str, Any]]:
            """A numeric `.ORG`: an ordinary slot, or (edge_pct %) a boundary origin that falls back to that slot."""
            s = free_slot()
            if s is None:
                return None
            stmt = {"t": "org", "addr": s, "style": draw(st.integers(0, 3))}
            if draw(pct) < edge_pct:
                stmt.update({"addr": draw(st.sampled_from(EDGE_ORIGINS)), "alt": s, "edge": True})
            return stmt

        cur = "code"
        if code_name == "text":
            lines.append(deco({"label": None, "stmt": {"t": "section", "name": "text", "text": "SECTION text"}}))
            cur = "text"
        if f_prelabel and cur == "code" and draw(pct) < 60:
            # the label-only line is the very first line of the source
            if draw(pct) < 50:
                sl = free_slot()
                first = {"t": "org", "addr": sl, "style": draw(st.integers(0, 3))}
            else:
                nm = draw(st.sampled_from(["data", "bss"]))
                first = {"t": "section", "name": nm, "text": "SECTION " + nm}
                cur = nm
            lines.append(deco({"label": new_label(), "own_line": True, "stmt": first}))
            lines[-1]["blank"] = 0
        if f_edge:
            h = draw(pct)
            if h < 50:
                lines.append(deco({"label": None, "stmt": origin(0)}))
            else:
                nm = "data" if h < 80 else "bss"
                lines.append(deco({"label": None, "stmt": {"t": "section", "name": nm, "text": "SECTION " + nm}}))
                cur = nm
        edge_pct = 60 if f_edge else 20
        anchor: Optional[str] = None
        if f_orgsym:
            anchor = new_label()
            lines.append(deco({"label": None, "stmt": {"t": "section", "name": "bss", "text": "SECTION bss"}}))
            # the anchor's address may itself be a boundary origin: `.ORG <label whose value is 0>` further down
            lines.append(deco({"label": None, "stmt": dict(origin(40), style=0)}))
            lines.append(deco({"label": anchor, "stmt": {"t": "defs", "n": draw(st.integers(1, 16))}}))
            lines.append(deco({"label": None, "stmt": {"t": "section", "name": code_name,
                                                       "text": "SECTION " + code_name}}))
            if lines[-3]["stmt"].get("edge"):
                # keep the bottom of the address space free for the code that `.ORG <anchor>` will put there
                lines.append(deco({"label": None, "stmt": origin(0)}))
        paired = False
        for _ in range(n):
            kind = draw(st.sampled_from(KINDS))
            if not multi and kind in ("org", "section"):
                kind = "instr"
            if kind == "section":
                name = draw(st.sampled_from(["data", "bss", code_name, "data", code_name]))
                ln = {"label": None, "stmt": {"t": "section", "name": name, "text": section_text(draw, name)}}
                if f_prelabel and draw(pct) < 40:
                    ln["label"] = new_label()
                    ln["own_line"] = True
                lines.append(deco(ln))
                cur = name
                continue
            if kind == "org":
                ostmt = origin(edge_pct)
                if ostmt is not None:
                    ln = {"label": None, "stmt": ostmt}
                    if f_prelabel and draw(pct) < 40:
                        ln["label"] = new_label()
                        ln["own_line"] = True
                    lines.append(deco(ln))
                    continue
                kind = "instr"
            if cur == "bss" and kind == "instr":
                kind = "data"
            if kind == "instr":
                r = draw(pct)
                pool = _PAL_NEAR if (r < 12 and _PAL_NEAR) else (_PAL_SYM if r < 60 and _PAL_SYM else _PALETTE)
                info = draw(st.sampled_from(pool))
                stmt = {"t": "instr", "shape": info["template"], "ops": [None] * len(info["slots"])}
            else:
                t = draw(st.sampled_from(["defb", "defw", "defl", "defb", "defw", "defl", "defs", "defm"]))
                if t == "defs":
                    stmt = {"t": "defs", "n": draw(st.one_of(st.integers(0, MAX_DEFS), st.sampled_from([0, 1, 16])))}
                elif t == "defm":
                    body = draw(st.text(alphabet=STR_ALPHABET, min_size=0, max_size=12))
                    if draw(st.integers(0, 3)) == 0:
                        # complete two-character backslash sequences (the grammar's string token allows escapes)
                        pieces = draw(st.lists(st.sampled_from(["\\n", "\\t", '\\"', "\\\\", "A", "z", "0", " "]),
                                               min_size=1, max_size=6))
                        body = body[:6] + "".join(pieces)
                    elif draw(pct) < 45:
                        # RAW white-space control characters (a tab-separated table, a form feed): string PAYLOAD
                        # characters outside the printable alphabet, anywhere in the string
                        for _k in range(draw(st.integers(1, 3))):
                            at = draw(st.integers(0, len(body)))
                            body = body[:at] + draw(st.sampled_from(RAW_WS_CHARS)) + body[at:]
                    stmt = {"t": "defm", "s": body}
                else:
                    stmt = {"t": t, "args": [None] * draw(st.integers(1, 4))}
            ln = {"label": new_label() if draw(pct) < 80 else None, "stmt": stmt}
            ln["own_line"] = bool(ln["label"]) and draw(pct) < 25
            if (f_pair and not paired and kind == "instr" and lines and lines[-1].get("stmt")
                    and lines[-1]["stmt"]["t"] == "instr" and draw(pct) < 50):
                ln["label"] = None
                ln["own_line"] = False
                ln["join_prev"] = True
                paired = True
            if ln["label"] and not ln.get("join_prev") and draw(pct) < 4:
                # a second label on its own line in front of a labelled statement (two names for one address)
                lines.append(deco({"label": new_label(), "own_line": True, "stmt": None}))
            lines.append(deco(ln))
            if stmt["t"] == "defm" and M.has_raw_ws(stmt["s"]):
                ln["indent"] = draw(st.sampled_from(WS_INDENTS))  # the statement at every column
            if ln.get("join_prev"):
                ln["blank"] = 0
                lines[-2]["comment"] = None
        if f_cross and _PAL_NEAR:
            s = free_slot()
            if s is not None:
                lines.append(deco({"label": None, "stmt": {"t": "section", "name": code_name,
                                                           "text": "SECTION " + code_name}}))
                lines.append(deco({"label": None, "stmt": {"t": "org", "addr": s, "style": 0}}))
                info = draw(st.sampled_from(_PAL_NEAR))
                lines.append(deco({"label": new_label(), "stmt": {"t": "instr", "shape": info["template"],
                                                                  "ops": [None]}}))
                lines.append(deco({"label": new_label(), "stmt": {"t": "instr", "shape": "RET", "ops": []}}))
        if f_across and _PAL_NEAR:
            below = [x for x in SLOTS if (x & 0xFFFF) >= 0xFF00 and x not in used_slots]
            if below:
                s = draw(st.sampled_from(below))
                used_slots.append(s)
                lines.append(deco({"label": None, "stmt": {"t": "section", "name": code_name,
                                                           "text": "SECTION " + code_name}}))
                cur = code_name
                lines.append(deco({"label": None, "stmt": {"t": "org", "addr": s, "style": draw(st.integers(0, 3))}}))
                for k in range(draw(st.integers(4, 9))):
                    info = draw(st.sampled_from(_PAL_NEAR if (k >= 3 and draw(pct) < 45) else _PALETTE))
                    lines.append(deco({"label": new_label() if draw(pct) < 70 else None,
                                       "stmt": {"t": "instr", "shape": info["template"],
                                                "ops": [None] * len(info["slots"])}}))
                lines.append(deco({"label": new_label(), "stmt": {"t": "instr", "shape": "RET", "ops": []}}))
        if f_litcross and _PAL_NEAR:
            # make sure the program has a near JP/CALL that can carry the literal (own origin in half of the cases,
            # so that the instruction sits on pages other than the ones the rest of the program uses)
            s = free_slot() if draw(pct) < 50 else None
            if cur == "bss" or s is not None:
                lines.append(deco({"label": None, "stmt": {"t": "section", "name": code_name,
                                                           "text": "SECTION " + code_name}}))
                cur = code_name
            if s is not None:
                lines.append(deco({"label": None, "stmt": {"t": "org", "addr": s, "style": draw(st.integers(0, 3))}}))
            info = draw(st.sampled_from(_PAL_NEAR))
            lines.append(deco({"label": new_label() if draw(pct) < 50 else None,
                               "stmt": {"t": "instr", "shape": info["template"], "ops": [None]}}))
        if f_edge:
            # "... and the entry stub / the table at the bottom last": a boundary origin after everything else
            ostmt = origin(100)
            if ostmt is not None:
                if draw(pct) < 60:
                    nm = draw(st.sampled_from(["data", "bss", code_name, code_name]))
                    lines.append(deco({"label": None, "stmt": {"t": "section", "name": nm, "text": "SECTION " + nm}}))
                    cur = nm
                lines.append(deco({"label": None, "stmt": ostmt}))
                for _ in range(draw(st.integers(1, 2))):
                    if cur == "bss" or draw(pct) < 40:
                        stmt = {"t": draw(st.sampled_from(["defb", "defw", "defl"])),
                                "args": [None] * draw(st.integers(1, 3))}
                    else:
                        info = draw(st.sampled_from(_PAL_SYM if draw(pct) < 50 else _PALETTE))
                        stmt = {"t": "instr", "shape": info["template"], "ops": [None] * len(info["slots"])}
                    lines.append(deco({"label": new_label() if draw(pct) < 75 else None, "stmt": stmt}))
        if draw(pct) < 15:
            lines.append(deco({"label": new_label(), "own_line": True, "stmt": None}))  # trailing `end:` label
        unstable: set = set()
        if f_orgsym and anchor:
            lines.append(deco({"label": None, "stmt": {"t": "section", "name": code_name,
                                                       "text": "SECTION " + code_name}}))
            lines.append(deco({"label": None, "stmt": {"t": "org", "sym": anchor, "text": anchor}}))
            for _ in range(draw(st.integers(1, 3))):
                info = draw(st.sampled_from(_PALETTE))
                lb = new_label()
                unstable.add(lb.upper())
                lines.append(deco({"label": lb, "stmt": {"t": "instr", "shape": info["template"],
                                                         "ops": [None] * len(info["slots"])}}))
        prog = {"kind": "program", "lines": lines, "tail_raw": None}
        prog["asm"] = draw(configs()) if special and draw(pct) < 28 else None

        # ---- operands: numeric first (sizes do not depend on operand values), then symbolic references
        for ln in lines:
            stmt = ln.get("stmt")
            if not stmt:
                continue
            if stmt["t"] == "instr":
                kinds = S.slots_of(stmt["shape"])
                stmt["ops"] = [{"num": draw(NUM[k]), "style": draw(st.integers(0, 3))} for k in kinds]
            elif stmt["t"] in M.DATA_W:
                k = {"defb": "b", "defw": "w", "defl": "l"}[stmt["t"]]
                stmt["args"] = [{"num": draw(NUM[k]), "style": draw(st.integers(0, 3))} for _ in stmt["args"]]
        M.settle_origins(prog)  # boundary origins stay only where their run collides with nothing
        lay = M.layout(prog)
        labs = {k: v for k, v in lay["labels"].items() if not v["pre_location"] and k not in unstable}
        defined_as = {ln["label"].upper(): ln["label"] for ln in lines if ln.get("label")}

        def pick(limit: int, allow_bss: bool, page: Optional[int] = None) -> Optional[Dict[str, Any]]:
            cands = sorted(k for k, v in labs.items()
                           if v["value"] <= limit and (allow_bss or not v["bss_rel"])
                           and (page is None or (v["value"] >> 16) == page))
            if not cands:
                return None
            name = defined_as[draw(st.sampled_from(cands))]
            c = draw(pct)
            text = name if c < 85 else (name.upper() if c < 93 else name.lower())
            return {"sym": name, "text": text}

        for rec in lay["recs"]:
            ln = lines[rec["idx"]]
            stmt = ln.get("stmt")
            if not stmt or rec.get("loc"):
                continue
            if stmt["t"] == "instr":
                info = M.shape_info(stmt["shape"])
                for i, slot in enumerate(info["slots"]):
                    if slot["kind"] == "J":
                        a = rec["addr"]
                        if (a >> 16) != ((a + rec["size"]) >> 16):
                            continue  # straddles a page boundary: keep the low-16 literal
                        mode = draw(pct)
                        if not slot["symbolic"] or mode >= 55:
                            # numeric target.  A literal <= 0xFFFF is page-relative (the drawn u16 stays); a literal
                            # with page bits is a full address: on the instruction's own page it must assemble like
                            # a label of that value, on another page it must be rejected like one.
                            low = int(stmt["ops"][i]["num"]) & 0xFFFF
                            page = a >> 16
                            if f_litcross and draw(pct) < 60:
                                other = draw(st.sampled_from([p for p in range(1, 16) if p != page]))
                                stmt["ops"][i]["num"] = (other << 16) | low
                            elif page and mode >= 70:
                                stmt["ops"][i]["num"] = (page << 16) | low
                            continue
                        ref = None
                        if f_cross and draw(pct) < 60:
                            others = sorted({v["value"] >> 16 for v in labs.values() if not v["bss_rel"]} - {a >> 16})
                            if others:
                                ref = pick(0xFFFFF, False, draw(st.sampled_from(others)))
                        if ref is None:
                            ref = pick(0xFFFFF, False, a >> 16)
                    elif not slot["symbolic"] or draw(pct) >= 65:
                        continue
                    else:
                        ref = pick(S.SLOT_MAX[slot["kind"]], slot["kind"] == "l")
                    if ref is not None:
                        stmt["ops"][i] = ref
            elif stmt["t"] in M.DATA_W:
                lim = (1 << (8 * M.DATA_W[stmt["t"]])) - 1
                for i in range(len(stmt["args"])):
                    if draw(pct) < 45:
                        ref = pick(min(lim, 0xFFFFF), stmt["t"] == "defl")
                        if ref is not None:
                            stmt["args"][i] = ref
        # label SPELLINGS (register / IMEM register / mnemonic / directive / number-like names, any case): a pass of
        # its own over the finished program, driven by a hash of the program, so that what Hypothesis drew above
        # is the same program with or without it
        M.apply_label_names(prog, int(jhash(prog, 8), 16))
        return prog

    @st.composite
    def histories(draw: Any) -> Dict[str, Any]:
        nprog = draw(st.integers(2, 4))
        progs = []
        for _ in range(nprog):
            p = draw(programs(8, special=False))
            bad = draw(pct)
            if bad < 30:
                p = copy.deepcopy(p)
                p["tail_raw"] = draw(st.sampled_from([
                    "    JP nosuch_label9\n",                       # undefined symbol: fails in pass two
                    "dupl9: NOP\ndupl9: NOP\n",                     # duplicate label: fails in pass one
                    "    MV A,,\n",                                 # parse error
                    "    MVW (0x10), 0x12345\n",                    # operand out of range: fails in pass one
                    "SECTION code\n.ORG 0x50100\nfar9: JP faraway9\n.ORG 0x60100\nfaraway9: RET\n",  # page rule
                    "SECTION code\n.ORG 0x50100\nfar9: CALL 0x60100\n",   # page rule, target written as a literal
                ]))
            progs.append(p)
        nobj = draw(st.integers(1, 3))
        calls = draw(st.lists(st.tuples(st.integers(0, nobj - 1), st.integers(0, nprog - 1)), min_size=3,
                              max_size=10))
        case = {"kind": "history", "programs": progs, "n_objs": nobj, "calls": [list(c) for c in calls]}
        if draw(pct) < 40:
            # objects of differently CONFIGURED assemblers (and plain ones) take turns in one process
            case["configs"] = [draw(configs()) if draw(pct) < 60 else None for _ in range(nobj)]
        return case

    return programs, histories


# ------------------------------------------------------------------------------------------------ verdicts

def _features(prog: Dict[str, Any]) -> Tuple[List[str], bool]:
    """Coverage labels and the non-triviality verdict for a program."""
    labels: List[str] = []
    lines = prog["lines"]
    def_idx = {ln["label"].upper(): i for i, ln in enumerate(lines) if ln.get("label")}
    fwd = bwd = 0
    cfg = M.config_of(prog)
    bases = M.bases_of(prog)
    cur_sec = M.default_section_of(prog)
    sections = {cur_sec}
    org = False
    lay = M.layout(prog)
    addr_of = {r["idx"]: r["addr"] for r in lay["recs"]}
    before_of = {r["idx"]: r["before"] for r in lay["recs"] if "before" in r}
    run_start = {r["idx"]: (addr_of[r["owner"]] if r["owner"] is not None else bases[r["section"]])
                 for r in lay["recs"] if "owner" in r}
    referenced: Dict[str, List[str]] = {}
    for ln in lines:
        for op in M._sym_ops(ln.get("stmt")):
            st_ = ln["stmt"]
            pos = ("org-operand" if st_["t"] == "org" else "data-argument" if st_["t"] in M.DATA_W else
                   "near-target" if S.is_near(st_["shape"]) else "instruction-operand")
            referenced.setdefault(op["sym"].upper(), []).append(pos)
            if M.name_class(op["sym"]) != "generated" and str(op.get("text")) not in (op["sym"], op["sym"].upper(),
                                                                                      op["sym"].lower()):
                labels.append("label-name-ref-mixed-case")
    for ln in lines:
        if not ln.get("label"):
            continue
        cls = M.name_class(ln["label"])
        if cls != "generated":
            labels.append("label-name:" + cls)
            for pos in referenced.get(ln["label"].upper(), []):
                labels.append("label-name-referenced:" + cls)
                labels.append(f"label-name-referenced:{cls}:{pos}")
        if M.split_remainders(ln["label"]):
            labels.append("label-name-begins-with-operandless-mnemonic")
            if ln.get("own_line"):
                labels.append("label-name-begins-with-operandless-mnemonic:own-line")
    for i, ln in enumerate(lines):
        stmt = ln.get("stmt")
        if not stmt:
            labels.append("label-only-line")
            continue
        t = stmt["t"]
        if t == "section":
            if stmt["name"] in sections and stmt["name"] != cur_sec:
                labels.append("section-reentry")
            cur_sec = stmt["name"]
            sections.add(stmt["name"])
            labels.append("section:" + stmt["name"])
            if ln.get("label"):
                labels.append("label-line-before-SECTION")
        elif t == "org":
            org = True
            if "sym" in stmt:
                labels.append("org-symbol")
            else:
                labels.append("org-decimal" if int(stmt.get("style", 0)) % 4 == 2 else "org-hex")
                if (stmt["addr"] & 0xFFFF) >= 0xFF00:
                    labels.append("org-page-edge")
                if stmt.get("edge"):
                    labels.append(f"org-boundary:{int(stmt['addr']):#x}")
                    labels.append("org-boundary-in-" + ("bss" if cur_sec == "bss" else
                                                        "data" if cur_sec == "data" else "code"))
                if stmt.get("moved"):
                    labels.append("org-boundary-gave-way-to-a-slot")
                if int(stmt["addr"]) == 0 and before_of.get(i, 0) != 0:
                    labels.append("org-zero-moves-nonzero-counter")
                    labels.append("org-zero-moves-nonzero-counter:" + ("bss" if cur_sec == "bss" else
                                  "data" if cur_sec == "data" else "code"))
                if int(stmt["addr"]) == before_of.get(i):
                    labels.append("org-equals-current-counter")
                elif int(stmt["addr"]) < before_of.get(i, 0):
                    labels.append("org-moves-backwards")
            if "sym" in stmt and addr_of.get(i) == 0 and before_of.get(i, 0) != 0:
                labels.append("org-symbol-zero-moves-nonzero-counter")
            if ln.get("label"):
                labels.append("label-line-before-ORG")
        else:
            ops = stmt.get("ops") or stmt.get("args") or []
            for op in ops:
                if isinstance(op, dict) and "sym" in op:
                    j = def_idx.get(op["sym"].upper(), -1)
                    if j > i:
                        fwd += 1
                    else:
                        bwd += 1
                    if op.get("text") and op["text"] != op["sym"]:
                        labels.append("ref-case-variant")
            if t == "instr":
                if S.is_near(stmt["shape"]) and "sym" in stmt["ops"][0]:
                    labels.append("near-symbolic")
                    if (addr_of.get(i, 0) >> 16) != (run_start.get(i, 0) >> 16):
                        # the run this jump belongs to began on the previous page and ran across the boundary
                        labels.append("near-symbolic-after-running-across-a-page-boundary")
                    if addr_of.get(i, 0) > 0xFFFF:
                        labels.append("near-symbolic-high-page")
                elif S.is_near(stmt["shape"]):
                    num, page = int(stmt["ops"][0]["num"]), addr_of.get(i, 0) >> 16
                    if num <= 0xFFFF:
                        labels.append("near-literal-low16" + ("-high-page" if page else ""))
                    elif (num >> 16) == page:
                        labels.append("near-literal-full-address-same-page")
                    else:
                        labels.append("near-literal-full-address-other-page")
                if ln.get("join_prev"):
                    labels.append("one-line-pair")
            elif any("sym" in a for a in stmt.get("args", []) if isinstance(a, dict)):
                labels.append("data-symbolic")
            labels.append("stmt:" + (t if t != "instr" else "instr"))
    if cfg:
        labels.append("config")
        labels.append("config:" + cfg["how"])
        if cfg.get("bases"):
            labels.append("config:section-map-overridden")
            moved = sorted(k for k in ("code", "data", "bss") if bases[k] != M.SECTION_BASE[k])
            labels.append("config:moved-" + "+".join(moved) if moved else "config:map-equal-to-stock")
            if bases["code"] > 0xFFFF:
                labels.append("config:code-base-on-a-high-page")
            if any(bases[k] & 0xFF for k in bases):
                labels.append("config:unaligned-base")
        if cfg.get("default"):
            labels.append("config:default-section-" + cfg["default"])
        if fwd or bwd:
            labels.append("config-with-symbolic-reference")  # the non-trivial ones: a label value is consumed
    nws = 0
    for i, ln in enumerate(lines):
        stmt = ln.get("stmt")
        if stmt and stmt["t"] == "defm" and M.has_raw_ws(stmt["s"]):
            nws += 1
            labels.append("string-raw-whitespace")
            for ch, nm in (("\t", "TAB"), ("\x0b", "VT"), ("\x0c", "FF")):
                if ch in stmt["s"]:
                    labels.append("string-raw-whitespace:" + nm)
            col = (len(ln["label"]) + 2) if (ln.get("label") and not ln.get("own_line")) else len(ln.get("indent", ""))
            labels.append("string-raw-whitespace:" + ("label-on-the-same-line" if ln.get("label") and not ln.get("own_line")
                                                       else "indent-with-tab" if "\t" in ln.get("indent", "")
                                                       else f"indent-{len(ln.get('indent', ''))}-spaces"))
            if col % 4:
                labels.append("string-raw-whitespace:column-not-a-multiple-of-4")
            # non-trivial: something is laid out behind the string in its section (a later label / statement)
            sec = next((r["section"] for r in lay["recs"] if r["idx"] == i), None)
            if any(r["idx"] > i and r["section"] == sec and not r.get("loc") for r in lay["recs"]):
                labels.append("string-raw-whitespace-followed-in-its-section")
    if fwd:
        labels.append("has-forward-ref")
    if bwd:
        labels.append("has-backward-ref")
    if org:
        labels.append("has-org")
    labels.append(f"sections-used:{len(sections)}")
    nontrivial = fwd >= 1 and bwd >= 1 and (len(sections) >= 2 or org)
    return sorted(set(labels)), nontrivial


def evaluate_program(prog: Dict[str, Any], rep: Report) -> List[Violation]:
    stats: Dict[str, int] = {}
    viols = M.check_program(prog, stats)
    if any(ln.get("join_prev") for ln in prog["lines"]):
        viols += M.check_pair_variant(prog)
    labels, nt = _features(prog)
    for k in stats:
        labels.append("outcome:" + k)
    if stats.get("expect-reject"):
        labels.append("cross-page-near-target")
    for k in ("standalone", "label-ref"):
        if stats.get(k):
            rep.extra[k + "_checks"] = rep.extra.get(k + "_checks", 0) + stats[k]
    for v in viols:
        rep.violate(v)
    src = M.render_program(prog, split_pairs=False)[0]
    ok = bool(stats.get("assembled") or stats.get("expect-reject"))
    sample = None
    if rep.evaluations % 53 == 5:
        sample = {"source": src, "labels": labels}
    rep.case("prog:" + jhash(src) if (nt and ok) else None, labels, sample)
    return viols


def evaluate_history(case: Dict[str, Any], rep: Report) -> List[Violation]:
    """Every assemble() result must equal the result of assembling the same source on a fresh object."""
    viols: List[Violation] = []
    srcs = [M.render_program(p, split_pairs=True)[0] for p in case["programs"]]
    cfgs: List[Optional[Dict[str, Any]]] = list(case.get("configs") or [None] * int(case["n_objs"]))
    # reference: the same source on a NEW object of the same configuration, taken before the history runs
    refs_by_obj = [[M.fresh_assemble(s, c) for s in srcs] for c in cfgs]
    refs = refs_by_obj[0]
    objs = [M.make_assembler(c) for c in cfgs]
    last: List[Optional[Tuple[int, bool]]] = [None] * len(objs)
    reassembled_valid = False
    for step, (oi, pi) in enumerate(case["calls"]):
        got = M.assemble(objs[oi], srcs[pi])
        ref = refs_by_obj[oi][pi]
        prev = last[oi]
        if prev is None:
            where = "first call on an object" + ("" if step == 0 else " after calls on other objects")
            if step and any(c for c in cfgs) :
                where = ("first call on a " + ("configured" if cfgs[oi] else "plain")
                         + " object after calls on " + ("configured" if any(cfgs[o] for o, _p in case["calls"][:step])
                                                        else "plain") + " objects")
        else:
            where = ("same object, after a " + ("successful" if prev[1] else "failed") + " call with "
                     + ("the same" if prev[0] == pi else "another") + " program")
        if prev is not None and ref["ok"]:
            reassembled_valid = True
        if got["ok"] != ref["ok"]:
            symp = "accepted here, rejected on a fresh object" if got["ok"] else "rejected here, accepted on a fresh object"
        elif got["ok"] and got["segments"] != ref["segments"]:
            symp = "segments differ from a fresh object's"
        elif got["ok"] and got["symbols"] != ref["symbols"]:
            symp = "symbol table differs from a fresh object's"
        elif not got["ok"] and got["error"].splitlines()[0] != ref["error"].splitlines()[0]:
            symp = "error message differs from a fresh object's"
        else:
            symp = ""
        if symp:
            v = Violation("determinism", where, symp, case,
                          f"call {step} (object {oi}, program {pi}): got {str(got)[:160]} ; fresh {str(ref)[:160]}")
            viols.append(v)
            rep.violate(v)
        last[oi] = (pi, bool(got["ok"]))
    labels = ["history", f"history-objects:{case['n_objs']}"]
    if any(cfgs):
        labels.append("history-with-configured-object")
        if not all(cfgs) and len(cfgs) > 1:
            labels.append("history-configured-and-plain-objects")
    if any(not r["ok"] for r in refs):
        labels.append("history-with-failing-program")
    key = "hist:" + jhash([srcs, case["calls"], cfgs]) if reassembled_valid else None
    sample = {"history_calls": case["calls"], "sources": srcs} if rep.evaluations % 40 == 3 else None
    rep.case(key, labels, sample)
    return viols


# ------------------------------------------------------------------------------------------------ tasks

def _hyp_settings(n: int) -> Any:
    import hypothesis
    from hypothesis import HealthCheck, settings

    return settings(max_examples=n, deadline=None, database=None, report_multiple_bugs=False,
                    suppress_health_check=list(HealthCheck), phases=[hypothesis.Phase.generate])


def _task(task: Tuple[str, int, int, int, float]) -> Report:
    kind, seed, n, max_lines, budget = task
    import hypothesis
    from hypothesis import given

    _ensure_palette()
    programs, histories = _strategies()
    rep = Report()
    t0 = time.time()
    skipped = [0]

    if kind == "prog":
        @hypothesis.seed(seed)
        @_hyp_settings(n)
        @given(programs(max_lines))
        def prop(prog: Dict[str, Any]) -> None:
            if budget and time.time() - t0 > budget:
                skipped[0] += 1
                return
            evaluate_program(prog, rep)
    else:
        @hypothesis.seed(seed)
        @_hyp_settings(n)
        @given(histories())
        def prop(case: Dict[str, Any]) -> None:
            if budget and time.time() - t0 > budget:
                skipped[0] += 1
                return
            evaluate_history(case, rep)

    prop()
    if skipped[0]:
        rep.inconclusive.append(f"time budget reached in a {kind} shard: some generated cases were not evaluated")
        rep.extra["cases_skipped_for_budget"] = skipped[0]
    return rep


_XPROC_HELPER = ("import sys, json\n"
                 "from vp_harness import c10_model as M\n"
                 "print(json.dumps([M.fresh_assemble(s, c) for s, c in json.load(sys.stdin)]))\n")


def evaluate_xproc(progs: List[Dict[str, Any]], hashseed: int, rep: Report) -> List[Violation]:
    """Same sources assembled in a separate interpreter with another PYTHONHASHSEED must give the same results."""
    import json
    import os
    import subprocess
    import sys

    srcs = [M.render_program(p, split_pairs=True)[0] for p in progs]
    cfgs = [M.config_of(p) for p in progs]
    here = [M.fresh_assemble(x, c) for x, c in zip(srcs, cfgs)]
    env = dict(os.environ)
    env["PYTHONHASHSEED"] = str(hashseed)
    try:
        out = subprocess.run([sys.executable, "-c", _XPROC_HELPER], input=json.dumps([[x, c] for x, c in zip(srcs, cfgs)]), capture_output=True,
                             text=True, env=env, timeout=600)
        there = json.loads(out.stdout.strip().splitlines()[-1])
    except Exception as exc:  # infrastructure, not a verdict
        raise HarnessError(f"cross-process helper failed: {exc!r}")
    viols: List[Violation] = []
    for p, a, b in zip(progs, here, there):
        ok = a == b or (not a["ok"] and not b["ok"] and a["error"].splitlines()[0] == b["error"].splitlines()[0])
        if not ok:
            v = Violation("determinism", "separate process with another hash seed",
                          "result differs between two interpreter processes",
                          {"kind": "xproc", "programs": [p], "hashseed": hashseed},
                          f"here {str(a)[:150]} ; there {str(b)[:150]}")
            viols.append(v)
            rep.violate(v)
        rep.case(None, ["cross-process"], None)
    return viols


def _xproc_task(task: Tuple[int, int]) -> Report:
    seed, n = task
    import hypothesis
    from hypothesis import given

    _ensure_palette()
    programs, _ = _strategies()
    rep = Report()
    progs: List[Dict[str, Any]] = []

    @hypothesis.seed(seed)
    @_hyp_settings(n)
    @given(programs(10))
    def prop(prog: Dict[str, Any]) -> None:
        progs.append(prog)

    prop()
    evaluate_xproc(progs, 1 + seed % 4093, rep)
    return rep


# ------------------------------------------------------------------------------------------------ covfuzz phase
# Coverage-guided driver (vp_harness/covfuzz.py): atheris/libFuzzer mutates the byte string from which the SAME
# programs() strategy draws, with the assembler's Python modules instrumented; cases go to the SAME evaluate_program.
COVFUZZ = True
COVFUZZ_INSTRUMENT = ["sc62015.pysc62015.sc_asm", "sc62015.pysc62015.asm"]
COVFUZZ_PREIMPORT = ["sc62015.pysc62015.sc_asm", "sc62015.pysc62015.asm", "sc62015.pysc62015.instr"]


def covfuzz_test(target: str, rep: Report, extra: Dict[str, Any]) -> Any:
    """The @given test the covfuzz child drives through fuzz_one_input (target: "prog")."""
    from hypothesis import given

    _set_palette(extra["palette_infos"])
    programs, _histories = _strategies()
    if target != "prog":
        raise HarnessError(f"unknown covfuzz target {target!r}")

    @_hyp_settings(1)
    @given(programs(int(extra["max_lines"])))
    def prop(prog: Dict[str, Any]) -> None:
        evaluate_program(prog, rep)
        rep.labels["covfuzz"] += 1

    return prop


def _covfuzz_phase(ctx: Ctx, infos: List[Dict[str, Any]]) -> Report:
    from .. import covfuzz as CF

    shards = 16
    runs = ctx.pick(14, 220)
    return CF.cov_fuzz_many("vp_harness.props.c10", "prog", [ctx.shard_seed(3000 + i) for i in range(shards)], runs,
                            max_len=4096, instrument=COVFUZZ_INSTRUMENT, preimport=COVFUZZ_PREIMPORT,
                            extra={"palette_infos": infos, "max_lines": 14}, budget_s=ctx.pick(25.0, 150.0),
                            pad_len=8192)


def _any_task(task: Any) -> Report:
    return _xproc_task(task[1:]) if task[0] == "xproc" else _task(task)


def _probe_task(chunk: List[str]) -> List[Dict[str, Any]]:
    return S.probe_many(chunk)


DIRECTIVE_PROBES = {
    "defb with a string literal": 'defb "AB"\n',
    "defs with a hexadecimal count": "defs 0x10\n",
    "user-defined section name": "SECTION mysec\nNOP\n",
    "SECTION text and SECTION code in one program": "SECTION text\nNOP\nSECTION code\nHALT\n",
    "decimal literal with a leading zero": "MV A, 010\n",
}


def run(ctx: Ctx) -> Report:
    cands = S.candidate_templates()
    chunks = [cands[i::32] for i in range(32)]
    infos = [x for part in ctx.pmap(_probe_task, chunks) for x in part]
    by_t = {i["template"]: i for i in infos}
    infos = [by_t[t] for t in cands]
    _set_palette(infos)
    if len(_PALETTE) < 100 or not _PAL_NEAR or not _PAL_SYM:
        raise HarnessError(f"instruction palette collapsed: {len(_PALETTE)} of {len(cands)} shapes assemble standalone")

    n_prog = ctx.pick(640, 6400)
    n_hist = ctx.pick(160, 1280)
    shards = ctx.pick(32, 64)
    hshards = ctx.pick(16, 32)
    import os
    # per-shard time budget (a hit is INCONCLUSIVE, never a verdict); VERIF_C10_BUDGET_S=0 switches it off, for
    # validation runs on a machine that other jobs keep busy
    budget = float(os.environ.get("VERIF_C10_BUDGET_S", ctx.pick(90.0, 480.0)))
    from .. import covfuzz as CF
    only = CF.only_phase()
    tasks: List[Tuple[str, int, int, int, float]] = []
    for i in range(0 if only == "covfuzz" else shards):
        tasks.append(("prog", ctx.shard_seed(i), n_prog // shards, 14 if i % 4 else 40, budget))
    for i in range(0 if only == "covfuzz" else hshards):
        tasks.append(("hist", ctx.shard_seed(1000 + i), n_hist // hshards, 8, budget))
    for i in range(0 if only == "covfuzz" else ctx.pick(1, 4)):
        tasks.append(("xproc", ctx.shard_seed(2000 + i), ctx.pick(24, 60)))  # type: ignore[arg-type]
    rep = ctx.merge_reports(ctx.pmap(_any_task, tasks))
    if COVFUZZ and only in (None, "covfuzz"):
        CF.merge_covfuzz(rep, _covfuzz_phase(ctx, infos))
    rep.rule = RULE
    rep.extra["palette_candidates"] = len(cands)
    rep.extra["palette_accepted"] = len(_PALETTE)
    rep.extra["palette_excluded"] = len(cands) - len(_PALETTE)
    rep.extra["palette_excluded_examples"] = [f"{i['template']}: {i['why']}" for i in infos if not i["ok"]][:8]
    rep.extra["palette_symbolic_shapes"] = len(_PAL_SYM)
    rep.extra["label_name_vocabulary"] = {cls: len(names) for cls, _w, names in M.NAME_VOCABULARY}
    if not M.name_probe_available():
        rep.inconclusive.append("label spellings not exercised: the tree's parser object (sc62015.pysc62015.asm."
                                "asm_parser) is not reachable, so no label was renamed")
    forms = {}
    for name, src in DIRECTIVE_PROBES.items():
        r = M.fresh_assemble(src)
        forms[name] = "accepted" if r["ok"] else "rejected: " + M.norm_error(r["error"])
    rep.extra["grammar_forms_outside_the_generated_domain"] = forms
    rep.assumptions = [
        "instruction statements come only from shapes whose standalone assembly the tree under test accepts; "
        "whether those encodings are right is C09's subject",
        "symbolic operands are only placed where the symbol's value fits the operand field (defb/imm8 < 0x100, "
        "defw/imm16 < 0x10000); silent truncation of wider values is not judged",
        "bss: nothing may be emitted and consecutive labels must differ by the statement sizes; the absolute bss "
        "base is not asserted (source says 0x90000 'will follow .data'; label values never follow .data)",
        "defs: only the number of reserved bytes is asserted, not their content",
        "SECTION text is used only as the sole code section of a program (the source calls it an alias of code but "
        "keeps a separate pointer)",
        "a label on the same physical line as .ORG/SECTION is not generated (which address it names is not stated); "
        "a label alone on the preceding line is taken to name the location before the directive",
        "near JP/CALL whose bytes straddle a 64 KiB boundary get low-16 literal targets only (the statement does "
        "not say which page counts)",
        "a numeric near JP/CALL target <= 0xFFFF is page-relative (maintainers' low-16 form) and never judged by "
        "the page rule; a numeric target with page bits (> 0xFFFF) is the value a label would have and is judged "
        "like the label: same page -> field = low 16 bits, other page -> rejected; consequently a label on page 0 "
        "is never replaced by its value when the literal form of a rejected cross-page program is tried",
        "two runs never emit to the same address and no statement extends beyond 0x100000: a boundary origin "
        "(.ORG 0 / 1 / page edge / section base / 0xFFFFF) whose run would collide falls back to a separate slot; "
        "this is decided on the layout model inside the generator, never on the output of the tree under test",
        "strings contain no double quote or backslash; numbers have no leading zeros",
        "label spellings: any CNAME may name a label (nothing in the grammar reserves register, internal-memory "
        "register, mnemonic or directive names), but a reference is only written where the tree's PARSER (asked "
        "alone, sc62015.pysc62015.asm.asm_parser; never the evaluation) reads that spelling as a symbol atom: "
        "`JP x` / `MV A, [il]` are register operands by the grammar's terminal priorities, so a label x is "
        "referenced through CALL / JPF / defw / .ORG ... only; identifiers that are a register name followed by an "
        "operand-less mnemonic (`JP XSC`) are not generated",
        "history verdicts compare with a fresh Assembler in the same process (module-level caches are already "
        "warm); error messages are compared on their first line",
        "assembler configuration: SECTION_BASE_ADDRESSES ('sane defaults') and DEFAULT_SECTION are class attributes "
        "the code reads through self, so a subclass or an object may override them; the model's layout then starts "
        "from the overridden map / section. Only complete four-section maps (code = text base) with bases >= 0x800 "
        "apart and away from every .ORG slot, and DEFAULT_SECTION in {code, data}, are generated; maps lacking a "
        "section, user sections and mutation of the Assembler class itself are not",
        "defm strings with raw TAB / VT / FF: the reference bytes are what the statement assembled alone (at column "
        "0, plain Assembler) emits -- the same rule as for backslash sequences; CR and other control characters, "
        "and non-ASCII characters, are not generated",
    ]
    if COVFUZZ:
        rep.assumptions.append(CF.ASSUMPTION)
    return rep


# ------------------------------------------------------------------------------------------------ replay / shrink

def replay(ctx: Ctx, case: Dict[str, Any]) -> List[Violation]:
    rep = Report()
    if case.get("kind") == "history":
        return evaluate_history(case, rep)
    if case.get("kind") == "xproc":
        return evaluate_xproc(case["programs"], int(case["hashseed"]), rep)
    return evaluate_program(case, rep)


def _referenced(prog: Dict[str, Any]) -> set:
    out = set()
    for ln in prog["lines"]:
        stmt = ln.get("stmt") or {}
        for op in (stmt.get("ops") or []) + (stmt.get("args") or []):
            if isinstance(op, dict) and "sym" in op:
                out.add(op["sym"].upper())
        if stmt.get("t") == "org" and "sym" in stmt:
            out.add(stmt["sym"].upper())
    return out


def shrink(ctx: Ctx, v: Violation) -> Violation:
    """Greedy statement removal (programs) / call and program simplification (histories), same fingerprint."""
    t0 = time.time()
    key = v.key()
    best = v
    import os
    limit = float(os.environ.get("VERIF_C10_SHRINK_S", "50"))

    def still(case: Dict[str, Any]) -> Optional[Violation]:
        try:
            if case.get("kind") == "program" and not M.in_domain(case):
                return None  # the reduction left the generated domain (e.g. a symbol no longer fits its field)
            for x in replay(ctx, case):
                if x.key() == key:
                    return x
        except Exception:
            return None
        return None

    case = copy.deepcopy(v.case)
    if case.get("kind") == "xproc":
        return v
    if case.get("kind") == "history":
        changed = True
        while changed and time.time() - t0 < limit:
            changed = False
            for i in range(len(case["calls"]) - 1, -1, -1):
                trial = copy.deepcopy(case)
                del trial["calls"][i]
                if not trial["calls"]:
                    continue
                got = still(trial)
                if got is not None:
                    case, best, changed = trial, got, True
                    break
        return best
    changed = True
    while changed and time.time() - t0 < limit:
        changed = False
        refs = _referenced(case)
        for i in range(len(case["lines"]) - 1, -1, -1):
            ln = case["lines"][i]
            if ln.get("label") and ln["label"].upper() in refs:
                continue
            trial = copy.deepcopy(case)
            del trial["lines"][i]
            if not trial["lines"]:
                continue
            got = still(trial)
            if got is not None:
                case, best, changed = trial, got, True
                break
    # drop decorations
    for i in range(len(case["lines"])):
        if time.time() - t0 > limit + 8:
            break
        trial = copy.deepcopy(case)
        l2 = trial["lines"][i]
        l2["comment"], l2["blank"], l2["mcase"], l2["indent"] = None, 0, 0, "    "
        if l2 == case["lines"][i]:
            continue
        got = still(trial)
        if got is not None:
            case, best = trial, got
    return best
