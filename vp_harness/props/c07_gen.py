"""C07 generators: encoding pool, history/program builder, probe and split cases.

Everything is a pure function of (VERIF_SEED, shard, index) through gen_state.Stream.  Programs are built
from decoder-accepted encodings (shared sampler gen_enc.sample_valid_encodings) plus a few hand-encoded
control-flow templates whose rendered text is verified against the repository's decoder in self_test().
"""

from __future__ import annotations

from typing import Any, Dict, List, Optional, Tuple

from ..core import HarnessError, jhash, mix32
from .. import gen_enc as G
from .. import gen_state as S
from .. import textparse as TP

CONTROL_FLOW = {"JP", "JPF", "JR", "JPZ", "JPNZ", "JPC", "JPNC", "JRZ", "JRNZ", "JRC", "JRNC",
                "CALL", "CALLF", "RET", "RETF", "RETI", "IR", "HALT", "OFF", "RESET"}
INT_VECTOR = 0xFFFFA

# hand-encoded templates: (bytes, expected rendered text prefix)
TEMPLATES = [
    (bytes([0x09, 0x05]), "MV    IL, 05"),
    (bytes([0x0B, 0x05, 0x00]), "MV    I, 0005"),
    (bytes([0x04, 0x34, 0x12]), "CALL  1234"),
    (bytes([0x05, 0x34, 0x12, 0x0F]), "CALLF F1234"),
    (bytes([0x06]), "RET"),
    (bytes([0x07]), "RETF"),
    (bytes([0x01]), "RETI"),
    (bytes([0xFE]), "IR"),
    (bytes([0x12, 0x02]), "JR    +02"),
    (bytes([0x18, 0x02]), "JRZ   +02"),
    (bytes([0x1A, 0x02]), "JRNZ  +02"),
    (bytes([0x1C, 0x02]), "JRC   +02"),
    (bytes([0x1E, 0x02]), "JRNC  +02"),
    (bytes([0x1B, 0x02]), "JRNZ  -02"),
    (bytes([0x7C, 0x03]), "DEC   I"),
    (bytes([0x6C, 0x00]), "INC   A"),
    (bytes([0x00]), "NOP"),
]
_tested = False


def self_test() -> None:
    global _tested
    if _tested:
        return
    for code, want in TEMPLATES:
        got = G.text_of(code + G.NOP_PAD)
        if got is None or got[0].strip() != want or got[1] != len(code):
            raise HarnessError(f"C07 template {code.hex()} decodes as {got!r}, expected {want!r}")
    _tested = True


class Enc:
    __slots__ = ("pre", "op", "code", "mn", "cf", "counted", "safe")

    def __init__(self, pre: Optional[int], code: bytes) -> None:
        self.pre = pre
        self.code = code
        self.op = code[1] if pre is not None else code[0]
        r = TP.tokens(code + G.NOP_PAD)
        self.mn = TP.mnemonic(r[0]) if r is not None else "?"
        self.cf = self.mn in CONTROL_FLOW
        self.counted = self.mn in S.COUNTED
        regs = {t for k, t in (r[0] if r is not None else []) if k == "Reg"}
        # usable inside CALL..RET / IR..RETI / loop bodies: leaves the stack pointer and the loop counter alone
        self.safe = (not self.cf and not self.counted and not (regs & {"S", "I", "IL", "IH"})
                     and self.mn not in ("PUSHS", "POPS", "WAIT", "?") and not self.mn.startswith("???"))


class Pool:
    def __init__(self, encs: List[Enc]) -> None:
        self.all = encs
        # usable inside histories (the undefined opcodes 20/BF raise NotImplementedError on the Python core and
        # would only cut histories short; they are still probed)
        self.body = [e for e in encs if not e.cf and not e.mn.startswith("???")]
        self.safe = [e for e in encs if e.safe]
        if len(self.body) < 100:
            raise HarnessError("C07 encoding pool too small")


def make_pool(seed: int, count: int) -> Tuple[Pool, int]:
    encs, redraws = G.sample_valid_encodings(seed, count)
    return Pool([Enc(pre, code) for pre, code in encs]), redraws


# --------------------------------------------------------------------------------------------------
# program builder


class Prog:
    """Symbolic program: items are ("raw", bytes) | ("call", tgt) | ("callf", tgt) | ("jrf", op, tgt) |
    ("jrb", op, tgt) where tgt is an item index (len(items) = end of main flow)."""

    def __init__(self) -> None:
        self.items: List[Tuple[Any, ...]] = []
        self.shape: List[str] = []
        self.steps = 0
        self.handler: Optional[int] = None  # item index of the IR handler

    @staticmethod
    def size(it: Tuple[Any, ...]) -> int:
        k = it[0]
        if k == "raw":
            return len(it[1])
        return {"call": 3, "callf": 4, "jrf": 2, "jrb": 2}[k]

    def offsets(self) -> List[int]:
        out = [0]
        for it in self.items:
            out.append(out[-1] + self.size(it))
        return out

    def emit(self, base: int) -> bytes:
        off = self.offsets()
        buf = bytearray()
        for i, it in enumerate(self.items):
            k = it[0]
            if k == "raw":
                buf += it[1]
            elif k == "call":
                t = (base + off[it[1]]) & 0xFFFF
                buf += bytes([0x04, t & 0xFF, t >> 8])
            elif k == "callf":
                t = (base + off[it[1]]) & 0xFFFFF
                buf += bytes([0x05, t & 0xFF, (t >> 8) & 0xFF, t >> 16])
            elif k == "jrf":
                d = off[it[2]] - (off[i] + 2)
                assert 0 <= d <= 255
                buf += bytes([it[1], d])
            elif k == "jrb":
                d = (off[i] + 2) - off[it[2]]
                assert 0 <= d <= 255
                buf += bytes([it[1], d])
        return bytes(buf)


def _body_enc(st: S.Stream, pool: Pool, prog: Prog, imax: int) -> None:
    e = st.choice(pool.body)
    if e.counted:
        n = 1 + st.below(imax)
        prog.items.append(("raw", bytes([0x0B, n & 0xFF, 0x00])))
        prog.steps += 1
    prog.items.append(("raw", e.code))
    prog.steps += 1
    prog.shape.append(e.mn)


def build_program(st: S.Stream, pool: Pool, n: int, imax: int = 8) -> Prog:
    p = Prog()
    used_ir = False
    while p.steps < n:
        r = st.below(100)
        if r < 60:
            _body_enc(st, pool, p, imax)
        elif r < 68:
            # CALL / CALLF to the next instruction, never returned from: leaves call bookkeeping behind
            k = "call" if st.chance(2, 3) else "callf"
            p.items.append((k, len(p.items) + 1))
            p.steps += 1
            p.shape.append(k + "-noret")
        elif r < 74:
            # forward JR / JRcc over one body instruction
            op = st.choice((0x12, 0x18, 0x1A, 0x1C, 0x1E))
            at = len(p.items)
            p.items.append(("jrf", op, at + 2))
            e = st.choice(pool.safe)
            p.items.append(("raw", e.code))
            p.steps += 2 if op != 0x12 else 1
            p.shape.append(f"jrf{op:02X}")
        elif r < 82:
            # CALL L; JR end; L: body; RET; end:
            far = st.chance(1, 3)
            at = len(p.items)
            nb = 1 + st.below(3)
            p.items.append(("callf" if far else "call", at + 2))
            p.items.append(("jrf", 0x12, at + 2 + nb + 1))
            before = p.steps
            for _ in range(nb):
                p.items.append(("raw", st.choice(pool.safe).code))
            p.items.append(("raw", bytes([0x07 if far else 0x06])))
            p.steps = before + nb + 3
            p.shape.append("callf-retf" if far else "call-ret")
        elif r < 88:
            # IR ... handler (placed after the main flow) ... RETI
            p.items.append(("raw", bytes([0xFE])))
            used_ir = True
            p.steps += 4
            p.shape.append("ir-reti")
        elif r < 94:
            # counted loop: MV IL,k; L: INC A / body; DEC I; JRNZ L
            k = 2 + st.below(3)
            p.items.append(("raw", bytes([0x09, k])))
            at = len(p.items)
            p.items.append(("raw", st.choice(pool.safe).code))
            p.items.append(("raw", bytes([0x7C, 0x03])))
            p.items.append(("jrb", 0x1B, at))
            p.steps += 1 + 3 * k
            p.shape.append(f"loop{k}")
        else:
            p.items.append(("raw", bytes([0x00])))
            p.steps += 1
            p.shape.append("NOP")
    main_end = len(p.items)
    # pad, then the interrupt handler (shared by every IR of the program)
    p.items.append(("raw", bytes(12)))
    if used_ir:
        p.handler = len(p.items)
        p.items.append(("raw", st.choice(pool.safe).code))
        p.items.append(("raw", bytes([0x6C, 0x00])))
        p.items.append(("raw", bytes([0x01])))
        p.items.append(("raw", bytes(4)))
    _ = main_end
    return p


def place(prog: Prog, st: S.Stream, want_pc_at: Optional[int] = None) -> Tuple[int, bool]:
    """Choose the base address.  With want_pc_at, try to make one main-flow instruction start exactly there
    (and stay inside one 64 KiB page); returns (base, overlapped)."""
    off = prog.offsets()
    total = off[-1]
    if want_pc_at is not None:
        starts = [off[i] for i, it in enumerate(prog.items)
                  if it[0] == "raw" and len(it[1]) <= 7 and (prog.handler is None or i < prog.handler - 1)
                  and it[1] != bytes(12)]
        if starts:
            o = st.choice(starts[: max(1, len(starts))])
            base = want_pc_at - o
            if base >= 0x400 and (base & 0xFFFF) + total < 0xFFF0 and base + total < 0xFFF00:
                return base, True
    for _ in range(8):
        base = 0x01000 + st.below(0xE0000)
        if (base & 0xFFFF) + total < 0xFFF0:
            return base, False
    return 0x20000, False


def program_case(prog: Prog, st: S.Stream, base: int, max_steps: int) -> Dict[str, Any]:
    code = prog.emit(base)
    case, _ = S.gen_state(st, code, "", pc=base, pad=b"")
    if prog.handler is not None:
        h = (base + prog.offsets()[prog.handler]) & 0xFFFFF
        case["mem"] += [[INT_VECTOR, h & 0xFF], [INT_VECTOR + 1, (h >> 8) & 0xFF], [INT_VECTOR + 2, h >> 16]]
    case["steps"] = max(1, min(prog.steps, max_steps))
    # the run stops as soon as PC leaves the program (a pure function of PC, hence of architectural state)
    case["region"] = [base, base + prog.offsets()[-1]]
    return case


# --------------------------------------------------------------------------------------------------
# cases


def _junk(st: S.Stream) -> Dict[str, Any]:
    j: Dict[str, Any] = {}
    if not st.chance(1, 8):
        temps = {}
        for i in range(14):
            r = st.below(8)
            temps[f"TEMP{i}"] = (0xFFFFFF if r == 0 else 0x000100 if r == 1 else 0x800000 if r == 2
                                 else (st.u32() & 0xFFFFFF) | 1)
        j["temps"] = temps
    j["call_sub_level"] = st.choice((0, 1, 2, 7, 255, 1000, 65536))
    if st.chance(3, 4):
        j["call_pages"] = [st.u32() & 0xFF0000 for _ in range(1 + st.below(3))]
    if st.chance(3, 4):
        j["call_frames"] = [[st.u32() & 0xFFFFF, st.choice((16, 24, 0, 8))] for _ in range(1 + st.below(3))]
    if st.chance(1, 2):
        j["call_depth"] = st.choice((0, 1, 3, 100, 0xFFFFFFFF))
    return j


def _bias_memory(st: S.Stream, case: Dict[str, Any]) -> None:
    """Boundary-biased (mostly zero) data in internal memory and at the pointer registers' targets, so that
    zero/carry results -- where a stale flag accumulator or scratch value becomes visible -- are common.
    Inserted *before* the code/BP/PX/PY overrides (later entries win on both cores)."""
    extra: List[List[int]] = []
    vals = (0x00, 0x00, 0x00, 0x00, 0x01, 0xFF, 0x99, 0x80)
    for a in range(0x00, 0xEC):
        extra.append([S.IMEM + a, st.choice(vals)])
    for r in ("X", "Y", "U", "S"):
        p = case["regs"][r]
        for d in range(-4, 8):
            extra.append([(p + d) & 0xFFFFF, st.choice(vals)])
    code_addrs = {a for a, _ in case["mem"]}
    case["mem"] = [x for x in extra if x[0] not in code_addrs] + case["mem"]


def _shift(it: Tuple[Any, ...]) -> Tuple[Any, ...]:
    """Item with its target index moved by one (an item was inserted at the front)."""
    if it[0] in ("call", "callf"):
        return (it[0], it[1] + 1)
    if it[0] in ("jrf", "jrb"):
        return (it[0], it[1], it[2] + 1)
    return it


def _variant(st: S.Stream, e: Enc) -> Optional[bytes]:
    """The same encoding with its last byte changed, if that is still a valid non-control-flow, non-counted
    instruction of the same length."""
    if len(e.code) < 2 or e.cf or e.counted:
        return None
    v = e.code[:-1] + bytes([e.code[-1] ^ (1 << st.below(8))])
    if G.info_len(v + G.NOP_PAD) != len(e.code):
        return None
    ve = Enc(e.pre, v)
    if ve.cf or ve.counted or ve.mn != e.mn:
        return None
    return v


def gen_probe_case(pool: Pool, seed: int, shard: int, j: int, thorough: bool, nshards: int = 16) -> Dict[str, Any]:
    st = S.Stream(seed, shard, j, 0xC07A)
    nr = 1 if st.chance(7, 10) else (2 if st.chance(2, 3) else 3)
    rounds = []
    shapes: List[str] = []
    labels: List[str] = []
    overlap_any = False
    imax = 24 if thorough else 12
    for r in range(nr):
        if r == nr - 1:
            e = pool.all[(shard + nshards * j) % len(pool.all)]
        else:
            e = st.choice(pool.all)
        probe, plabels = S.gen_state(st, e.code, e.mn, imax=st.choice((2, 4, imax)))
        if st.chance(1, 3):
            _bias_memory(st, probe)
            plabels.append("mem:boundary-biased")
        n = st.choice((4, 6, 10, 16, 24, 40, 80, 150) if thorough else (4, 6, 10, 16, 24, 40))
        prog = build_program(st, pool, n, imax=6)
        want = probe["regs"]["PC"] if st.chance(1, 2) else None
        variant = _variant(st, e) if (want is not None and st.chance(1, 3)) else None
        if variant is not None and (want & 0xFFFF) + prog.offsets()[-1] + 8 < 0xFFF0:
            # the history *starts* at the probe's address with the probe's own encoding, last byte changed
            # (same head bytes at the same address: the classic stale decode-cache situation)
            prog.items.insert(0, ("raw", variant))
            prog.items = [prog.items[0]] + [_shift(it) for it in prog.items[1:]]
            if prog.handler is not None:
                prog.handler += 1
            prog.steps += 1
            base, overlapped = want, True
            plabels.append("history-starts-with-probe-variant")
        else:
            base, overlapped = place(prog, st, want)
        overlap_any = overlap_any or overlapped
        hist = program_case(prog, st, base, 220 if thorough else 90)
        junk = _junk(st)
        if mix32(seed, shard, j, r, 0x7ACE) & 1:
            junk["py_tracer"] = True
        rounds.append({"hist": hist, "junk": junk, "probe": probe})
        shapes += prog.shape
        if r == nr - 1:
            labels += [x for x in plabels if x.startswith(("ptr:", "mem:"))]
        labels += [x for x in plabels if x.startswith("history-starts")]
    return {"kind": "probe", "rounds": rounds, "shape": jhash(shapes, 8), "overlap": overlap_any,
            "ref_first": st.chance(1, 2),
            "labels": labels + (["history-overlaps-probe-pc"] if overlap_any else [])}


def gen_split_case(pool: Pool, seed: int, shard: int, j: int, thorough: bool) -> Dict[str, Any]:
    st = S.Stream(seed, shard, j, 0xC07B)
    n = st.choice((8, 12, 20, 30, 45, 60))
    prog = build_program(st, pool, n, imax=5)
    base, _ = place(prog, st, None)
    case = program_case(prog, st, base, 60)
    k = case["steps"]
    pts = list(range(1, k))
    if not thorough and len(pts) > 10:
        chosen = set()
        while len(chosen) < 10:
            chosen.add(st.choice(pts))
        pts = sorted(chosen)
    return {"kind": "split", "prog": case, "splits": pts, "shape": jhash([prog.shape, base], 8), "labels": []}
