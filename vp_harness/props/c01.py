"""C01 -- decoding any byte string is total, deterministic and consistent across consumers.

Generated domain
  (a) structural heads (pre x opcode x b2; complete in thorough, stratified 1/16 + all operand-validating
      opcodes in quick) with a hash tail, at boundary/random addresses;
  (b) for every accepted head: all truncations data[:k] and a set of hostile tails after the instruction;
  (c) raw Hypothesis byte strings x 20-bit addresses;
  (d) decode histories: re-decoding earlier strings after unrelated decodes.
Oracle: totality (no unexpected exception), 1 <= len <= len(data), independence of bytes beyond len and of
history, agreement of the four consumers (info / text / LLIL / emulator fetch) on acceptance, length, mnemonic.
"""

from __future__ import annotations

import os
from typing import Any, Dict, List, Optional, Tuple

from ..core import Ctx, HarnessError, Report, Violation, mix32
from .. import gen_enc as G

PROPERTY = "C01"
RULE = ("structural heads (prefix|none) x opcode x second byte enumerated (complete in thorough; quick = 1/16 "
        "stratified + every head of the operand-validating opcodes) with hash tails at boundary addresses; each "
        "accepted head re-decoded under all truncations and hostile tails; plus Hypothesis raw byte strings and "
        "decode histories; routine sweeps into one shared IL function with registered block labels; streamed decodes "
        "(fusion(iter_decode)) vs stand-alone decode; harness-scheduled pre-emption of one callback by another. "
        "Non-trivial = head accepted as an instruction, or rejected after consuming >= 2 bytes "
        "(operand validation), routine with >= 2 instructions, stream with an instruction following a prefixed one, "
        "pre-emption pair on different bytes; landmark operand values (vectors, window bases, own/fall-through "
        "address) placed as whole operands for every opcode; distinct = distinct (pre, opcode, b2) / distinct buffer.")

VALIDATING_OPCODES = sorted(set(
    [0x56, 0x5E, 0xED, 0xFD, 0x11]
    + list(range(0xE0, 0xE4)) + list(range(0xE8, 0xEC))
    + list(range(0xF0, 0xF4)) + list(range(0xF8, 0xFC))
    + list(range(0x90, 0x9F)) + list(range(0xB0, 0xBF))
    + list(range(0x44, 0x4F)) + list(range(0x80, 0x90)) + list(range(0xA0, 0xB0))
))

ADDRS = (0x0, 0x0FFFE, 0x1FFFD, 0xFFFFB, 0x1000)


def _mem(addr: int, data: bytes, seed: int):
    from binja_test_mocks.eval_llil import Memory

    store = {(addr + i): b for i, b in enumerate(data)}

    def rd(a: int) -> int:
        v = store.get(a)
        if v is None:
            return mix32(seed, a) & 0xFF
        return v

    def wr(a: int, v: int) -> None:
        store[a] = v & 0xFF

    return Memory(rd, wr)


def _exc_name(exc: BaseException) -> str:
    return type(exc).__name__


def consumers(data: bytes, addr: int, with_emu: bool = True, exact_emu: bool = False) -> Dict[str, Any]:
    """Run the four consumers; return {'info': len|None|('EXC',name), 'text': (text,len)|None|..., 'il': ..., 'emu': (name,len)|...}."""
    from binja_test_mocks.mock_llil import MockLowLevelILFunction

    a = G.arch()
    out: Dict[str, Any] = {}
    try:
        info = a.get_instruction_info(bytes(data), addr)
        out["info"] = None if info is None else int(info.length)
    except BaseException as exc:  # noqa: BLE001 - totality is the property
        out["info"] = ("EXC", _exc_name(exc))
    try:
        r = a.get_instruction_text(bytes(data), addr)
        if r is None:
            out["text"] = None
        else:
            toks, ln = r
            out["text"] = ("".join(str(getattr(t, "text", t)) for t in toks), int(ln),
                           str(getattr(toks[0], "text", toks[0])) if toks else "")
    except BaseException as exc:  # noqa: BLE001
        out["text"] = ("EXC", _exc_name(exc))
    try:
        il = MockLowLevelILFunction()
        ln = a.get_instruction_low_level_il(bytes(data), addr, il)
        out["il"] = None if ln is None else int(ln)
    except BaseException as exc:  # noqa: BLE001
        out["il"] = ("EXC", _exc_name(exc))
    if with_emu:
        try:
            from sc62015.pysc62015.emulator import Emulator

            emu = Emulator(_mem(addr, data, 0xC01), reset_on_init=False)
            ins = emu.decode_instruction(addr)
            out["emu"] = (str(ins.name()), int(ins.length()))
        except BaseException as exc:  # noqa: BLE001
            out["emu"] = ("EXC", _exc_name(exc))
    return out


def call_one(cb: str, data: bytes, addr: int) -> Any:
    """One consumer alone (same result encoding as consumers())."""
    from binja_test_mocks.mock_llil import MockLowLevelILFunction

    a = G.arch()
    try:
        if cb == "info":
            info = a.get_instruction_info(bytes(data), addr)
            return None if info is None else int(info.length)
        if cb == "text":
            r = a.get_instruction_text(bytes(data), addr)
            if r is None:
                return None
            toks, ln = r
            return ("".join(str(getattr(t, "text", t)) for t in toks), int(ln),
                    str(getattr(toks[0], "text", toks[0])) if toks else "")
        if cb == "il":
            ln = a.get_instruction_low_level_il(bytes(data), addr, MockLowLevelILFunction())
            return None if ln is None else int(ln)
        from sc62015.pysc62015.emulator import Emulator

        ins = Emulator(_mem(addr, data, 0xC01), reset_on_init=False).decode_instruction(addr)
        return (str(ins.name()), int(ins.length()))
    except BaseException as exc:  # noqa: BLE001
        return ("EXC", _exc_name(exc))


def _is_exc(x: Any) -> bool:
    return isinstance(x, tuple) and len(x) == 2 and x[0] == "EXC"


def _where(data: bytes) -> str:
    """Semantic location: prefix class + opcode of the instruction under test."""
    if not data:
        return "empty buffer"
    if data[0] in G.PRE_OPCODES:
        op = f"{data[1]:02X}" if len(data) > 1 else "--"
        return f"PRE+opcode {op}"
    return f"opcode {data[0]:02X}"


def hostile_tails(seed: int, data_len_bytes: bytes) -> List[Tuple[str, bytes]]:
    same = bytes(data_len_bytes[:1]) + bytes((b ^ 0x5A) for b in data_len_bytes[1:])
    return [
        ("exact", b""),
        ("nop", bytes(8)),
        ("invalid-56", bytes([0x56, 0x04, 0x00, 0x00])),
        ("invalid-5E", bytes([0x5E, 0x00, 0x00, 0x00])),
        ("invalid-E3", bytes([0xE3, 0x00, 0x00, 0x00])),
        ("pre", bytes([0x32])),
        ("pre-pre", bytes([0x32, 0x30, 0x00])),
        ("unk20", bytes([0x20, 0x20])),
        ("same-opcode", same + bytes(4)),
        ("hash", bytes(mix32(seed, i) & 0xFF for i in range(6))),
    ]


def check_bytes(data: bytes, addr: int, rep: Report, deep: bool, label: str) -> None:
    """All C01 verdicts for one (data, addr)."""
    case_base = {"data": data.hex(), "addr": addr, "kind": label}
    res = consumers(data, addr)
    info = res["info"]
    where = _where(data)

    # totality
    for cname, val in res.items():
        if _is_exc(val):
            rep.violate(Violation("totality", f"{cname}: {where}", f"raises {val[1]}",
                                  case_base, f"{cname}({data.hex()} @ {addr:#x}) raised {val[1]}"))
    accepted = isinstance(info, int)
    nontrivial = accepted
    if accepted:
        ln = info
        if not (1 <= ln <= len(data)):
            rep.violate(Violation("length-bounds", where, "length outside 1..len(data)", case_base,
                                  f"len={ln} supplied={len(data)}"))
        text = res["text"]
        if text is None:
            # The statement requires the text callback to accept whatever the info callback accepts (the usual cause
            # is the encode round-trip guard, which C02 examines in detail).
            rep.violate(Violation("consumer-agreement", f"text: {where}", "info accepts, text callback rejects", case_base,
                                  f"info={ln} text=None for {data[:ln].hex()}"))
        elif not _is_exc(text):
            if text[1] != ln:
                rep.violate(Violation("consumer-agreement", f"text: {where}", "length differs from info", case_base,
                                      f"info={ln} text={text[1]}"))
        il = res["il"]
        if il is None:
            rep.violate(Violation("consumer-agreement", f"il: {where}", "info accepts, LLIL rejects", case_base,
                                  f"info={ln} il=None"))
        elif not _is_exc(il) and il != ln:
            rep.violate(Violation("consumer-agreement", f"il: {where}", "length differs from info", case_base,
                                  f"info={ln} il={il}"))
        emu = res.get("emu")
        if emu is not None and not _is_exc(emu):
            ename, elen = emu
            if ename.startswith("UNK_"):
                rep.violate(Violation("consumer-agreement", f"emu: {where}", "info accepts, emulator fetch rejects",
                                      case_base, f"info={ln} emu={emu}"))
            else:
                if elen != ln:
                    rep.violate(Violation("consumer-agreement", f"emu: {where}", "length differs from info", case_base,
                                          f"info={ln} emu={elen}"))
                if text is not None and not _is_exc(text) and text[2] != ename:
                    rep.violate(Violation("consumer-agreement", f"emu: {where}", "mnemonic differs from text", case_base,
                                          f"text={text[2]!r} emu={ename!r}"))
    else:
        # rejected: the other arch callbacks should reject too (they share the decoder); text/IL accepting while
        # info rejects is allowed by the statement (implication is one-directional) -> only labelled.
        pass

    if deep and accepted and 1 <= info <= len(data):
        ln = info
        body = data[:ln]
        ref_text = res["text"]
        # trailing-byte independence
        for tname, tail in hostile_tails(mix32(addr, ln), body):
            d2 = body + tail
            r2 = consumers(d2, addr, with_emu=(tname in ("exact", "invalid-5E", "same-opcode", "pre")))
            c2 = {"data": d2.hex(), "addr": addr, "kind": f"tail:{tname}", "instr_len": ln}
            for cname, val in r2.items():
                if _is_exc(val):
                    rep.violate(Violation("trailing-bytes", f"{cname}: tail {tname}", f"raises {val[1]}", c2,
                                          f"{body.hex()} followed by {tail.hex()} -> {cname} raised {val[1]}"))
            if r2["info"] != ln and not _is_exc(r2["info"]):
                rep.violate(Violation("trailing-bytes", f"info: tail {tname}",
                                      "rejected" if r2["info"] is None else "length changed", c2,
                                      f"{body.hex()} len {ln}; with tail {tail.hex()} info={r2['info']}"))
            t2 = r2["text"]
            if (ref_text is not None and not _is_exc(ref_text) and not _is_exc(t2) and t2 != ref_text):
                rep.violate(Violation("trailing-bytes", f"text: tail {tname}",
                                      "rejected" if t2 is None else "text/length changed", c2,
                                      f"{body.hex()} -> {ref_text[:2]}; with tail {tail.hex()} -> {t2 and t2[:2]}"))
            e2 = r2.get("emu")
            if e2 is not None and not _is_exc(e2) and not _is_exc(res.get("emu")) and e2 != res.get("emu"):
                rep.violate(Violation("trailing-bytes", f"emu: tail {tname}", "fetch result changed", c2,
                                      f"{body.hex()} -> {res.get('emu')}; with tail {tail.hex()} -> {e2}"))
        # truncation: every shorter buffer decodes cleanly and never to the full instruction
        for k in range(0, ln):
            d3 = data[:k]
            r3 = consumers(d3, addr, with_emu=False)
            c3 = {"data": d3.hex(), "addr": addr, "kind": f"trunc:{k}", "instr_len": ln}
            for cname, val in r3.items():
                if _is_exc(val):
                    rep.violate(Violation("truncation", f"{cname}: {where}", f"raises {val[1]}", c3,
                                          f"{cname}({d3.hex()}) raised {val[1]}"))
            if isinstance(r3["info"], int) and r3["info"] > k:
                rep.violate(Violation("truncation", where, "length exceeds supplied bytes", c3,
                                      f"supplied {k} bytes, info.length={r3['info']}"))

    labels = ["accepted" if accepted else "rejected", f"kind:{label}"]
    key = None
    if len(data) >= 1:
        pre = data[0] if data[0] in G.PRE_OPCODES else None
        rest = data[1:] if pre is not None else data
        if accepted or (len(rest) >= 2 and not accepted and info is None and rest[0] in VALIDATING_OPCODES):
            nontrivial = True
        if nontrivial and len(rest) >= 1:
            key = f"{pre}:{rest[0]:02X}:{rest[1]:02X}" if len(rest) > 1 else f"{pre}:{rest[0]:02X}"
    sample = None
    if rep.evaluations % 50021 == 7 or (accepted and rep.evaluations % 9973 == 3):
        sample = {"data": data.hex(), "addr": f"{addr:#x}", "info_len": info if not _is_exc(info) else str(info),
                  "text": (res["text"][0] if isinstance(res["text"], tuple) and not _is_exc(res["text"]) else res["text"]),
                  "emu": res.get("emu")}
    rep.case(key, labels, sample)


def _shard(task: Tuple[int, int, int, str, int]) -> Report:
    shard, nshards, seed, tier, _ = task
    rep = Report()
    quick = tier == "quick"
    idx = 0
    for pre in G.PRES:
        for op in range(256):
            full_op = (not quick) or (op in VALIDATING_OPCODES)
            for b2 in range(256):
                idx += 1
                if idx % nshards != shard:
                    continue
                if not full_op:
                    # stratified 1/16 sample: every (pre, opcode) pair gets 16 b2 values
                    if (mix32(seed, 0 if pre is None else pre, op, b2) % 16) != 0:
                        continue
                tail = G.hash_tail(seed, pre, op, b2, 5)
                data = G.head_bytes(pre, op, b2) + tail
                h = mix32(seed, idx)
                addr = ADDRS[h % len(ADDRS)] if (h >> 4) % 3 else (h >> 8) & 0xFFFFF
                # deep (tails/truncations) on a deterministic subset to bound cost
                deep = (not quick and (h >> 12) % 4 == 0) or (quick and (h >> 12) % 8 == 0) or op in (0x56, 0x5E, 0xE3)
                check_bytes(data, addr, rep, deep, "head")
    return rep


def _raw_test(rep: Report, n: int, label: str = "raw") -> Any:
    """The raw-bytes @given test (unseeded); driven by Hypothesis (_hyp_raw) and by the covfuzz phase."""
    import hypothesis
    from hypothesis import given, settings, strategies as st, HealthCheck

    @settings(max_examples=n, deadline=None, database=None, report_multiple_bugs=False,
              suppress_health_check=list(HealthCheck), phases=[hypothesis.Phase.generate])
    @given(st.binary(min_size=0, max_size=8), st.one_of(st.sampled_from(ADDRS), st.integers(0, 0xFFFFF)))
    def prop(data: bytes, addr: int) -> None:
        check_bytes(data, addr, rep, True, label)

    return prop


def _hyp_raw(seed: int, n: int) -> Report:
    import hypothesis

    rep = Report()
    hypothesis.seed(seed)(_raw_test(rep, n))()
    return rep


def _history_test(rep: Report, n: int, tag: Optional[str] = None) -> Any:
    """Decode histories: result for (bytes, addr) is the same before and after arbitrary other decodes.
    (unseeded @given test; driven by Hypothesis (_hyp_history) and by the covfuzz phase)"""
    import hypothesis
    from hypothesis import given, settings, strategies as st, HealthCheck

    valid = st.sampled_from([bytes.fromhex(x) for x in ("dc102030aabb", "32dc102030aabb", "30f08010203040", "21fb80102030", "0c123456",
                                                        "08550800", "32a010", "e90410", "ccf1f2", "0312345f")])
    item = st.tuples(st.one_of(st.binary(min_size=1, max_size=8), valid), st.sampled_from(ADDRS))

    def summary(data: bytes, addr: int) -> Any:
        r = consumers(data, addr)
        return r

    @settings(max_examples=n, deadline=None, database=None, report_multiple_bugs=False,
              suppress_health_check=list(HealthCheck), phases=[hypothesis.Phase.generate])
    @given(st.lists(item, min_size=2, max_size=12), st.data())
    def prop(items: List[Tuple[bytes, int]], d: Any) -> None:
        first: Dict[Tuple[bytes, int], Any] = {}
        order = list(items)
        # near-duplicates: same address, same leading bytes, one later byte changed (a cache keyed on too short a
        # prefix of the bytes, or on the address alone, answers for the earlier string)
        for _ in range(d.draw(st.integers(0, 4))):
            base, baddr = order[d.draw(st.integers(0, len(order) - 1))]
            base = base + bytes(d.draw(st.integers(0, 3)))  # optionally longer, so that late positions exist
            pos = d.draw(st.integers(0, len(base) - 1))
            var = bytearray(base)
            var[pos] = (var[pos] ^ d.draw(st.integers(1, 255))) & 0xFF
            order.append((base, baddr))
            order.append((bytes(var), baddr))
        # history = decode all, then re-decode in a generated permutation order
        for data, addr in order:
            first.setdefault((data, addr), summary(data, addr))
        perm = d.draw(st.permutations(order))
        nt = False
        # each callback on its own, in a generated order (Binary Ninja may ask for text or IL of one address right after
        # analysing another): the answer must be the one given in the reference pass above
        calls: List[Any] = []
        for data, addr in perm[:8]:
            for cb in d.draw(st.sampled_from([("text",), ("il",), ("text", "il"), ("info",), ("il", "text", "info"), ("emu", "text")])):
                got = call_one(cb, data, addr)
                calls.append([cb, data.hex(), addr])
                want = first[(data, addr)].get(cb)
                if got != want:
                    rep.violate(Violation("history", f"{cb}: " + _where(data),
                                          "callback invoked on its own after other decodes gives a different result",
                                          {"kind": "solo-history", "reference_pass": [(x.hex(), a) for x, a in order],
                                           "calls": list(calls)},
                                          f"{cb}({data.hex()} @ {addr:#x}) alone={got} reference={want}"))
        for data, addr in perm:
            again = summary(data, addr)
            if again != first[(data, addr)]:
                rep.violate(Violation("history", _where(data), "re-decoding after other decodes gives a different result",
                                      {"history": [(x.hex(), a) for x, a in order + list(perm)], "data": data.hex(),
                                       "addr": addr, "kind": "history"},
                                      f"{data.hex()}: first={first[(data, addr)]} again={again}"))
            if isinstance(again.get("info"), int):
                nt = True
        rep.case("hist:" + ",".join(x.hex() for x, _ in order) if nt else None, ["kind:history"] + ([tag] if tag else []),
                 {"history": [x.hex() for x, _ in order]} if rep.evaluations % 500 == 1 else None)

    return prop


def _hyp_history(seed: int, n: int) -> Report:
    import hypothesis

    rep = Report()
    hypothesis.seed(seed)(_history_test(rep, n))()
    return rep


def emu_history_violations(ops: List[Any]) -> Tuple[List[Violation], int]:
    """One long-lived Emulator over a mutable memory. ops: ["put", where, hexbytes] writes instruction bytes (host
    write), ["fetch", where] calls Emulator.decode_instruction; `where` is "next" (address following the last fetched
    instruction), "same" (last fetched address) or an integer address. Every fetch must equal what a *fresh* emulator
    fetches from the same memory contents and agree with the info callback (length) -- the fetch path must not depend
    on anything fetched or decoded earlier."""
    from sc62015.pysc62015.emulator import Emulator
    from binja_test_mocks.eval_llil import Memory

    store: Dict[int, int] = {}

    def rd(a: int) -> int:
        v = store.get(a)
        return (mix32(0xE01, a) & 0xFF) if v is None else v

    def wr(a: int, v: int) -> None:
        store[a] = v & 0xFF

    emu = Emulator(Memory(rd, wr), reset_on_init=False)
    out: List[Violation] = []
    last_addr, next_addr = 0x1000, 0x1000
    fetches = 0
    for i, op in enumerate(ops):
        where = op[1]
        addr = next_addr if where == "next" else last_addr if where == "same" else int(where)
        addr &= 0xFFFFF
        if op[0] == "put":
            for j, b in enumerate(bytes.fromhex(op[2])):
                store[(addr + j) & 0xFFFFF] = b
            continue
        case = {"kind": "emu-history", "ops": ops[: i + 1]}
        try:
            ins = emu.decode_instruction(addr)
            got = (str(ins.name()), int(ins.length()))
        except BaseException as exc:  # noqa: BLE001
            out.append(Violation("totality", "emu: fetch history", f"raises {_exc_name(exc)}", case,
                                 f"fetch #{i} at {addr:#x} raised {_exc_name(exc)}"))
            break
        fresh = Emulator(Memory(rd, wr), reset_on_init=False)
        try:
            fins = fresh.decode_instruction(addr)
            want = (str(fins.name()), int(fins.length()))
        except BaseException as exc:  # noqa: BLE001
            want = ("EXC", _exc_name(exc))
        data = bytes(rd((addr + j) & 0xFFFFF) for j in range(16)) if addr < 0xFFFF0 else bytes(rd(addr + j) for j in range(0x100000 - addr))
        fetches += 1
        if got != want:
            out.append(Violation("history", "emu: fetch after earlier fetches/writes",
                                 "long-lived emulator fetch differs from a fresh emulator on the same memory", case,
                                 f"at {addr:#x} bytes {data[:8].hex()}: long-lived={got} fresh={want}"))
            break
        try:
            info = G.arch().get_instruction_info(data, addr)
        except BaseException:  # noqa: BLE001
            info = None
        if info is not None and not got[0].startswith("UNK_") and int(info.length) != got[1]:
            out.append(Violation("consumer-agreement", "emu: fetch history", "length differs from info", case,
                                 f"at {addr:#x} bytes {data[:8].hex()}: info={int(info.length)} emu={got}"))
            break
        last_addr, next_addr = addr, (addr + got[1]) & 0xFFFFF
    return out, fetches


def _emu_history_test(rep: Report, n: int, tag: Optional[str] = None) -> Any:
    import hypothesis
    from hypothesis import given, settings, strategies as st, HealthCheck

    where = st.one_of(st.sampled_from(["next", "next", "next", "same"]), st.sampled_from([0x1000, 0x1004, 0x2000, 0xFFFF0, 0x0FFFC]))
    code = st.one_of(st.binary(min_size=1, max_size=7),
                     st.sampled_from([bytes([0x00]), bytes([0x08, 0x55]), bytes([0x32, 0xA0, 0x10]), bytes([0x0C, 1, 2, 3]),
                                      bytes([0x56, 0x04]), bytes([0x32]), bytes([0xE3, 0x00, 0x10])]))
    op = st.one_of(st.tuples(st.just("put"), where, code.map(lambda b: b.hex())), st.tuples(st.just("fetch"), where))

    @settings(max_examples=n, deadline=None, database=None, report_multiple_bugs=False,
              suppress_health_check=list(HealthCheck), phases=[hypothesis.Phase.generate])
    @given(st.lists(op, min_size=3, max_size=24))
    def prop(ops: List[Any]) -> None:
        ops = [list(o) for o in ops]
        vs, fetches = emu_history_violations(ops)
        for v in vs:
            rep.violate(v)
        puts_after_fetch = any(o[0] == "put" and any(p[0] == "fetch" for p in ops[:k]) for k, o in enumerate(ops))
        rep.case("emuhist:" + repr(ops) if (fetches >= 2 and puts_after_fetch) else None,
                 ["kind:emu-history"] + ([tag] if tag else []), {"ops": ops} if rep.evaluations % 400 == 1 else None)

    return prop


def _hyp_emu_history(seed: int, n: int) -> Report:
    import hypothesis

    rep = Report()
    hypothesis.seed(seed)(_emu_history_test(rep, n))()
    return rep


# ---------------------------------------------------------------------------------------------- covfuzz phase
# Coverage-guided driver (vp_harness/covfuzz.py): libFuzzer mutates the byte string from which the SAME three
# strategies draw, with the decoder package instrumented; cases go to the SAME bodies (check_bytes, the history
# bodies, emu_history_violations).
COVFUZZ = True
COVFUZZ_INSTRUMENT = ["sc62015.pysc62015.instr"]
COVFUZZ_PREIMPORT = ["sc62015.arch", "sc62015.pysc62015.emulator", "binja_test_mocks.mock_llil",
                     "binja_test_mocks.eval_llil"]


def covfuzz_test(target: str, rep: Report, extra: Dict[str, Any]) -> Any:
    _preload()
    if target == "raw":
        return _raw_test(rep, 1, "covfuzz")
    if target == "hist":
        return _history_test(rep, 1, "covfuzz")
    if target == "emu":
        return _emu_history_test(rep, 1, "covfuzz")
    raise HarnessError(f"unknown covfuzz target {target!r}")


def _covfuzz_phase(ctx: Ctx) -> Report:
    from .. import covfuzz as CF

    plan = (("raw", 0, ctx.pick(6, 8), ctx.pick(1000, 20000), 64),
            ("hist", 1, ctx.pick(5, 4), ctx.pick(200, 4000), 1024),
            ("emu", 2, ctx.pick(5, 4), ctx.pick(400, 8000), 1024))
    jobs = [{"target": target, "seeds": [ctx.shard_seed(3000 + 100 * j + i) for i in range(shards)], "runs": runs,
             "max_len": max_len, "pad_len": max(max_len, 2048), "extra": {}, "budget_s": ctx.pick(20.0, 120.0)}
            for target, j, shards, runs, max_len in plan]
    return CF.cov_fuzz_jobs("vp_harness.props.c01", jobs, COVFUZZ_INSTRUMENT, COVFUZZ_PREIMPORT)


def _landmark_shard(task: Tuple[int, int, int, str]) -> Report:
    """Whole-operand landmark values (vectors, window bases, the instruction's own address, its fall-through address ...)
    for every opcode: all prefixes in thorough, no prefix + three seed-chosen prefixes per opcode in quick."""
    shard, nshards, seed, tier = task
    _preload()
    rep = Report()
    for op in range(256):
        if op % nshards != shard or G.is_pre(op):
            continue
        if tier == "quick":
            pres = [None] + [G.PRE_OPCODES[mix32(seed, op, j) % len(G.PRE_OPCODES)] for j in range(3)]
        else:
            pres = list(G.PRES)
        for pre in pres:
            h = mix32(seed, op, 0 if pre is None else pre, 0x1A)
            addr = ADDRS[h % len(ADDRS)] if (h >> 4) % 3 else (h >> 8) & 0xFFFFF
            for tag, data in G.landmark_buffers(pre, op, addr, seed):
                check_bytes(data, addr, rep, False, "landmark")
    return rep


def _sched_task(t: Tuple[str, str, int, int]) -> Report:
    """routine / stream / preempt sub-checks (see c01_sched.py).  t = (prop, kind, seed, n)."""
    from . import c01_sched as S

    prop, kind, seed, n = t
    _preload()
    rep = Report()
    pool = [b for _p, b in G.sample_valid_encodings(mix32(seed, 0x51), 1500)[0]]
    for i in range(n):
        cs = mix32(seed, 0x52, i)
        if kind == "routine":
            buf, base, extra = S.gen_routine(cs, pool)
            vs, n_ins, _hits = S.routine_violations(buf, base, extra)
            for v in vs:
                rep.violate(v)
            rep.case(f"routine:{buf.hex()}:{base}" if n_ins >= 2 else None, ["kind:routine"],
                     {"routine": buf.hex(), "base": f"{base:#x}", "labels": extra} if i % 400 == 1 else None)
        elif kind == "stream":
            buf, addr, _n = S.gen_stream(cs, pool)
            vs, n_ins, after_pre = S.stream_violations(prop, buf, addr)
            for v in vs:
                rep.violate(v)
            rep.case(f"stream:{buf.hex()}:{addr}" if after_pre >= 1 else None, ["kind:stream"],
                     {"stream": buf.hex(), "addr": f"{addr:#x}", "instructions": n_ins} if i % 400 == 1 else None)
        else:
            cbs = ("text", "info", "il", "rt", "emu")
            h = mix32(cs, 1)
            a = [cbs[h % 5] if prop == "C01" else ("text", "rt", "il")[h % 3], (pool[(h >> 4) % len(pool)] + bytes(4)).hex(),
                 ADDRS[(h >> 20) % len(ADDRS)]]
            h2 = mix32(cs, 2)
            b = [cbs[h2 % 5], (pool[(h2 >> 4) % len(pool)] + bytes((h2 >> 24) % 3)).hex(), ADDRS[(h2 >> 20) % len(ADDRS)]]
            kfrac = mix32(cs, 3) % 10000
            vs, inf = S.preempt_violations(prop, a, b, kfrac)
            for v in vs:
                rep.violate(v)
            rep.case(f"preempt:{a}:{b}:{kfrac}" if inf.get("lines", 0) > 0 and a[1] != b[1] else None, ["kind:preempt"],
                     {"a": a, "b": b, "line": inf.get("k"), "lines": inf.get("lines")} if i % 300 == 1 else None)
    return rep


def _preload() -> None:
    """Import every repository module the checks use before Hypothesis generates anything (Hypothesis harvests
    constants from loaded local modules, so lazy imports would make generation depend on import order)."""
    import sc62015.arch  # noqa: F401
    import sc62015.pysc62015.emulator  # noqa: F401
    import binja_test_mocks.mock_llil  # noqa: F401
    import binja_test_mocks.eval_llil  # noqa: F401


def _raw_task(t: Tuple[str, int, int]) -> Report:
    kind, seed, n = t
    _preload()
    if kind == "raw":
        return _hyp_raw(seed, n)
    if kind == "emu":
        return _hyp_emu_history(seed, n)
    return _hyp_history(seed, n)


def run(ctx: Ctx) -> Report:
    from .. import covfuzz as CF

    if CF.only_phase() == "covfuzz":
        rep = _covfuzz_phase(ctx)
        rep.rule = RULE
        return rep
    nshards = 64
    tasks = [(i, nshards, ctx.seed, ctx.tier, 0) for i in range(nshards)]
    reports = ctx.pmap(_shard, tasks)
    n_raw = ctx.pick(2000, 30000)
    n_hist = ctx.pick(800, 8000)
    n_emu = ctx.pick(1600, 16000)
    extra = [("raw", ctx.shard_seed(100 + i), n_raw // 8) for i in range(8)] + \
            [("hist", ctx.shard_seed(200 + i), n_hist // 8) for i in range(8)] + \
            [("emu", ctx.shard_seed(300 + i), n_emu // 8) for i in range(8)]
    reports += ctx.pmap(_raw_task, extra)
    reports += ctx.pmap(_landmark_shard, [(i, 32, ctx.seed, ctx.tier) for i in range(32)])
    n_rt, n_st, n_pe = ctx.pick(1600, 16000), ctx.pick(3200, 32000), ctx.pick(1600, 12000)
    reports += ctx.pmap(_sched_task, [(PROPERTY, k, ctx.shard_seed(400 + 10 * j + i), n // 8)
                                      for j, (k, n) in enumerate((("routine", n_rt), ("stream", n_st), ("preempt", n_pe)))
                                      for i in range(8)])
    rep = ctx.merge_reports(reports)
    if COVFUZZ:
        CF.merge_covfuzz(rep, _covfuzz_phase(ctx))
    rep.rule = RULE
    rep.exhaustive = ctx.tier == "thorough"
    rep.extra["structural_heads_total"] = len(G.PRES) * 65536
    rep.extra["exhaustive_dimension"] = ("(pre, opcode, second byte) complete" if ctx.tier == "thorough"
                                         else "operand-validating opcodes complete; others 1/16 stratified")
    rep.assumptions = [
        "emulator fetch histories compare a long-lived Emulator with a fresh one on the same memory contents",
        "emulator fetch path = Emulator.decode_instruction on a memory holding the bytes at the address",
        "an accepted instruction is compared across tails only on length/text/mnemonic (not object identity)",
    ]
    if COVFUZZ:
        rep.assumptions.append(CF.ASSUMPTION)
    return rep


def replay(ctx: Ctx, case: Dict[str, Any]) -> List[Violation]:
    rep = Report()
    if case.get("kind") == "solo-history":
        ref: Dict[Any, Any] = {}
        for hx, addr in case["reference_pass"]:
            ref.setdefault((hx, addr), consumers(bytes.fromhex(hx), addr))
        for cb, hx, addr in case["calls"]:
            got = call_one(cb, bytes.fromhex(hx), addr)
            want = ref.get((hx, addr), {}).get(cb)
            if (hx, addr) in ref and got != want:
                rep.violate(Violation("history", f"{cb}: " + _where(bytes.fromhex(hx)),
                                      "callback invoked on its own after other decodes gives a different result", case,
                                      f"{cb}({hx} @ {addr:#x}) alone={got} reference={want}"))
        return rep.violations
    if case.get("kind") == "emu-history":
        return emu_history_violations(case["ops"])[0]
    if case.get("kind") in ("routine", "stream", "preempt"):
        from . import c01_sched as S

        if case["kind"] == "routine":
            return S.routine_violations(bytes.fromhex(case["data"]), int(case["addr"]), list(case.get("labels", [])))[0]
        if case["kind"] == "stream":
            return S.stream_violations(PROPERTY, bytes.fromhex(case["data"]), int(case["addr"]))[0]
        return S.preempt_violations(PROPERTY, case["a"], case["b"], int(case["kfrac"]))[0]
    if case.get("kind") == "history" and "history" in case:
        first: Dict[Any, Any] = {}
        for hx, addr in case["history"]:
            data = bytes.fromhex(hx)
            r = consumers(data, addr)
            if (hx, addr) in first and first[(hx, addr)] != r:
                rep.violate(Violation("history", _where(data), "re-decoding after other decodes gives a different result",
                                      case, f"{hx}: first={first[(hx, addr)]} again={r}"))
            first.setdefault((hx, addr), r)
        return rep.violations
    data = bytes.fromhex(case["data"])
    addr = int(case["addr"])
    kind = str(case.get("kind", "head"))
    if kind.startswith("tail:") or kind.startswith("trunc:"):
        ln = int(case.get("instr_len", 0))
        if kind.startswith("tail:"):
            # re-run the deep check from the instruction body plus the padding that makes it decodable alone
            check_bytes(data[:ln] + bytes(8), addr, rep, True, "head")
            # and the exact stored buffer
            check_bytes(data, addr, rep, False, "head")
        else:
            check_bytes(data, addr, rep, False, "head")
        return rep.violations
    check_bytes(data, addr, rep, True, kind)
    return rep.violations
