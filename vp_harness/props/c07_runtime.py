"""C07 helper: N+M split at the level of the Rust *machine* (`CoreRuntime::step`).

`CoreRuntime::step(n)` runs n instructions in one call; the statement ("running a program for N+M steps is
indistinguishable from running it N steps and then M steps") must hold for every way a host slices a run into
step() calls.  Scenarios (ROM program + timers + initial IMR/ISR, no host events) come from C12's generator; the
reference is step(1) x total with an observation after every step, each partition is run on a fresh machine with
one step(part) call per part (rust/harness/src/machine.rs, verb machine.split) and compared with the reference
observation at the same instruction count.  The Python machine has no multi-instruction step call, so there is
nothing to split there.
"""

from __future__ import annotations

from typing import Any, Dict, List, Tuple

from ..core import HarnessError, Report, Violation, jhash
from ..gen_state import Stream
from .. import rsclient

TOTAL = 24


def gen_case(st: Stream) -> Dict[str, Any]:
    from . import c12 as C12
    from .. import c12_rsmachine as RS

    sc, skel = C12.random_scenario(st)
    sc["events"] = []
    sc["steps"] = TOTAL
    parts: List[List[int]] = [[TOTAL]]
    for _ in range(3):
        k = 1 + st.below(TOTAL - 1)
        parts.append([k, TOTAL - k])
    a = 1 + st.below(TOTAL - 2)
    b = 1 + st.below(TOTAL - a - 1) if TOTAL - a - 1 > 0 else 1
    parts.append([a, b, TOTAL - a - b])
    parts.append([2] * (TOTAL // 2))
    return {"kind": "runtime-split", "scenario": sc, "skel": skel, "parts": parts}


def _diff(a: Dict[str, Any], b: Dict[str, Any]) -> List[str]:
    out = []
    for k in sorted(set(a) | set(b)):
        if a.get(k) != b.get(k):
            out.append(k)
    return out


def check_cases(cases: List[Dict[str, Any]]) -> List[Tuple[Dict[str, Any], List[Violation], bool]]:
    """Returns per case (case, violations, nontrivial)."""
    from .. import c12_rsmachine as RS

    reqs = []
    for c in cases:
        r = RS.request_of(c["scenario"])
        r["parts"] = c["parts"]
        reqs.append(r)
    resp = rsclient.shared().call({"cmd": "machine.split", "scenarios": reqs}, retry=True)
    if not resp.get("ok"):
        raise HarnessError(f"machine.split failed: {str(resp)[:300]}")
    out = []
    for c, res in zip(cases, resp["results"]):
        if res.get("err"):
            raise HarnessError(f"machine.split setup failed: {res['err']}")
        ref = res["ref"]
        vs: List[Violation] = []
        for run in res["runs"]:
            if run.get("err"):
                vs.append(Violation("runtime-split", "rs-machine: CoreRuntime::step(n)", "batched step call fails where single steps succeed",
                                    dict(c, focus=run["parts"]), f"parts {run['parts']}: {run['err']}"))
                break
            done = 0
            bad = None
            for p, obs in zip(run["parts"], run["obs"]):
                done += p
                d = _diff(ref[done - 1], obs)
                if d:
                    bad = (done, d, ref[done - 1], obs)
                    break
            if bad:
                done, d, ro, oo = bad
                fields = ",".join(d)
                vs.append(Violation("runtime-split", "rs-machine: CoreRuntime::step(n)", "machine state differs from single-stepping the same number of instructions",
                                    dict(c, focus=run["parts"]),
                                    f"parts {run['parts']}: after {done} instructions fields {fields}: " +
                                    "; ".join(f"{k} single={ro.get(k)} batched={oo.get(k)}" for k in d[:4])))
                break
        # non-trivial: at least one interrupt delivery or a low-power transition happened in the reference run
        nt = False
        try:
            s0 = ref[0].get("s")
            nt = any(o.get("s") != s0 for o in ref) or any(o.get("pw") not in (None, 0) for o in ref)
        except Exception:
            nt = False
        out.append((c, vs, nt))
    return out


def run_shard(seed: int, shard: int, n: int) -> Report:
    rep = Report()
    cases = [gen_case(Stream(seed, 0xC07A, shard, i)) for i in range(n)]
    B = 32
    for i in range(0, len(cases), B):
        for c, vs, nt in check_cases(cases[i:i + B]):
            for v in vs:
                rep.violate(v)
            rep.case("rts:" + jhash(c["scenario"]) if nt else None, ["kind:runtime-split", f"rts-skel:{c['skel']}"],
                     {"kind": "runtime-split", "prog": c["scenario"]["prog"], "mti": c["scenario"]["mti"], "parts": c["parts"][:3]}
                     if rep.evaluations % 101 == 3 else None)
    return rep
