"""C07 -- an instruction's effect depends only on architectural state.

Per core (Python Emulator, Rust LlamaExecutor; never compared with each other):

* history-probe: a long-lived core executes a generated history (random valid instructions, CALL/CALLF
  without return, IR with the vector pointing back into the program, CALL..RET and IR..RETI blocks,
  counted loops, PUSH/POP), gets junk injected into its hidden state (TEMP0-13, call-depth bookkeeping,
  Rust call-page / call-frame stacks), then its *architectural* state is overwritten with (S, M) and the
  probe instruction X is executed.  The result must equal a fresh core given (S, M, X).
* fresh-after-history: a second fresh core created in the same process after the history must equal the
  fresh reference (module-level caches, Rust statics / thread-locals).
* fresh-process: the fresh reference computed in the worker process must equal the same run in a process that
  has executed nothing else (Python: grandchild of a fork server created before the worker ran anything;
  Rust: brand-new harness process).  In half of the cases the worker does not run the probe before the
  history at all ("history-first"), so that a process-wide cache filled by the history cannot be masked by
  the reference run; the pristine process is then the only reference.
* Python only: in half of the rounds a tracer object is attached to the memory of the long-lived emulator
  before the probe (tracing state must not influence results).
* split: a program run K steps on a fresh core vs n steps, architectural state transferred into a fresh
  core, K-n more steps (per-step comparison of the suffix).
* twin: two fresh cores alive at the same time, stepped alternately on identical inputs, must produce
  identical per-step traces.

* runtime-split / machine-history / converging-histories: the same statement at the level of the Rust machine
  (CoreRuntime): step(n) vs step(1) x n; a fresh machine given the architectural state of a machine with history
  under a generated overlay map; two histories that reach the same machine state (c07_runtime.py, c07_machine.py).

* entry-history: a fresh Rust machine driven through either public entry point (CoreRuntime::step,
  AsyncRuntimeRunner::run_instructions) behaves the same whatever finished use of the crate's async machinery
  (block_on, AsyncDriver, earlier runners) happened on the thread before (c07_entry.py; reference = pristine thread).
* pymachine-history / pymachine-diagnostics / pymachine-run-slicing: the same statement for the Python PC-E500 machine
  (PCE500Emulator): polling programs with host key events; fresh machine given the state, twin with diagnostic API
  calls, run(n) slicing (c07_pymachine.py).
* asm-history: the same source assembles to the same bytes whatever was assembled earlier in the process / earlier in
  the source / rejected earlier (c07_asm.py; reference = pristine process).

Architectural state/result = BA, I, X, Y, U, S, PC, the whole F byte, running/halted(/off) and the memory
contents.  TEMP registers, call_sub_level/call_depth, Rust's IMR mirror, instruction length and read logs
are not compared.
"""

from __future__ import annotations

from typing import Any, Dict, List, Optional, Tuple

from ..core import Ctx, HarnessError, Report, Violation, mix32, jhash
from .. import gen_enc as G
from .. import gen_state as S
from .. import pycore, rsclient
from .. import textparse as TP
from . import c07_gen as GEN
from . import c07_pristine as PR
from . import c07_asm as ASM

asm_script = ASM.asm_script   # looked up by name in the pristine fork server (c07_pristine.PyPristine("asm_script"))

PROPERTY = "C07"
RULE = ("probe cases: every (prefix|none, opcode) pair of decoder-accepted encodings as probe X (operands "
        "from a seeded hash + boundary bytes) x generated state S (gen_state) x hash-filled memory M, "
        "preceded on a long-lived core by 1-3 rounds of generated history programs (4-40 instructions: "
        "random valid non-control-flow encodings plus structured CALL/CALLF-without-return, CALL..RET, "
        "IR..RETI, counted loops; half of the histories execute an instruction at the probe's address with different "
        "bytes, a third of those start with the probe's own encoding with its last byte changed) "
        "and junk injected into TEMP0-13 / call bookkeeping (+ a tracer object attached on the Python core in half "
        "of the rounds); references: fresh core in the worker (half of the cases: only after the history) and "
        "fresh core in a pristine process; split cases: generated programs of 8-60 "
        "steps x split points (quick: <= 10 per program, thorough: all).  Non-trivial probe case = the "
        "history executed >= 3 instructions AND (the probe wrote a TEMP register on the Python core, or the "
        "probe is a call/return-family instruction executed with non-empty call bookkeeping, or the probe "
        "address was executed by the history with different bytes); distinct = (pre, opcode, class, history "
        "shape hash).  Non-trivial split case = split point n with >= 1 step on each side; distinct = "
        "(program hash, n).  Machine level (Rust CoreRuntime): runtime-split = generated machine scenarios x 6 "
        "partitions of 24 steps, non-trivial when an interrupt delivery or low-power transition happened; "
        "machine-history = generated overlay map (2-4 RAM/ROM overlays, memory card, absent slot; overlap relation, "
        "configuration order, remove+re-add generated) x straight-line load/store program over the map's boundary "
        "and interior addresses x state transfer into a fresh machine before every step, non-trivial when the "
        "reference read an address covered by >= 2 overlays; converging-histories = ROM with 2-4 routes (timer "
        "posted / program rewritten / acknowledged+re-posted ISR bits, ON key press+release) of equal cycle and "
        "instruction count joining a common main loop + handler, non-trivial when >= 2 routes reach the join point "
        "with identical machine state but different host-side IRQ bookkeeping and an interrupt is delivered "
        "in the 30 compared steps after the join; distinct = case hash.  Python machine (PCE500Emulator): generated "
        "polling programs (main loop + handler reading KIL/KOL/KOH/ISR/IMR/LCD status from the same PCs, column strobes, "
        "ISR acknowledges, WAIT/HALT) x host key / ON-key events x timers x IMR flavours; pymachine-history = state "
        "(registers, flags, memory, keyboard/timer/interrupt device state as persisted by save_snapshot) transferred into a "
        "fresh machine before generated steps, pymachine-diagnostics = twin receiving diagnostic API calls, "
        "pymachine-run-slicing = run(n) over a generated partition; non-trivial when a transfer / diagnostic call happens "
        "while device state is live (queued key event, latched request, pending ISR bit, handler active) and the loop "
        "polled a device register at least twice.  Assembler (sc_asm): block under test (statements rendered from "
        "decoder-accepted encodings, labels, label references) assembled in a pristine process vs after a generated "
        "history (earlier assemble() calls with a new / re-used Assembler, earlier sections of the same source, a rejected "
        "earlier source, every 12th case the blocks of the 11 preceding cases) built from the same (prefix, opcode) with other operand forms; non-trivial when the block has a "
        "referenced label after a statement whose opcode the history uses with another encoded length.  "
        "Entry point x thread history (entry-history): machine scenario x entry point (CoreRuntime::step / "
        "AsyncRuntimeRunner::run_instructions) x call partition x slice length x generated finished history of the "
        "crate's async machinery on the same thread (block_on futures emitting generated DriverEvents incl. ids 0..3, "
        "dropped AsyncDriver instances with leftover tasks / events, earlier runners, earlier step runs) vs the same calls "
        "on a pristine thread; non-trivial when the history is not empty and the reference executed >= 1 instruction.")

REG_FIELDS = ("BA", "I", "X", "Y", "U", "S", "PC", "F")
CALL_FAMILY = {"CALL", "CALLF", "RET", "RETF", "RETI", "IR"}


# --------------------------------------------------------------------------------------------------
# small helpers


def _shadow(case: Dict[str, Any]) -> pycore.HashMemory:
    return pycore.HashMemory(int(case.get("seed", 0)), {pycore.canon(a): v & 0xFF for a, v in case.get("mem", [])})


def _apply(sh: pycore.HashMemory, step: Dict[str, Any]) -> List[int]:
    touched = []
    for a, v in step.get("writes", []):
        sh.over[pycore.canon(int(a))] = int(v) & 0xFF
        touched.append(pycore.canon(int(a)))
    return touched


def describe(code: bytes) -> Tuple[Optional[int], int, str]:
    """(pre, opcode, mnemonic) of the instruction at the start of `code` (rendered text only)."""
    pre = code[0] if code and code[0] in G.PRE_OPCODES else None
    op = code[1] if pre is not None and len(code) > 1 else (code[0] if code else 0)
    r = TP.tokens(bytes(code) + G.NOP_PAD)
    mn = TP.mnemonic(r[0]) if r is not None else "?"
    return pre, op, mn


def where_of(core: str, code: bytes) -> str:
    pre, op, mn = describe(code)
    return f"{core}: {op:02X} {mn}"


def diff_step(a: Dict[str, Any], b: Dict[str, Any], sha: pycore.HashMemory, shb: pycore.HashMemory
              ) -> Tuple[List[str], List[str]]:
    """Compare one executed step of two runs whose shadow memories (before the step) are sha/shb.
    Applies the writes to the shadows.  Returns (differing fields, human detail)."""
    fields: List[str] = []
    detail: List[str] = []
    ea, eb = a.get("err"), b.get("err")
    ta = _apply(sha, a)
    tb = _apply(shb, b)
    if (ea is None) != (eb is None):
        fields.append("exception-asymmetry")
        detail.append(f"err a={ea!r} b={eb!r}")
        return fields, detail
    if ea is not None:
        if ea != eb:
            fields.append("exception-differs")
            detail.append(f"err a={ea!r} b={eb!r}")
        return fields, detail
    for r in REG_FIELDS:
        x, y = a["regs"][r], b["regs"][r]
        if x != y:
            fields.append(r)
            detail.append(f"{r} a={x:#x} b={y:#x}")
    if (a.get("power") or "running") != (b.get("power") or "running"):
        fields.append("power")
        detail.append(f"power a={a.get('power')} b={b.get('power')}")
    bad = []
    for addr in sorted(set(ta) | set(tb)):
        va, vb = sha.peek(addr), shb.peek(addr)
        if va != vb:
            bad.append((addr, va, vb))
    if bad:
        space = "imem" if all(x[0] >= 0x100000 for x in bad) else ("emem" if all(x[0] < 0x100000 for x in bad) else "mixed")
        fields.append(f"mem[{space}]")
        detail.append("mem " + ", ".join(f"{x:#x}: a={p:#04x} b={q:#04x}" for x, p, q in bad[:6]))
    return fields, detail


# --------------------------------------------------------------------------------------------------
# Python core drivers

class _DummyTracer:
    """What Emulator.execute_instruction / decode_instruction duck-type on memory._perf_tracer:
    .slice(track, name, args) context manager and .instant(track, name, args).  Records nothing architectural."""

    def __init__(self) -> None:
        self.events = 0

    def instant(self, *a: Any, **k: Any) -> None:
        self.events += 1

    def slice(self, *a: Any, **k: Any) -> Any:
        import contextlib

        self.events += 1
        return contextlib.nullcontext()


_zygote: Optional[PR.PyPristine] = None
_zygote_pid: Optional[int] = None


def zygote() -> PR.PyPristine:
    """Per-process fork server; must first be called before this process executes any case."""
    global _zygote, _zygote_pid
    import os

    if _zygote is None or _zygote_pid != os.getpid():
        _zygote = PR.PyPristine("py_run")
        _zygote_pid = os.getpid()
    return _zygote



def in_region(case: Dict[str, Any], pc: int) -> bool:
    reg = case.get("region")
    return reg is None or reg[0] <= pc < reg[1]


def truncate(case: Dict[str, Any], steps: List[Dict[str, Any]]) -> List[Dict[str, Any]]:
    """Cut a trace at the first step that starts outside the program region (same rule as py_run)."""
    for i, s in enumerate(steps):
        if not in_region(case, int(s.get("pc", 0))):
            return steps[:i]
    return steps


def py_run(case: Dict[str, Any]) -> List[Dict[str, Any]]:
    """Fresh Emulator on (regs, memory); stops at halt, error, or when PC leaves case['region']."""
    from sc62015.pysc62015.emulator import RegisterName

    emu, mem = pycore.make_emulator(case)
    steps: List[Dict[str, Any]] = []
    for _ in range(int(case.get("steps", 1))):
        if emu.state.halted or not in_region(case, emu.regs.get(RegisterName.PC)):
            break
        s = pycore.step(emu, mem)
        steps.append(s)
        if "err" in s:
            break
    return steps


def py_probe_rounds(rounds: List[Dict[str, Any]], ref_first: bool = True) -> List[Dict[str, Any]]:
    """Run all rounds on one long-lived Emulator.  Per round returns
    {"before": step, "kept": step, "after": step, "hist_steps": n, "hist_err": str|None, "hist_pcs": [...],
     "temps_written": bool}."""
    out: List[Dict[str, Any]] = []
    emu = None
    mem = None
    for rd in rounds:
        probe = rd["probe"]
        # ref_first=False: this process must not see the probe before the history ran (the reference then
        # comes from the pristine process only), so a process-wide cache filled by the history is not masked
        before = py_run(probe) if ref_first else None
        hist = rd["hist"]
        if emu is None:
            emu, mem = pycore.make_emulator(hist)
        else:
            # continue on the same emulator object: new history memory and registers, hidden state kept
            mem.seed = int(hist.get("seed", 0)) & 0xFFFFFFFF
            mem.over = {pycore.canon(a): v & 0xFF for a, v in hist.get("mem", [])}
            pycore.set_regs(emu, hist.get("regs", {}))
            emu.state.halted = False
        hist_pcs: List[int] = []
        hist_err = None
        for _ in range(int(hist.get("steps", 0))):
            if not in_region(hist, emu.regs.get_by_name("PC")):
                break  # cost guard: a history that wandered out of its program is simply shorter
            s = pycore.step(emu, mem)
            hist_pcs.append(s["pc"])
            if "err" in s:
                hist_err = s["err"]
                break
        junk = rd.get("junk", {})
        for k, v in junk.get("temps", {}).items():
            pycore.set_regs(emu, {k: int(v)})
        if "call_sub_level" in junk:
            emu.regs.call_sub_level = int(junk["call_sub_level"])
        if junk.get("py_tracer"):
            mem._perf_tracer = _DummyTracer()  # tracing state: a tracer object attached to the memory
        elif hasattr(mem, "_perf_tracer"):
            del mem._perf_tracer
        # transplant the architectural state (S, M)
        mem.seed = int(probe.get("seed", 0)) & 0xFFFFFFFF
        mem.over = {pycore.canon(a): v & 0xFF for a, v in probe.get("mem", [])}
        pycore.set_regs(emu, probe["regs"])
        emu.state.halted = probe.get("power", "running") != "running"
        t0 = pycore.get_regs(emu, temps=True)
        kept = pycore.step(emu, mem, want_temps=True)
        temps_written = any(kept["regs"].get(f"TEMP{i}") != t0.get(f"TEMP{i}") for i in range(14))
        after = py_run(probe)
        res: Dict[str, Any] = {}
        if before is not None:
            res["before"] = before[0] if before else {"err": "no step"}
        out.append({**res, "kept": kept,
                    "after": after[0] if after else {"err": "no step"},
                    "hist_steps": len(hist_pcs), "hist_err": hist_err, "hist_pcs": hist_pcs,
                    "temps_written": temps_written})
    return out


def py_twin(prog: Dict[str, Any]) -> Tuple[List[Dict[str, Any]], List[Dict[str, Any]]]:
    """Two fresh emulators alive at the same time, stepped alternately."""
    ea, ma = pycore.make_emulator(prog)
    eb, mb = pycore.make_emulator(prog)
    ta: List[Dict[str, Any]] = []
    tb: List[Dict[str, Any]] = []
    for _ in range(int(prog.get("steps", 1))):
        if ea.state.halted or eb.state.halted:
            break  # a halted/running disagreement was already visible in the previous step's power field
        if not in_region(prog, ea.regs.get_by_name("PC")) or not in_region(prog, eb.regs.get_by_name("PC")):
            break
        sa = pycore.step(ea, ma)
        sb = pycore.step(eb, mb)
        ta.append(sa)
        tb.append(sb)
        if "err" in sa or "err" in sb:
            break
    return ta, tb


# --------------------------------------------------------------------------------------------------
# Rust core drivers (cpu.run requests; see rust/harness/src/cpu.rs)


def rs_batch(reqs: List[Dict[str, Any]]) -> List[Dict[str, Any]]:
    """cpu.batch on the per-process harness.  Every batch this module sends is self-contained (its sessions
    are created inside the batch), so if the harness process disappears (the box is shared; a SIGKILL from
    outside was observed once) the batch is simply re-sent to a new process.  A deterministic crash fails
    again and surfaces as HarnessError (exit 2), never as a verdict."""
    last: Optional[HarnessError] = None
    for _ in range(3):
        try:
            return rsclient.shared().cpu_batch(reqs)
        except HarnessError as exc:
            last = exc
            if "died" not in str(exc) and "pipe failed" not in str(exc):
                raise
    assert last is not None
    raise last


def _rs_steps(resp: Dict[str, Any]) -> List[Dict[str, Any]]:
    if not resp.get("ok"):
        raise HarnessError(f"rust cpu.run failed: {str(resp)[:300]}")
    return resp.get("steps", [])


def rs_probe_requests(rounds: List[Dict[str, Any]], tag: str, ref_first: bool = True) -> List[Dict[str, Any]]:
    reqs: List[Dict[str, Any]] = []
    for i, rd in enumerate(rounds):
        probe = dict(rd["probe"])
        probe.pop("peek", None)
        fresh = dict(probe, sess=f"{tag}-f", keep=False, stop_on_halt=False)
        # always 4 requests per round; without ref_first the first one is an inert zero-step request
        reqs.append(fresh if ref_first else {"sess": f"{tag}-n", "keep": False, "steps": 0})
        hist = dict(rd["hist"], sess=f"{tag}-k", keep=(i > 0), stop_on_halt=False)
        if i > 0:
            hist["clear_mem"] = True
            hist.setdefault("power", "running")
        reqs.append(hist)
        junk = rd.get("junk", {})
        j: Dict[str, Any] = {}
        for k in ("call_pages", "call_frames", "call_depth"):
            if k in junk:
                j[k] = junk[k]
        regs = dict(probe["regs"])
        regs.update(junk.get("temps", {}))
        kept = dict(probe, sess=f"{tag}-k", keep=True, clear_mem=True, regs=regs, junk=j, stop_on_halt=False)
        kept.setdefault("power", "running")
        reqs.append(kept)
        reqs.append(dict(fresh))
    return reqs


def rs_probe_rounds(rounds: List[Dict[str, Any]], results: List[Dict[str, Any]], ref_first: bool = True
                    ) -> List[Dict[str, Any]]:
    out = []
    for i, rd in enumerate(rounds):
        r0, rh, rk, r3 = results[4 * i:4 * i + 4]
        hs = _rs_steps(rh)
        herr = None
        for s in hs:
            if "err" in s:
                herr = s["err"]

        def first(r: Dict[str, Any]) -> Dict[str, Any]:
            st = _rs_steps(r)
            return st[0] if st else {"err": "no step"}

        res: Dict[str, Any] = {"before": first(r0)} if ref_first else {}
        out.append({**res, "kept": first(rk), "after": first(r3), "hist_steps": len(hs),
                    "hist_err": herr, "hist_pcs": [s["pc"] for s in hs], "temps_written": False})
    return out


def rs_twin(rust: rsclient.Rust, prog: Dict[str, Any], tag: str) -> Tuple[List[Dict[str, Any]], List[Dict[str, Any]]]:
    k = int(prog.get("steps", 1))
    base = {x: prog[x] for x in ("regs", "seed", "mem") if x in prog}
    base["power"] = prog.get("power", "running")
    reqs: List[Dict[str, Any]] = []
    reqs.append(dict(base, sess=f"{tag}-a", keep=False, steps=1))
    reqs.append(dict(base, sess=f"{tag}-b", keep=False, steps=1))
    for _ in range(k - 1):
        reqs.append({"sess": f"{tag}-a", "keep": True, "steps": 1})
        reqs.append({"sess": f"{tag}-b", "keep": True, "steps": 1})
    res = rs_batch(reqs)
    ta: List[Dict[str, Any]] = []
    tb: List[Dict[str, Any]] = []
    for i in range(0, len(res), 2):
        sa = _rs_steps(res[i])
        sb = _rs_steps(res[i + 1])
        if not sa or not sb:
            if bool(sa) != bool(sb):
                # one halted and the other did not: surface through a synthetic step pair
                ta.append(sa[0] if sa else {"err": "halted-no-step"})
                tb.append(sb[0] if sb else {"err": "halted-no-step"})
            break
        ta.append(sa[0])
        tb.append(sb[0])
        if "err" in sa[0] or "err" in sb[0]:
            break
    n = min(len(truncate(prog, ta)), len(truncate(prog, tb)))
    return ta[:n], tb[:n]


# --------------------------------------------------------------------------------------------------
# verdicts


def _probe_code(probe: Dict[str, Any]) -> bytes:
    code = S.code_of(probe, 8)
    ln = G.info_len(code + G.NOP_PAD)
    return code[:ln] if ln else code[:1]


def judge_probe(case: Dict[str, Any], core: str, results: List[Dict[str, Any]]) -> List[Violation]:
    out: List[Violation] = []
    for i, (rd, res) in enumerate(zip(case["rounds"], results)):
        probe = rd["probe"]
        code = _probe_code(probe)
        where = where_of(core, code)
        ref_name = "before" if "before" in res else "pristine"
        for sub, other in (("history-probe", "kept"), ("fresh-after-history", "after"),
                           ("fresh-process", "pristine")):
            if other not in res or other == ref_name:
                continue
            fields, detail = diff_step(res[ref_name], res[other], _shadow(probe), _shadow(probe))
            if fields:
                vcase = dict(case, focus={"core": core, "round": i})
                out.append(Violation(sub, where, "differs: " + ",".join(fields), vcase,
                                     f"round {i}, probe {code.hex()} at {probe['regs']['PC']:#x}: "
                                     f"fresh[{ref_name}](a) vs {other}(b): " + "; ".join(detail)))
    return out


def split_case_for(prog: Dict[str, Any], trace: List[Dict[str, Any]], n: int) -> Dict[str, Any]:
    """Architectural state after n steps of `trace`, as a fresh run case for the remaining steps."""
    sh = _shadow(prog)
    for s in trace[:n]:
        _apply(sh, s)
    last = trace[n - 1]
    regs = {r: last["regs"][r] for r in REG_FIELDS}
    out = {"regs": regs, "power": last.get("power", "running"), "seed": prog["seed"],
           "mem": [[a, v] for a, v in sorted(sh.over.items())], "steps": int(prog["steps"]) - n}
    if "region" in prog:
        out["region"] = prog["region"]
    return out


def compare_traces(prog_a: Dict[str, Any], ta: List[Dict[str, Any]], prog_b: Dict[str, Any],
                   tb: List[Dict[str, Any]], code_at: Any) -> Optional[Tuple[int, List[str], List[str], int]]:
    """First differing step of two traces that should be identical: (index, fields, detail, pc)."""
    sha, shb = _shadow(prog_a), _shadow(prog_b)
    for i in range(max(len(ta), len(tb))):
        if i >= len(ta) or i >= len(tb):
            pc = (ta[i] if i < len(ta) else tb[i]).get("pc", 0)
            return i, ["trace-length"], [f"len a={len(ta)} b={len(tb)}"], pc
        f, d = diff_step(ta[i], tb[i], sha, shb)
        if ta[i].get("pc") != tb[i].get("pc"):
            f.append("start-pc")
        if f:
            return i, f, d, ta[i].get("pc", 0)
    return None


def _code_at(prog: Dict[str, Any], trace: List[Dict[str, Any]], idx: int) -> bytes:
    """Bytes at the PC of step idx (memory as of that step)."""
    sh = _shadow(prog)
    for s in trace[:idx]:
        _apply(sh, s)
    pc = trace[idx]["pc"] if idx < len(trace) else 0
    code = bytes(sh.peek((pc + j) & 0xFFFFF) for j in range(8))
    ln = G.info_len(code + G.NOP_PAD)
    return code[:ln] if ln else code[:1]


def judge_split(case: Dict[str, Any], core: str, full: List[Dict[str, Any]], twins: List[List[Dict[str, Any]]],
                suffixes: Dict[int, List[Dict[str, Any]]]) -> List[Violation]:
    """full: sequential run on a fresh core; twins: traces of two more fresh cores stepped alternately."""
    out: List[Violation] = []
    prog = case["prog"]
    for twin in twins:
        r = compare_traces(prog, full, prog, twin, None)
        if r is not None:
            i, f, d, pc = r
            where = where_of(core, _code_at(prog, full, min(i, len(full) - 1))) if full else f"{core}: ?"
            out.append(Violation("twin", where, "differs: " + ",".join(f), dict(case, focus={"core": core}),
                                 f"fresh cores given identical inputs diverge at step {i} (pc {pc:#x}): "
                                 "sequential(a) vs interleaved twin(b): " + "; ".join(d)))
            break
    for n, suf in sorted(suffixes.items()):
        sc = split_case_for(prog, full, n)
        # the uninterrupted run's memory as of step n is the same shadow the split case starts from
        r = compare_traces(sc, full[n:], sc, suf, None)
        if r is not None:
            i, f, d, pc = r
            where = where_of(core, _code_at(prog, full, min(n + i, len(full) - 1)))
            out.append(Violation("split", where, "differs: " + ",".join(f),
                                 dict(case, splits=[n], focus={"core": core}),
                                 f"run of {len(full)} steps vs split after {n}: first difference at step {n + i} "
                                 f"(pc {pc:#x}): uninterrupted(a) vs resumed-on-fresh-core(b): " + "; ".join(d)))
    return out


# --------------------------------------------------------------------------------------------------
# case evaluation (shared by run and replay)


def eval_probe_cases(cases: List[Dict[str, Any]], rep: Report, cores: Tuple[str, ...] = ("py", "rs")) -> None:
    rust = rsclient.shared() if "rs" in cores else None
    B = 24
    for c0 in range(0, len(cases), B):
        chunk = cases[c0:c0 + B]
        rs_results: List[List[Dict[str, Any]]] = []
        if rust is not None:
            reqs: List[Dict[str, Any]] = []
            spans = []
            for j, case in enumerate(chunk):
                r = rs_probe_requests(case["rounds"], f"p{j}", case.get("ref_first", True))
                spans.append((len(reqs), len(reqs) + len(r)))
                reqs += r
            res = rs_batch(reqs)
            for (a, b), case in zip(spans, chunk):
                rs_results.append(rs_probe_rounds(case["rounds"], res[a:b], case.get("ref_first", True)))
            # reference runs in a brand-new harness process
            flat = [dict(rd["probe"]) for case in chunk for rd in case["rounds"]]
            pr = PR.rust_pristine(flat)
            k = 0
            for rr in rs_results:
                for r in rr:
                    st = _rs_steps(pr[k])
                    r["pristine"] = st[0] if st else {"err": "no step"}
                    k += 1
        py_pr: Optional[List[List[Dict[str, Any]]]] = None
        if "py" in cores:
            py_pr = zygote().run([rd["probe"] for case in chunk for rd in case["rounds"]])
        kpr = 0
        for j, case in enumerate(chunk):
            labels: List[str] = list(case.get("labels", []))
            per_core: Dict[str, List[Dict[str, Any]]] = {}
            if "py" in cores:
                per_core["py"] = py_probe_rounds(case["rounds"], case.get("ref_first", True))
                for r in per_core["py"]:
                    st = py_pr[kpr] if py_pr is not None else []
                    r["pristine"] = st[0] if st else {"err": "no step"}
                    kpr += 1
            if rust is not None:
                per_core["rs"] = rs_results[j]
            focus = case.get("focus") or {}
            for core, results in per_core.items():
                if focus.get("core") not in (None, core):
                    continue
                for v in judge_probe({k: v for k, v in case.items() if k not in ("labels", "focus")}, core, results):
                    if "round" in focus and v.case["focus"]["round"] != focus["round"]:
                        continue
                    rep.violate(v)
            # labels / non-triviality (measured on what actually executed)
            ntkey = None
            last = case["rounds"][-1]
            code = _probe_code(last["probe"])
            pre, op, mn = describe(code)
            ref = (per_core.get("py") or per_core.get("rs"))
            hist_total = sum(r["hist_steps"] for r in ref)
            classes: List[str] = []
            py = per_core.get("py")
            if py is not None:
                if any(r["temps_written"] for r in py):
                    classes.append("probe-writes-temp")
                if any("err" in r["pristine"] for r in py):
                    labels.append("python-exception:probe")
                if any(r["hist_err"] for r in py):
                    labels.append("python-exception:history")
                if any(r["hist_err"] is None and r["hist_steps"] < int(rd["hist"].get("steps", 0))
                       for rd, r in zip(case["rounds"], py)):
                    labels.append("history-left-program(py)")
                if any(rd.get("junk", {}).get("py_tracer") for rd in case["rounds"]):
                    labels.append("tracer:attached(py)")
            rs = per_core.get("rs")
            if rs is not None:
                if any("err" in r["pristine"] for r in rs):
                    labels.append("rust-error:probe")
                if any(r["hist_err"] for r in rs):
                    labels.append("rust-error:history")
            for rd, rr in zip(case["rounds"], ref):
                rcode = _probe_code(rd["probe"])
                if describe(rcode)[2] in CALL_FAMILY and "call-family-probe" not in classes:
                    classes.append("call-family-probe")
                rpc = rd["probe"]["regs"]["PC"]
                if rpc in rr["hist_pcs"] and "probe-address-executed-by-history" not in classes:
                    hcode = S.code_of({"regs": {"PC": rpc}, "mem": rd["hist"]["mem"]}, len(rcode))
                    if hcode != rcode:
                        classes.append("probe-address-executed-by-history")
            for cl in classes:
                labels.append("nt:" + cl)
            labels.append(f"rounds:{len(case['rounds'])}")
            labels.append("order:" + ("reference-first" if case.get("ref_first", True) else "history-first"))
            labels.append("hist-steps:" + ("0-2" if hist_total < 3 else "3-9" if hist_total < 10 else "10-29" if hist_total < 30 else "30+"))
            labels.append("probe:" + ("prefixed" if pre is not None else "plain"))
            if hist_total >= 3 and classes:
                ntkey = f"probe:{pre}:{op:02X}:{'+'.join(classes)}:{case.get('shape', '')}"
            sample = None
            if rep.evaluations % 257 == 5:
                sample = {"kind": "probe", "probe": code.hex(), "mnemonic": mn, "probe_regs": last["probe"]["regs"],
                          "rounds": len(case["rounds"]), "history_steps_executed": hist_total,
                          "history_code": [S.code_of(r["hist"], 24).hex() for r in case["rounds"]],
                          "junk": case["rounds"][-1].get("junk"), "classes": classes,
                          "fresh_result": {k: ref[-1]["pristine"].get(k) for k in ("regs", "power", "writes", "err")}}
            rep.case(ntkey, labels, sample)


def eval_split_cases(cases: List[Dict[str, Any]], rep: Report, cores: Tuple[str, ...] = ("py", "rs")) -> None:
    rust = rsclient.shared() if "rs" in cores else None
    for ci, case in enumerate(cases):
        prog = case["prog"]
        focus = case.get("focus") or {}
        clean = {k: v for k, v in case.items() if k not in ("labels", "focus")}
        labels = list(case.get("labels", []))
        nsteps = 0
        used_splits: List[int] = []
        for core in cores:
            if focus.get("core") not in (None, core):
                continue
            if core == "py":
                full = py_run(prog)
            else:
                assert rust is not None
                full = truncate(prog, _rs_steps(rs_batch([dict(prog, sess="s-full", keep=False)])[0]))
            # all further runs are limited to the steps the sequential run executed inside the program, so a
            # run that wandered off (expensive garbage with huge counted instructions) is executed only once
            peff = dict(prog, steps=max(1, len(full)))
            if core == "py":
                ta, tb = py_twin(peff)
            else:
                ta, tb = rs_twin(rust, peff, "s-tw")
            # usable split points: both sides non-empty, the step before the split completed normally
            good = len(full)
            for i, s in enumerate(full):
                if "err" in s:
                    good = i
                    break
            splits = [n for n in case["splits"] if 1 <= n < good and full[n - 1].get("power", "running") == "running"]
            suffixes: Dict[int, List[Dict[str, Any]]] = {}
            if core == "py":
                for n in splits:
                    suffixes[n] = py_run(split_case_for(peff, full, n))
            else:
                reqs = [dict(split_case_for(peff, full, n), sess="s-suf", keep=False) for n in splits]
                if reqs:
                    for n, r in zip(splits, rs_batch(reqs)):
                        suffixes[n] = truncate(prog, _rs_steps(r))
            for v in judge_split(dict(clean, prog=peff), core, full, [ta, tb], suffixes):
                rep.violate(v)
            if any("err" in s for s in full):
                labels.append(("python-exception" if core == "py" else "rust-error") + ":program")
            if core == cores[0] or not used_splits:
                used_splits = splits
                nsteps = len(full)
        labels.append("prog-steps:" + ("<8" if nsteps < 8 else "8-29" if nsteps < 30 else "30+"))
        ph = case.get("shape") or jhash(prog, 8)
        if not used_splits:
            rep.case(None, labels + ["split:none-usable"], None)
        for k, n in enumerate(used_splits):
            sample = None
            if k == 0 and rep.evaluations % 97 == 3:
                sample = {"kind": "split", "program": S.code_of(prog, 48).hex(), "regs": prog["regs"],
                          "steps_executed": nsteps, "split_points": used_splits}
            rep.case(f"split:{ph}:{n}", labels if k == 0 else ["split-point"], sample)


# --------------------------------------------------------------------------------------------------
# exploration


def _shard(task: Tuple[int, int, str, int, int]) -> Report:
    shard, seed, tier, n_probe, n_split = task
    zygote()  # fork the pristine-reference server before this process executes anything
    rep = Report()
    pool, redraws = GEN.make_pool(mix32(seed, shard, 0xC07), 4200)
    rep.extra["encoding_pool_redraws"] = redraws
    probe_cases = [GEN.gen_probe_case(pool, seed, shard, j, thorough=(tier != "quick")) for j in range(n_probe)]
    eval_probe_cases(probe_cases, rep)
    split_cases = [GEN.gen_split_case(pool, seed, shard, j, thorough=(tier != "quick")) for j in range(n_split)]
    eval_split_cases(split_cases, rep)
    return rep


def _rts_shard(task: Tuple[int, int, int]) -> Report:
    from . import c07_runtime as RT

    seed, shard, n = task
    return RT.run_shard(seed, shard, n)


def _mach_shard(task: Tuple[int, int, int, int]) -> Report:
    from . import c07_machine as MC

    seed, shard, n_mem, n_conv = task
    return MC.run_shard(seed, shard, n_mem, n_conv)


def _entry_shard(task: Tuple[int, int, int]) -> Report:
    from . import c07_entry as EN

    seed, shard, n = task
    return EN.run_shard(seed, shard, n)


def _pym_shard(task: Tuple[int, int, int, bool]) -> Report:
    from . import c07_pymachine as PM

    seed, shard, n, thorough = task
    return PM.run_shard(seed, shard, n, thorough)


def _asm_shard(task: Tuple[int, int, int]) -> Report:
    seed, shard, n = task
    return ASM.run_shard(seed, shard, n)


def run(ctx: Ctx) -> Report:
    from . import c07_machine as MC
    from . import c07_pymachine as PM

    rsclient.build()
    zygote()
    GEN.self_test()
    MC.self_test()
    PM.self_test()
    nshards = ctx.pick(16, 64)
    n_probe = ctx.pick(263, 700)
    n_split = ctx.pick(40, 60)
    reports = ctx.pmap(_shard, [(i, ctx.seed, ctx.tier, n_probe, n_split) for i in range(nshards)])
    n_rts = ctx.pick(120, 1200)
    reports += ctx.pmap(_rts_shard, [(ctx.seed, i, n_rts) for i in range(16)])
    reports += ctx.pmap(_mach_shard, [(ctx.seed, i, ctx.pick(60, 500), ctx.pick(150, 1500)) for i in range(16)])
    reports += ctx.pmap(_entry_shard, [(ctx.seed, i, ctx.pick(40, 400)) for i in range(16)])
    reports += ctx.pmap(_pym_shard, [(ctx.seed, i, ctx.pick(40, 260), ctx.tier != "quick") for i in range(16)])
    # the assembler shards run in a pool of their own: its workers are forked from this process, which never assembles
    reports += ctx.pmap(_asm_shard, [(ctx.seed, i, ctx.pick(36, 220)) for i in range(16)])
    rep = ctx.merge_reports(reports)
    rep.rule = RULE
    rep.exhaustive = False
    rep.assumptions = [
        "architectural state = BA,I,X,Y,U,S,PC, whole F, running/halted(/off), memory contents; TEMP0-13, "
        "call_sub_level/call_depth/call stacks, Rust IMR mirror register, instruction length, read logs and "
        "wait_cycles callbacks are not compared",
        "memory effects are compared as contents (an extra write of an unchanged value is not a difference)",
        "no cross-core comparison; each core is compared only with itself",
        "a Python exception / Rust Err raised identically by both runs is labelled, not a verdict; raised by "
        "only one of the two runs it is a history dependence (exception-asymmetry)",
        "the probe instruction is followed by NOP bytes; histories are generated programs on the same "
        "hash-filled bus model as C06",
        "the long-lived core lives for one case (1-3 history rounds, <= 90 (thorough 220) steps each) so that a "
        "replay file is self-contained; hidden state accumulated over thousands of instructions is explored only "
        "through the worker process itself (fresh-process subcheck: worker after ~10^5 instructions vs pristine)",
        "histories/programs stop when PC leaves the generated program (Python: before the step; Rust: trace "
        "truncated afterwards) -- a pure function of PC, applied identically to both runs that are compared",
        "Rust tracing is compiled out (perfetto feature off in the shadow manifest); Python tracing state is "
        "represented by an attached duck-typed tracer object, not by a running Perfetto trace file",
        "split/twin runs stop at the first halted state (stop_on_halt) or error; split points after such a step "
        "are not used",
        "runtime-split: CoreRuntime::step(n) in one call vs step(1) x n on generated machine scenarios (timers, "
        "IMR/ISR writes, HALT/OFF/WAIT; no host events), full observation record compared at equal instruction counts",
        "machine-history: only BA,I,X,Y,U,S,F,PC, the 256 IMEM bytes, the external array and the data of data-backed "
        "overlays cross the transfer into the fresh CoreRuntime (timers off, IMR=0: no other device state exists); "
        "programs are straight-line template code that never stores near itself nor touches LCD/keyboard/SIO "
        "registers; steps after the reference PC leaves the statically known line are not judged",
        "converging-histories: routes are judged only when the complete reported machine state at the join point "
        "(registers, F, IMEM, hash of external memory, stack windows, power, cycle/instruction counters, timer "
        "enable/periods/deadlines, irq_pending, in_interrupt, interrupt stack depth, delivered_masks, key latch, "
        "keyboard FIFO length, ON-key level) is equal; ignored at the join: irq_source, last_fired, last_irq_src, "
        "irq_isr/irq_imr mirrors (host-side bookkeeping); compared afterwards: registers, F, IMR, ISR, IMEM 00-EE, "
        "S and U stack windows, power state.  Tails contain no IR and no RETI outside a delivered handler",
        "entry-history: a fresh CoreRuntime driven through CoreRuntime::step or AsyncRuntimeRunner::run_instructions "
        "(generated call partition, slice length, one runner or a new runner per call) on a new thread after a generated, "
        "finished history of the crate's public async machinery (block_on of display / sleep / timer futures emitting "
        "generated DriverEvents, AsyncDriver instances dropped with leftover tasks and events, earlier runners, earlier "
        "step runs) vs the same calls on a new thread where nothing ran; compared after every call: call result (Ok + "
        "counts / Err text) and the machine observation (last call: whole IMEM + hash of external memory); the two entry "
        "points are never compared with each other; both threads are joined inside the case",
        "Python machine (pymachine-*): compared after every step: registers, F, halted, IMR/ISR, whole IMEM, S and U stack "
        "windows, CRC of external memory (last compared step), keyboard FIFO / key states / latch, irq pending / "
        "in-interrupt, cycle and instruction counters, timer deadlines.  Transferred into the fresh machine: exactly the "
        "fields save_snapshot persists for the python backend (external memory incl. IMEM, BA,I,X,Y,U,S,F,PC, halted, "
        "keyboard.snapshot_state(), counters, timer enable/periods/deadlines, irq pending / in-interrupt / source, key "
        "latch, last observed IMR/ISR values, keyboard-irq enable, fast_mode); NOT transferred: TEMP registers, "
        "call_sub_level, call depth, interrupt trace ids, irq counters / last_irq / bit-watch tables, register-access "
        "telemetry (load_snapshot itself clears it), keyboard metrics.  Programs never write the LCD, the serial port or "
        "the memory card, so no further device state exists.  Python backend only (no PyO3 build of the LLAMA backend)",
        "assembler (asm-history): only the bytes inside the address range of the block under test are compared; blocks "
        "of the history live at disjoint addresses and share no symbol with it; a source rejected identically with and "
        "without history is labelled, not judged; the worker process itself never assembles (every case runs in two "
        "fresh processes and is self-contained)",
    ]
    return rep


def replay(ctx: Ctx, case: Dict[str, Any]) -> List[Violation]:
    rsclient.build()
    if case.get("kind") == "runtime-split":
        from . import c07_runtime as RT

        return [v for _c, vs, _nt in RT.check_cases([case]) for v in vs]
    if case.get("kind") in ("machine-history", "converging-histories"):
        from . import c07_machine as MC

        return MC.replay_case(case)
    if case.get("kind") == "entry-history":
        from . import c07_entry as EN

        return EN.replay_case(case)
    if case.get("kind") == "pymachine-history":
        from . import c07_pymachine as PM

        return PM.replay_case(case)
    if case.get("kind") == "asm-history":
        return ASM.replay_case(case)
    zygote()
    rep = Report()
    cores: Tuple[str, ...] = ("py", "rs")
    f = case.get("focus") or {}
    if f.get("core") in ("py", "rs"):
        cores = (f["core"],)
    if case.get("kind") == "split":
        eval_split_cases([case], rep, cores)
    else:
        eval_probe_cases([case], rep, cores)
    return rep.violations


def shrink(ctx: Ctx, v: Violation) -> Violation:
    from . import c07_shrink

    kind = (v.case or {}).get("kind")
    if kind == "runtime-split":
        return v
    if kind in ("machine-history", "converging-histories"):
        from . import c07_machine as MC

        return MC.shrink(v)
    if kind == "entry-history":
        from . import c07_entry as EN

        return EN.shrink(v)
    if kind == "pymachine-history":
        from . import c07_pymachine as PM

        return PM.shrink(v)
    if kind == "asm-history":
        return ASM.shrink(v)
    return c07_shrink.shrink(ctx, v, replay)
