"""C05 -- branch metadata given to Binary Ninja matches where execution actually goes.

Three generated domains (arch.get_instruction_info + the Python Emulator on a hash-filled memory; domain (c) also
runs on the Rust LLAMA core and on the Rust machine runtime):

  (a) "single": every control-flow head (opcodes 01-07, 10-1F, FE, FF; bare and under each of the 15 PRE bytes
      the decoder accepts) x an address grid (interior, last bytes of a 64 KiB page incl. "ends exactly at the
      boundary", straddling the boundary, first bytes of a page, 0xFFFFx incl. wrap of the 20-bit PC, address 0)
      x all four (C,Z) values (other F bits random) x boundary + random operands (16/20-bit targets incl. self,
      fall-through and don't-care high nibble; displacements 00/01/7F/80/FF/...; JP (n) pointers; JP r with
      every register selector byte the decoder accepts).  The instruction is executed once and the PC reached
      is compared with InstructionInfo.branches.
  (b) "other": a stratified sample of all decoder-accepted encodings (every (prefix, opcode) pair) x generated
      machine states x address classes, for "no branch reported => continues at addr+len".
  (c) "pair": generated programs: CALL/CALLF/IR at a call site whose callee/handler is a random stack-neutral
      body (balanced PUSHS/POPS and PUSHU/POPU, register arithmetic, flag and IMR writers, nested calls and
      software interrupts, computed jumps through push+RET/RETF) ending in the matching RET/RETF/RETI; tree and
      chain shapes (a near call open in one page while a far call runs in another); checked at *every*
      call..return pair of the program, on the Python core, the Rust LLAMA core (LlamaExecutor on the same hash
      memory) and the Rust machine runtime (CoreRuntime.step, SIO stub on/off, callees that the runtime services
      itself and returns from) (see c05_pairs.py).  Round 4: *where the system stack lives* is a generated
      dimension of the machine-runtime programs (memory-map configuration + S): RAM overlays / a memory card /
      host-delegated ranges with S at their end, start or inside, the internal-RAM mirror window (aliases, 32 KiB
      boundaries, window edges), frames wrapping through address 0 (Rust cores); an operation the runtime rejects
      may precede the program; a third of the runtime programs are also run through bulk step(n) calls.

  (d) "hist": histories on ONE long-lived executor instance (Python Emulator; Rust LlamaExecutor session): the
      code bytes at a few fixed addresses change between executions -- rewritten by the host through the memory
      object/bus or by the program itself (store instructions + jump) -- keeping or changing the first byte;
      every executed instruction is judged against get_instruction_info of the bytes in memory at that moment;
      call episodes add the pair law with a return slot whose opcode alternates under a constant PRE byte
      (see c05_hist.py).

Oracle = the property statement only; the one piece of instruction semantics used is the README's reading of
the condition suffix (JPZ/JRZ: Z=1, ..NZ: Z=0, ..C: C=1, ..NC: C=0), taken from the *rendered mnemonic*.
"""

from __future__ import annotations

import re
from typing import Any, Dict, List, Optional, Tuple

from ..core import Ctx, HarnessError, Report, Violation, mix32
from .. import gen_enc as G
from .. import gen_state as S
from .. import pycore
from .. import rsclient
from .. import textparse as TP
from . import c05_pairs as P
from . import c05_hist as H
from .c05_pairs import M20, addr_class, diffclass, s20  # noqa: F401

PROPERTY = "C05"
RULE = ("single: (prefix|none) x control-flow opcode x address class x (C,Z) x operand class, executed once on the "
        "Python core and compared with InstructionInfo.branches; other: stratified sample of all valid encodings "
        "x generated state x address class (no branch reported => addr+len); pair: generated call..return "
        "programs (CALL..RET, CALLF..RETF, IR..RETI, nested trees and chains mixing near/far/interrupt frames) "
        "with stack-neutral bodies (incl. computed jumps through push+RET/RETF), each executed on the Python core, "
        "the Rust LLAMA core and (separate stream, plainly mapped memory, SIO stub on/off, runtime-serviced "
        "callees; stack in plain RAM / RAM overlay / memory card / host-delegated range / internal-RAM mirror alias "
        "at region ends, starts, 32 KiB alias boundaries / wrapping through address 0; optionally after a rejected "
        "runtime operation; optionally re-run through bulk step(n)) the Rust CoreRuntime. Non-trivial = single/"
        "other: the PC reached differs from addr+len, or the instruction's last byte lies within 4 bytes of a "
        "64 KiB page end (or it straddles one / wraps 0xFFFFF); pair: always (a call and its return were "
        "executed). Distinct = single: (prefix, opcode, address class, CZ, operand class); other: (prefix, "
        "opcode, second byte, address class); pair: (core+config, flavour, site class, return class, S class, body "
        "hash); programs ended by an executor error or a computed jump that missed its continuation are not counted. "
        "hist: 8-30 episodes on one executor instance (Python Emulator / Rust LlamaExecutor session); an episode "
        "rewrites one of 1-3 fixed code addresses (host write or self-modifying store driver; new instruction / same "
        "head, other operand bytes / other opcode under the same PRE byte / unchanged) and executes it; one case "
        "per executed slot instruction, judged against the metadata of the bytes in memory at that moment. "
        "Non-trivial = the address was executed before on the same instance. Distinct = (core, PRE+opcode, "
        "address class, revisit class, host/store, CZ, instruction bytes).")

CF_OPS: Tuple[int, ...] = tuple(range(0x01, 0x08)) + tuple(range(0x10, 0x20)) + (0xFE, 0xFF)
TARGETLESS = ("FunctionReturn", "UnresolvedBranch", "IndirectBranch", "SystemCall", "ExceptionBranch",
              "UserDefinedBranch")
COND_RE = re.compile(r"J[PR](N?)([ZC])")

ASSUMPTIONS = [
    "targets are compared modulo 2^20 (statement: 'modulo the 20-bit program counter')",
    "the outcome of a conditional is decided from the rendered mnemonic suffix (Z/NZ/C/NC) and F bit1=Z, bit0=C "
    "as the README's jump table states; if a mnemonic carries no such suffix but True/False branches are "
    "reported only membership of the reached PC in the reported targets is required",
    "FunctionReturn / UnresolvedBranch entries carry no target: nothing is asserted about the PC reached by "
    "RET/RETF/RETI/RESET in isolation (returns are checked through the pair laws; RESET only 'reports a branch')",
    "IR reports no branch and is exempt from 'no branch => addr+len' (statement: counts as a call that returns "
    "there); it is checked through IR..RETI pairs",
    "HALT/OFF must continue at addr+len like any instruction reporting no branch",
    "get_instruction_info receives exactly the bytes the emulator fetches (read back from the case memory, "
    "including the wrap from 0xFFFFF into the internal window that the emulator's linear fetch performs); the "
    "instruction is followed by NOP bytes (look-ahead dependence is C01's subject)",
    "a Python exception while executing a valid encoding is not a C05 verdict (label python-exception)",
    "pair programs on the Python core keep S and U at least 0x40 away from 0x00000/0xFFFFF (there a stack wrap "
    "addresses different cells of the harness memory model for push and pop) and away from all code; on the Rust "
    "cores (S masked to 20 bits, frames pushed and popped byte by byte) a class of programs starts with S so small "
    "that frames wrap through address 0 to 0xFFFFF (never reaching the interrupt vector 0xFFFFA-0xFFFFC when the "
    "program uses IR); callee bodies follow one fixed path (straight-line plus computed jumps through "
    "push+RET/RETF to the next item)",
    "the system stack of a CoreRuntime program may live in a RAM overlay (add_ram_overlay), a memory card "
    "(load_memory_card), a host-delegated range (set_python_ranges + set_host_read/set_host_write; the harness's "
    "host stores each written byte and returns the stored byte, 0 if never written) or an alias of the internal-RAM "
    "mirror window 0x80000-0xB7FFF, with S at the region's end / start / inside / at a 32 KiB alias boundary: each "
    "of them is byte-addressable memory, frames are built byte by byte, so the pair law applies unchanged; code "
    "never lies inside such a region nor in cells aliased by the stack neighbourhood",
    "a violation seen with the stack in such memory is re-run with an ordinary RAM stack (same program): the "
    "fingerprint gets the suffix ' stack:<kind>' only if it does not persist there (attribution only; the control "
    "run never decides whether something is a violation)",
    "computed jumps push their target with a multi-byte store (MV [--S],BA / MV [--S],X): in byte-granular memory "
    "that store is C11's subject; such programs end unjudged (cj-astray) and 3/4 of the special-stack programs "
    "carry NOPs in place of computed jumps",
    "an operation the runtime rejects or ignores before the program (load_memory_card with an unsupported size, "
    "load_snapshot of a missing file, set_device_model(Iq7000), add_ram_overlay of size 0, step(0)) must leave no "
    "trace: the law is applied unchanged; if the operation is not rejected the program is not judged",
    "bulk execution: the state after step(n1)+step(n2)+.. (n1+n2+..= the program's instruction count) is the state "
    "after the top-level call's matching return, so the pair law is applied to it as it stands ('[bulk step(n)]'); "
    "only programs whose single-stepped run obeyed the law are re-run this way",
    "the pair law is applied to each executing core on its own (Python Emulator, Rust LlamaExecutor, Rust "
    "CoreRuntime.step); cores are never compared with each other (C06); an executor error ends a program unjudged",
    "a computed jump through RET/RETF is part of the stack-neutral body, not a pair: if it misses its continuation "
    "the program is labelled cj-astray and not judged (no statement covers a return in isolation)",
    "CoreRuntime programs run with timers off and ISR=0 (no hardware interrupts: C12); their code lies in memory "
    "the PC-E500 model maps plainly (pages 1-7, 0xC-0xF)",
    "with CoreRuntime::enable_sio_stub() (device.rs enables it for every PC-E500 machine) a call to 0xEB030/"
    "0xEB31C/0xEB33D is a call whose matching return is performed by the runtime (SioStub::force_return_auto): "
    "resume address, S and IMR must be restored; F is not compared (the serviced routine reports through C)",
    "for CALL/CALLF pairs F and IMR are compared only when the whole callee is flag-/IMR-neutral by the README "
    "flag column ('- -'); for IR..RETI they are always compared (handlers deliberately modify F and IMR)",
    "which internal-memory cell JP (n) reads under which PRE byte is C03's subject; here only 'reported target "
    "== PC reached' is compared",
    "histories: 'the static facts' of an executed instruction are get_instruction_info of the 16 bytes that the "
    "executor's memory holds at its address immediately before the step (the statement ties the facts to the "
    "instruction, not to an earlier content of its address); registers, PC and the halted flag are set by the host "
    "between episodes as a test bench / loader would; an episode whose planned path was left, whose bytes are not "
    "a valid encoding or whose step raised is not judged further; the Rust LLAMA core is judged against the same "
    "(Python) metadata because there is only one get_instruction_info; near calls whose return address lies in the "
    "next page are not generated in histories (the pair domain's known class)",
]


# ------------------------------------------------------------------------------------------------
# verdict for one executed instruction
# ------------------------------------------------------------------------------------------------

def where_of(toks: List[TP.Tok]) -> str:
    """mnemonic + abstract operand shape; internal-memory operands collapse to (n), pointer registers to r3."""
    mn = TP.mnemonic(toks)
    ops = []
    for op in TP.split_operands(toks):
        kinds = [k for k, _ in op]
        txt = "".join(t for _, t in op)
        if "BegMem" in kinds or txt.startswith("(") or txt.startswith("["):
            ops.append("(n)" if txt.startswith("(") else "[..]")
        elif kinds == ["Reg"]:
            ops.append("r3" if txt in ("X", "Y", "U", "S") else "r")
        elif txt[:1] in "+-":
            ops.append(txt[0] + "n")
        else:
            ops.append("imm")
    return (mn + " " + ",".join(ops)).strip()


def judge(branches: List[Tuple[str, Optional[int]]], length: int, addr: int, mn: str, f: int,
          pc_after: int, imem_operand: Optional[int] = None) -> List[Tuple[str, str, str]]:
    """[(subcheck, symptom, detail)] for one executed instruction.  Only the property statement is applied."""
    out: List[Tuple[str, str, str]] = []
    pc = pc_after & M20
    ft = (addr + length) & M20
    m = COND_RE.fullmatch(mn)
    taken: Optional[bool] = None
    if m:
        bit = (f >> 1) & 1 if m.group(2) == "Z" else f & 1
        taken = (bit == 0) if m.group(1) else (bit == 1)
    if not branches:
        if mn == "IR":
            return out
        if pc != ft:
            out.append(("no-branch-reported", "reports no branch but continues elsewhere than addr+len",
                        f"addr={addr:#x} len={length} reached {pc:#x}, addr+len={ft:#x}"))
        return out
    targetless = any(t in TARGETLESS or tgt is None for t, tgt in branches)
    applicable: List[int] = []
    for t, tgt in branches:
        if tgt is None:
            continue
        tg = int(tgt) & M20
        if t in ("UnconditionalBranch", "CallDestination"):
            must = True
        elif t == "TrueBranch":
            must = taken is True
            if taken is None:
                applicable.append(tg)
        elif t == "FalseBranch":
            must = taken is False
            if taken is None:
                applicable.append(tg)
        else:
            continue
        if must:
            applicable.append(tg)
            if tg != pc:
                if imem_operand is not None and tg == imem_operand:
                    sym = "reported target is the instruction's own operand byte (an internal-memory offset)"
                else:
                    sym = diffclass(tg, pc, addr + length)
                out.append((f"target:{t}", sym,
                            f"addr={addr:#x} len={length} F={f:#04x} reported {t}={tg:#x}, reached {pc:#x}"))
    if not out and not targetless and pc not in applicable:
        if taken is True:
            sym = "taken outcome has no reported branch"
        elif taken is False:
            sym = "not-taken outcome has no reported branch"
        else:
            sym = "PC reached is not among the reported targets"
        out.append(("outcome-uncovered", sym,
                    f"addr={addr:#x} len={length} F={f:#04x} reached {pc:#x}, reported "
                    + ",".join(f"{t}={'-' if g is None else hex(int(g) & M20)}" for t, g in branches)))
    return out


_LAST: List[Any] = [None, None]


def _decode_facts(data: bytes, addr: int) -> Optional[Tuple[int, List[Tuple[str, Optional[int]]], List[TP.Tok]]]:
    """(length, [(branch type name, target)], tokens) from get_instruction_info + the rendered text; the last
    result is memoised because the grid runs the same bytes/address under four flag values."""
    key = (data, addr)
    if _LAST[0] == key:
        return _LAST[1]
    info = G.arch().get_instruction_info(data, addr)
    out = None
    if info is not None:
        tk = TP.tokens(data, addr)
        if tk is not None:
            out = (int(info.length),
                   [(getattr(b.type, "name", str(b.type)), b.target) for b in info.branches], tk[0])
    _LAST[0], _LAST[1] = key, out
    return out


def exec_single(case: Dict[str, Any]) -> Dict[str, Any]:
    """Decode (info + text) from the bytes the emulator will fetch, execute once, judge."""
    addr = int(case["regs"]["PC"]) & M20
    over = {pycore.canon(a): v & 0xFF for a, v in case.get("mem", [])}
    mem0 = pycore.HashMemory(int(case.get("seed", 0)), over)
    data = bytes(mem0.peek(addr + i) for i in range(16))
    res: Dict[str, Any] = {"addr": addr, "viol": [], "labels": []}
    dec = _decode_facts(data, addr)
    if dec is None:
        res["rejected"] = True
        return res
    length, branches, toks = dec
    mn = TP.mnemonic(toks)
    pcase = {"regs": case["regs"], "seed": case.get("seed", 0), "mem": case.get("mem", []), "steps": 1,
             "power": "running"}
    emu, mem = pycore.make_emulator(pcase)
    st = pycore.step(emu, mem)
    res.update(length=length, mn=mn, branches=[[t, None if g is None else int(g)] for t, g in branches],
               cls=addr_class(addr, length))
    if "err" in st:
        res["labels"].append("python-exception")
        res["err"] = st["err"]
        return res
    pc_after = int(st["regs"]["PC"])
    res["pc_after"] = pc_after
    f = int(case["regs"].get("F", 0)) & 0xFF
    shape = where_of(toks)
    w = shape + " @" + res["cls"]
    # a lone internal-memory operand "(..)": its encoded offset is the instruction's last byte
    imem_operand = data[length - 1] if shape.endswith(" (n)") else None
    for sub, sym, detail in judge(branches, length, addr, mn, f, pc_after, imem_operand):
        res["viol"].append(Violation(sub, w, sym, case, f"{data[:length].hex()} {TP.text(toks)}: {detail}"))
    res["moved"] = (pc_after & M20) != ((addr + length) & M20)
    return res


# ------------------------------------------------------------------------------------------------
# (a) control-flow grid
# ------------------------------------------------------------------------------------------------

def interior_addr(st: S.Stream) -> int:
    a = 0x01000 + st.below(0xF0000)
    if (a & 0xFFFF) > 0xFF00 or (a & 0xFFFF) < 0x100:
        a = (a & 0xF0000) | 0x4000 | (a & 0xFFF)
    return a


def addr_grid(st: S.Stream, length: int, thorough: bool) -> List[int]:
    out = [interior_addr(st)]
    if thorough:
        out.append(interior_addr(st))
    end = (1 + st.below(14) + 1) << 16
    out.append(end - length)  # ends exactly at the page boundary
    ks = (1, 2, 3) if thorough else (1 + st.below(3),)
    for k in ks:
        out.append(end - length - k)
    for j in range(1, length):
        out.append(end - j)  # straddles the boundary
    out.append(end)
    if thorough:
        out.append(end + 1)
    out.append(0x100000 - length)  # ends at 0xFFFFF: addr+len wraps to 0
    for k in ks:
        out.append(0x100000 - length - k)
    for j in range(1, length):
        out.append(0x100000 - j)  # straddles the top of the external space
    out.append(0)
    if thorough:
        out.append(1)
    return out


def operand_variants(st: S.Stream, op: int, addr: int, length: int, n_rand: int,
                     n_fixed: int = 0, derived: bool = False) -> List[Tuple[str, bytes, Dict[str, int]]]:
    """[(operand class, operand bytes, extra register values)].  For 16-/20-bit immediate targets the shared
    landmark values (gen_enc.landmark_values) are appended as classes "lm:<tag>": those derived from the
    instruction's own address (self-1, self+1..7, the same offset in the neighbouring page) when `derived`, and
    `n_fixed` of the fixed landmarks (-1: all; vectors, region bases of the machine map, 0/FFFFF ...)."""
    out: List[Tuple[str, bytes, Dict[str, int]]] = []

    def le(v: int, n: int) -> bytes:
        return bytes((v >> (8 * i)) & 0xFF for i in range(n))

    def landmarks(n: int) -> None:
        lms = G.landmark_values(addr)
        fixed = [x for x in lms if x[0].startswith("fixed:")]
        picks = [x for x in lms if not x[0].startswith("fixed:")] if derived else []
        if n_fixed < 0 or n_fixed >= len(fixed):
            picks += fixed
        elif n_fixed > 0:
            k = st.below(len(fixed))
            picks += [fixed[(k + 7 * j) % len(fixed)] for j in range(n_fixed)]
        seen = {o for _, o, _ in out}
        for tag, v in picks:
            o = le(v & (0xFFFF if n == 2 else 0xFFFFFF), n)
            if o not in seen:
                seen.add(o)
                out.append(("lm:" + tag, o, {}))

    if op in (0x02, 0x04, 0x14, 0x15, 0x16, 0x17):
        for name, v in (("0000", 0), ("0001", 1), ("FFFF", 0xFFFF), ("8000", 0x8000),
                        ("self", addr & 0xFFFF), ("fallthrough", (addr + length) & 0xFFFF)):
            out.append((name, le(v, 2), {}))
        for _ in range(n_rand):
            out.append(("rand", le(st.u32() & 0xFFFF, 2), {}))
        landmarks(2)
    elif op in (0x03, 0x05):
        for name, v in (("000000", 0), ("0FFFFF", 0xFFFFF), ("hi-nibble", 0xF00000 | (st.u32() & M20)),
                        ("FFFFFF", 0xFFFFFF), ("self", addr & M20), ("fallthrough", (addr + length) & M20),
                        ("page-edge", ((st.u32() & 0xF0000) | 0xFFFF))):
            out.append((name, le(v, 3), {}))
        for _ in range(n_rand):
            out.append(("rand", le(st.u32() & 0xFFFFFF, 3), {}))
        landmarks(3)
    elif op in (0x12, 0x13) or 0x18 <= op <= 0x1F:
        for name, v in (("00", 0), ("01", 1), ("len", length), ("7F", 0x7F), ("80", 0x80), ("FF", 0xFF)):
            out.append((name, bytes([v]), {}))
        for _ in range(n_rand):
            out.append(("rand", bytes([st.u32() & 0xFF]), {}))
    elif op == 0x10:
        for name, v in (("00", 0), ("EC", 0xEC), ("FD", 0xFD), ("FF", 0xFF)):
            out.append((name, bytes([v]), {}))
        for _ in range(n_rand + 1):
            out.append(("rand", bytes([st.u32() & 0xFF]), {}))
    elif op == 0x11:
        sel = [4, 5, 6, 7, 0, 1, 2, 3, 0x0C, 0x75, 0xFF] + [st.u32() & 0xFF for _ in range(n_rand)]
        for b2 in sel:
            regs = {}
            for r in ("X", "Y", "U", "S"):
                regs[r] = st.pointer()[0]
            regs["BA"] = st.word()
            regs["I"] = st.word()
            out.append((f"sel{b2 & 7}" if b2 < 8 else "sel-hi", bytes([b2]), regs))
    else:
        out.append(("none", b"", {}))
    return out


def build_single(st: S.Stream, pre: Optional[int], op: int, operand: bytes, addr: int, cz: int,
                 extra_regs: Dict[str, int]) -> Dict[str, Any]:
    code = (bytes([pre]) if pre is not None else b"") + bytes([op]) + operand
    regs: Dict[str, int] = {"BA": st.word(), "I": st.word(), "PC": addr & M20}
    for r in ("X", "Y", "U", "S"):
        regs[r] = st.pointer()[0]
    regs.update(extra_regs)
    regs["F"] = ((st.u32() & 0xFC) | (cz & 3)) if st.chance(3, 4) else (cz & 3)
    mem: List[List[int]] = [[S.IMEM + S.BP, st.byte()], [S.IMEM + S.PX, st.byte()], [S.IMEM + S.PY, st.byte()]]
    # code last: it wins over the pointer bytes when the instruction straddles into the internal window
    for i, b in enumerate(code + G.NOP_PAD):
        mem.append([addr + i, b])
    return {"kind": "single", "regs": regs, "seed": st.u32(), "mem": mem}


def _record_single(rep: Report, case: Dict[str, Any], res: Dict[str, Any], ntkey: Any, labels: List[str],
                   sample_every: int) -> None:
    if res.get("rejected"):
        rep.filtered += 1
        return
    for v in res["viol"]:
        rep.violate(v)
    labs = list(labels) + res["labels"] + [f"addr:{res['cls']}"]
    nt = bool(res.get("moved")) or res["cls"] != "interior" and res["cls"] not in ("page-start", "bottom")
    for t, _ in res.get("branches", []):
        labs.append(f"branch:{t}")
    if not res.get("branches"):
        labs.append("branch:none")
    if res.get("moved"):
        labs.append("pc:moved")
    sample = None
    if "pc_after" in res and rep.evaluations % sample_every == 7:
        sample = {"kind": case["kind"], "addr": hex(res["addr"]), "text": res["mn"], "len": res["length"],
                  "F": case["regs"].get("F"), "branches": res["branches"], "pc_after": hex(res["pc_after"]),
                  "class": res["cls"]}
    rep.case(ntkey if nt and "pc_after" in res else None, labs, sample)


def _shard_single(task: Tuple[int, int, str]) -> Report:
    shard, seed, tier = task
    thorough = tier != "quick"
    rep = Report()
    pre = G.PRES[shard % len(G.PRES)]
    n_rand = 20 if thorough else 2
    for op in CF_OPS:
        st = S.Stream(seed, 0xC05, shard, op)
        base = (bytes([pre]) if pre is not None else b"") + bytes([op])
        ln = G.info_len(base + bytes(5) + G.NOP_PAD)
        if ln is None:
            # e.g. opcode whose zero operand is rejected: probe with a plausible operand
            ln = G.info_len(base + bytes([4, 0, 0, 0, 0]) + G.NOP_PAD)
        if ln is None:
            rep.case(None, ["head:rejected-by-decoder"])
            continue
        for addr in addr_grid(st, ln, thorough):
            for ocls, operand, xregs in operand_variants(st, op, addr, ln, n_rand, n_fixed=-1 if thorough else 3,
                                                         derived=True):
                for cz in range(4):
                    case = build_single(st, pre, op, operand, addr, cz, xregs)
                    res = exec_single(case)
                    key = f"s:{pre}:{op:02X}:{res.get('cls')}:{cz}:{ocls}:{operand.hex() if ocls == 'rand' else ''}"
                    _record_single(rep, case, res, key, ["kind:single", f"pre:{'yes' if pre else 'no'}",
                                                         f"cz:{cz}"], 9001)
    return rep


# ------------------------------------------------------------------------------------------------
# (b) all other valid encodings
# ------------------------------------------------------------------------------------------------

def _shard_other(task: Tuple[int, int, str, int]) -> Report:
    shard, seed, tier, count = task
    rep = Report()
    k = (shard * 7) % len(G.PRES)  # rotate the prefix order per shard so that every prefix class is reached
    encs, filtered = G.sample_valid_encodings(mix32(seed, shard, 0xB05), count, pres=G.PRES[k:] + G.PRES[:k])
    rep.extra["sampler_redraws"] = rep.extra.get("sampler_redraws", 0) + filtered
    for j, (pre, code) in enumerate(encs):
        st = S.Stream(seed, 0xC05B, shard, j)
        tk = TP.tokens(code + G.NOP_PAD)
        mn = TP.mnemonic(tk[0]) if tk else ""
        if mn.startswith("???") or not mn:
            # DESIGN 2.3: the decoder's "unknown instruction" placeholders (20, BF, ...) are not valid encodings
            rep.labels["skipped:unknown-opcode-placeholder"] += 1
            continue
        ln = len(code)
        sel = st.below(16)
        if sel < 10:
            pc = interior_addr(st)
        elif sel < 12:
            pc = ((2 + st.below(13)) << 16) - ln  # ends exactly at a page boundary
        elif sel < 14:
            pc = ((2 + st.below(13)) << 16) - 1 - st.below(max(1, ln - 1)) if ln > 1 else ((2 + st.below(13)) << 16) - 1
        elif sel == 14:
            pc = (2 + st.below(13)) << 16
        else:
            pc = 0x100000 - ln  # addr+len wraps to 0
        case, labels = S.gen_state(st, code, mn, imax=12, pc=pc)
        case["kind"] = "other"
        for i, b in enumerate(code + G.NOP_PAD):
            case["mem"].append([pc + i, b])  # unmasked: what the emulator's linear fetch reads
        res = exec_single(case)
        op = code[1] if pre is not None else code[0]
        b2 = code[2] if pre is not None and len(code) > 2 else (code[1] if pre is None and len(code) > 1 else 0)
        key = f"o:{pre}:{op:02X}:{b2:02X}:{res.get('cls')}"
        _record_single(rep, case, res, key, ["kind:other", f"pre:{'yes' if pre else 'no'}",
                                             f"other-pre:{'none' if pre is None else format(pre, '02X')}"] + labels, 3001)
    return rep


# ------------------------------------------------------------------------------------------------
# (c) pairs
# ------------------------------------------------------------------------------------------------

def _shard_pair(task: Tuple[int, int, str, int, str]) -> Report:
    """profile "full": every program runs on the Python core and on the Rust LLAMA core (same bytes, same hash
    memory; each judged against the statement on its own); profile "rt": on the Rust machine runtime."""
    shard, seed, tier, count, profile = task
    rep = Report()
    for j in range(count):
        st = S.Stream(seed, 0xC05C if profile == "full" else 0xC05D, shard, j)
        case0 = P.gen_program(st, thorough=(tier != "quick"), profile=profile)
        if case0 is None:
            rep.filtered += 1
            continue
        for core in (case0.get("cores") or ("py", "rs") if profile == "full" else ("rt",)):
            case = {**case0, "core": core}
            res = P.exec_program(case)
            for v in res["viol"]:
                rep.violate(v)
            sample = None
            if rep.evaluations % 701 == 3:
                sample = {"kind": "pair", "core": core, "top": res["top"], "steps": res["steps"],
                          "pairs_checked": res["pairs"], "sio": case.get("sio"),
                          "routines": [{"addr": hex(r["addr"]), "n": len(r["ins"]), "hle": bool(r.get("hle"))}
                                       for r in case["routines"]]}
            judged = not res.get("err") and not res.get("astray")
            rep.case("p:" + res["key"] if judged else None, ["kind:pair"] + res["labels"], sample)
            rep.extra["pairs_checked"] = rep.extra.get("pairs_checked", 0) + res["pairs"]
            rep.extra[f"pairs_checked_{core}"] = rep.extra.get(f"pairs_checked_{core}", 0) + res["pairs"]
            rep.extra["pair_steps"] = rep.extra.get("pair_steps", 0) + res["steps"]
    return rep


# ------------------------------------------------------------------------------------------------
# (d) histories on one executor instance
# ------------------------------------------------------------------------------------------------

def _shard_hist(task: Tuple[int, int, str, int]) -> Report:
    shard, seed, tier, count = task
    rep = Report()
    pool = H.build_pool(mix32(seed, shard, 0xD05), 160 if tier == "quick" else 400)
    for j in range(count):
        st = S.Stream(seed, 0xC05E, shard, j)
        case0 = H.gen_history(st, tier != "quick", pool)
        if case0 is None:
            rep.filtered += 1
            continue
        for core in H.CORES:
            case = {**case0, "core": core}
            res = H.exec_history(case)
            for v in res["viol"]:
                rep.violate(v)
            for lab in res["labels"]:
                rep.labels[lab] += 1
            rep.extra["hist_steps"] = rep.extra.get("hist_steps", 0) + res["steps"]
            rep.extra[f"histories_{core}"] = rep.extra.get(f"histories_{core}", 0) + 1
            for e in res["episodes"]:
                labs = ["kind:hist", f"core:{core}", f"hist:{e['rv']}", f"hist:via-{e['via']}",
                        f"hist:{e['rv']}:via-{e['via']}", f"hist-addr:{e['cls']}"]
                labs += [f"hist-branch:{t}" for t in e["branches"]] or ["hist-branch:none"]
                if e.get("moved"):
                    labs.append("hist:pc-moved")
                if e.get("err"):
                    rep.case(None, labs)
                    continue
                nt = e["rv"] != "first-visit"
                sample = None
                if nt and rep.evaluations % 1501 == 11:
                    sample = {"kind": "hist", "core": core, "text": e["mn"], "code": e["code"], "class": e["cls"],
                              "revisit": e["rv"], "via": e["via"]}
                key = f"h:{core}:{e['head']}:{e['cls']}:{e['rv']}:{e['via']}:{e['cz']}:{e['code']}"
                rep.case(key if nt else None, labs, sample)
    return rep


def _task(task: Tuple[str, Any]) -> Report:
    kind, args = task
    return {"single": _shard_single, "other": _shard_other, "pair": _shard_pair, "hist": _shard_hist}[kind](args)


# ------------------------------------------------------------------------------------------------
# entry points
# ------------------------------------------------------------------------------------------------

def run(ctx: Ctx) -> Report:
    P.self_test()
    H.self_test()
    rsclient.build()
    P.rt_self_test()
    tasks_s = [(i, ctx.seed, ctx.tier) for i in range(len(G.PRES))]
    n_other = ctx.pick(16, 64)
    per_other = ctx.pick(2000, 5000)
    tasks_o = [(i, ctx.seed, ctx.tier, per_other) for i in range(n_other)]
    n_pair = ctx.pick(16, 64)
    per_pair = ctx.pick(220, 420)
    tasks_p = [(i, ctx.seed, ctx.tier, per_pair, "full") for i in range(n_pair)]
    tasks_p += [(i, ctx.seed, ctx.tier, per_pair, "rt") for i in range(n_pair)]
    n_hist = ctx.pick(16, 64)
    per_hist = ctx.pick(60, 120)
    tasks_h = [(i, ctx.seed, ctx.tier, per_hist) for i in range(n_hist)]
    tasks = [("other", t) for t in tasks_o] + [("single", t) for t in reversed(tasks_s)] + [("pair", t) for t in tasks_p]
    tasks += [("hist", t) for t in tasks_h]
    reports = ctx.pmap(_task, tasks)
    rep = ctx.merge_reports(reports)
    rep.rule = RULE
    rep.assumptions = list(ASSUMPTIONS)
    rep.exhaustive = False
    total = rep.evaluations + rep.filtered
    if total and rep.filtered > 0.05 * total:
        raise HarnessError(f"generator rejected {rep.filtered} of {total} cases (> 5 %)")
    n_exc = rep.labels.get("python-exception", 0)
    if n_exc:
        rep.inconclusive.append(f"{n_exc} case(s) raised a Python exception while executing and were not judged")
    for need in ("kind:single", "kind:other", "kind:pair", "kind:hist", "hist:revisit:operand-bytes-changed",
                 "hist:revisit:opcode-changed-under-same-PRE", "hist:revisit:unchanged",
                 "hist:revisit:operand-bytes-changed:via-store", "hist:pair",
                 "stack:host", "stack:ovl", "stack:mirror", "stack:wrap", "frame:IR:host:inside",
                 "frame:IR:ovl:straddles", "frame:IR:mirror:straddles-32k", "frame:IR:wrap:wraps",
                 "frame:CALL:host:inside", "frame:CALLF:ovl:straddles", "stack-io:host-written",
                 "stack-io:host-read", "stack-io:overlay-written", "bulk:chunks-2", "after-rejected:card"):
        if not rep.labels.get(need):
            raise HarnessError(f"no cases of {need} were generated")
    return rep


def replay(ctx: Ctx, case: Dict[str, Any]) -> List[Violation]:
    if case.get("kind") == "pair":
        return list(P.exec_program(case)["viol"])
    if case.get("kind") == "hist":
        return list(H.exec_history(case)["viol"])
    return list(exec_single(case)["viol"])


def shrink(ctx: Ctx, v: Violation) -> Violation:
    case = v.case
    if not isinstance(case, dict):
        return v
    if case.get("kind") == "pair":
        return P.shrink(v)
    if case.get("kind") == "hist":
        return H.shrink(v)
    # single/other: reset registers that do not matter, one at a time, while the fingerprint persists
    best = v
    cur = {**case, "regs": dict(case["regs"])}
    for r in ("BA", "I", "X", "Y", "U", "S"):
        trial = {**cur, "regs": {**cur["regs"], r: 0x50000 if r in ("U", "S") else 0}}
        vs = [x for x in exec_single(trial)["viol"] if x.key() == v.key()]
        if vs:
            cur, best = trial, vs[0]
    f = cur["regs"].get("F", 0)
    trial = {**cur, "regs": {**cur["regs"], "F": f & 3}}
    vs = [x for x in exec_single(trial)["viol"] if x.key() == v.key()]
    if vs:
        cur, best = trial, vs[0]
    return best
