"""C07 helper: history independence of the Rust *machine* (`CoreRuntime`), two subchecks.

machine-history (verb machine.c07_mem of rust/harness/src/machine_c07.rs)
    A generated memory map -- 2-4 RAM/ROM overlays, memory card, absent-card slot, with generated overlap relations
    (tail/head/nested/cover/same-start/same-range/adjacent/disjoint), generated configuration order, optional
    remove + re-add -- and a generated program of loads/stores whose addresses are drawn from the points of interest
    of that map (overlay boundaries +-2, interiors of every elementary interval), placed in plain memory or inside
    an overlay.  The reference machine single-steps the program; before EVERY step n a fresh machine built from the
    same configuration receives only the architectural state of the reference (registers, flags, internal memory,
    external memory, overlay contents) and runs the rest.  "Executing the same instruction bytes from the same
    registers, flags and memory gives the same result regardless of what executed before": every step of every
    fresh continuation must equal the reference.  Catches lookup caches / most-recently-used shortcuts in the
    memory map that make a loaded value depend on an earlier access.

converging-histories (verb machine.c07_conv)
    One ROM image holds 2-4 *routes* (different entry points) that all jump to a common join point, a main loop
    and an interrupt handler.  The routes are different histories -- timers posting requests during WAITs while
    interrupts are masked, the program acknowledging / rewriting / re-posting ISR bits, ON-key press+release by
    the host -- built to consume the same number of cycles and instructions and to end in the same normalising
    suffix.  At the join point the harness reports the complete machine state; routes whose state is equal in
    everything except host-side interrupt bookkeeping (TimerContext::irq_source, last_fired, last_irq_src, the
    IMR/ISR mirror fields) are *converged*: from there on the same instruction bytes run from the same registers,
    flags and memory (and the same timer deadlines / cycle counter), so every later step must agree in registers,
    flags, IMR/ISR, internal memory and both stack windows.  Nothing is asserted about routes that do not converge.
"""

from __future__ import annotations

from typing import Any, Dict, List, Optional, Tuple

from ..core import HarnessError, Report, Violation, jhash
from ..gen_state import Stream
from .. import rsclient
from .. import c12_rom as R

# --------------------------------------------------------------------------------------------------
# instruction templates (hand-encoded; self_test() checks every one against the repository's decoder)


def _a3(a: int) -> bytes:
    return bytes([a & 0xFF, (a >> 8) & 0xFF, (a >> 16) & 0x0F])


_LD_ABS = {0x88: "A", 0x89: "IL", 0x8A: "BA", 0x8B: "I"}
_ST_ABS = {0xA8: "A", 0xA9: "IL", 0xAA: "BA", 0xAB: "I"}
_LD_PTR = {0x90: "A", 0x91: "IL", 0x92: "BA", 0x93: "I"}
_ST_PTR = {0xB0: "A", 0xB1: "IL", 0xB2: "BA", 0xB3: "I"}
_PTR = {4: "X", 5: "Y"}
_MVM = {0xD0: "MV ", 0xD1: "MVW", 0xD2: "MVP", 0xD3: "MVL"}


def enc(ins: List[Any]) -> bytes:
    """ins = [kind, args...] -> bytes."""
    k = ins[0]
    if k == "NOP":
        return b"\x00"
    if k == "LDABS":      # [LDABS, opcode, addr]
        return bytes([ins[1]]) + _a3(ins[2])
    if k == "STABS":
        return bytes([ins[1]]) + _a3(ins[2])
    if k in ("LDPTR", "STPTR"):   # [LDPTR, opcode, mode(0x00 plain,0x20 post-inc,0x30 pre-dec,0x80 +n,0xC0 -n), reg(4|5), disp]
        b = bytes([ins[1], ins[2] | ins[3]])
        if ins[2] in (0x80, 0xC0):
            b += bytes([ins[4] & 0xFF])
        return b
    if k == "MVMABS":     # [MVMABS, opcode D0-D3, n, addr]   (n) <- [addr]
        return bytes([0x30, ins[1], ins[2] & 0xFF]) + _a3(ins[3])
    if k == "MVABSM":     # [MVABSM, opcode D8-DB, addr, n]   [addr] <- (n)
        return bytes([0x30, ins[1]]) + _a3(ins[2]) + bytes([ins[3] & 0xFF])
    if k == "MVMPTR":     # [MVMPTR, opcode E0-E3, mode, reg, n]   (n) <- [r..]
        return bytes([0x30, ins[1], ins[2] | ins[3], ins[4] & 0xFF])
    if k == "MVPTRM":     # [MVPTRM, opcode E8-EB, mode, reg, n]   [r..] <- (n)
        return bytes([0x30, ins[1], ins[2] | ins[3], ins[4] & 0xFF])
    if k == "MVI":
        return bytes([0x0B, ins[1] & 0xFF, (ins[1] >> 8) & 0xFF])
    if k == "MVX":
        return bytes([0x0C]) + _a3(ins[1])
    if k == "MVY":
        return bytes([0x0D]) + _a3(ins[1])
    if k == "LOGA":       # (n) <- A
        return bytes([0x30, 0xA0, ins[1] & 0xFF])
    if k == "MVA":
        return bytes([0x08, ins[1] & 0xFF])
    if k == "ADDA":
        return bytes([0x40, ins[1] & 0xFF])
    if k == "JP":
        return bytes([0x02, ins[1] & 0xFF, (ins[1] >> 8) & 0xFF])
    if k == "ORISR":
        return bytes([0x30, 0x79, R.ISR, ins[1] & 0xFF])
    if k == "LDISR":      # A <- (ISR)
        return bytes([0x30, 0x80, R.ISR])
    if k == "PUSHUA":
        return b"\x28"
    if k in ("IMR", "ISR", "ACK", "ORIMR", "ANDIMR", "INCM", "WAITI", "HALT", "RETI", "INCA", "KIL", "JRB"):
        return R.encode(k, int(ins[1]) if len(ins) > 1 else 0)
    raise ValueError(f"unknown template {k}")


def _ptr_text(mode: int, reg: int, disp: int) -> str:
    r = _PTR[reg]
    return {0x00: f"[{r}]", 0x20: f"[{r}++]", 0x30: f"[--{r}]", 0x80: f"[{r}+{disp & 0xFF:02X}]",
            0xC0: f"[{r}-{disp & 0xFF:02X}]"}[mode]


def text(ins: List[Any]) -> Optional[str]:
    """Expected rendering (None = covered by c12_rom.selftest)."""
    k = ins[0]
    if k == "NOP":
        return "NOP"
    if k == "LDABS":
        return f"MV    {_LD_ABS[ins[1]]}, [{ins[2] & 0xFFFFF:05X}]"
    if k == "STABS":
        return f"MV    [{ins[2] & 0xFFFFF:05X}], {_ST_ABS[ins[1]]}"
    if k == "LDPTR":
        return f"MV    {_LD_PTR[ins[1]]}, {_ptr_text(ins[2], ins[3], ins[4])}"
    if k == "STPTR":
        return f"MV    {_ptr_text(ins[2], ins[3], ins[4])}, {_ST_PTR[ins[1]]}"
    if k == "MVMABS":
        return f"{_MVM[ins[1]]}   ({ins[2] & 0xFF:02X}), [{ins[3] & 0xFFFFF:05X}]"
    if k == "MVABSM":
        return f"{_MVM[ins[1] - 8]}   [{ins[2] & 0xFFFFF:05X}], ({ins[3] & 0xFF:02X})"
    if k == "MVMPTR":
        return f"{_MVM[ins[1] - 0x10]}   ({ins[4] & 0xFF:02X}), {_ptr_text(ins[2], ins[3], 0)}"
    if k == "MVPTRM":
        return f"{_MVM[ins[1] - 0x18]}   {_ptr_text(ins[2], ins[3], 0)}, ({ins[4] & 0xFF:02X})"
    if k == "MVI":
        return f"MV    I, {ins[1] & 0xFFFF:04X}"
    if k == "MVX":
        return f"MV    X, {ins[1] & 0xFFFFF:05X}"
    if k == "MVY":
        return f"MV    Y, {ins[1] & 0xFFFFF:05X}"
    if k == "LOGA":
        return f"MV    ({ins[1] & 0xFF:02X}), A"
    if k == "MVA":
        return f"MV    A, {ins[1] & 0xFF:02X}"
    if k == "ADDA":
        return f"ADD   A, {ins[1] & 0xFF:02X}"
    if k == "JP":
        return f"JP    {ins[1] & 0xFFFF:04X}"
    if k == "ORISR":
        return f"OR    (ISR), {ins[1] & 0xFF:02X}"
    if k == "LDISR":
        return "MV    A, (ISR)"
    if k == "PUSHUA":
        return "PUSHU A"
    return None


def self_test() -> None:
    from .. import gen_enc as G

    bad = R.selftest()
    samples: List[List[Any]] = [["NOP"], ["MVI", 5], ["MVX", 0x41234], ["MVY", 0x0FFFF], ["LOGA", 0x20], ["MVA", 0x7F],
                                ["ADDA", 3], ["JP", 0x0100], ["ORISR", 2], ["LDISR"], ["PUSHUA"]]
    for op in _LD_ABS:
        samples.append(["LDABS", op, 0x41FFF])
    for op in _ST_ABS:
        samples.append(["STABS", op, 0x42000])
    for op in _LD_PTR:
        for mode in (0x00, 0x20, 0x30, 0x80, 0xC0):
            for reg in (4, 5):
                samples.append(["LDPTR", op, mode, reg, 5])
    for op in _ST_PTR:
        for mode in (0x00, 0x20, 0x30, 0x80, 0xC0):
            samples.append(["STPTR", op, mode, 4, 3])
    for op in (0xD0, 0xD1, 0xD2, 0xD3):
        samples.append(["MVMABS", op, 0x20, 0x41234])
        samples.append(["MVABSM", op + 8, 0x41234, 0x20])
        for mode in ((0x20, 0x30) if op == 0xD3 else (0x00, 0x20, 0x30)):   # MVL has no plain [r] form
            samples.append(["MVMPTR", op + 0x10, mode, 4, 0x20])
            samples.append(["MVPTRM", op + 0x18, mode, 5, 0x20])
    for ins in samples:
        b = enc(ins)
        want = text(ins)
        r = G.text_of(b + G.NOP_PAD, R.MAIN)
        if r is None or r[1] != len(b) or (want is not None and r[0].strip() != want):
            bad.append(f"{ins} {b.hex()}: decoder says {r}, template says {(want, len(b))}")
    if bad:
        raise HarnessError("C07 machine templates disagree with the decoder: " + "; ".join(bad[:5]))


# --------------------------------------------------------------------------------------------------
# machine-history: generated memory map + load/store program

CODE_PLAIN = 0xC0100
CODE_RESERVE = 0xC0          # upper bound of a generated program in bytes (checked)
CODE_MARGIN = 0x100          # a pointer register moves by <= 8 bytes per instruction, a program has <= 21 instructions
CARD_SIZES = (8192, 16384, 32768, 65536)
RELATIONS = ("tail", "tail", "tail", "head", "head", "nested", "cover", "same-start", "same-range", "adjacent", "disjoint")
SIZES = (0x40, 0x100, 0x400, 0x800, 0x1000, 0x1800, 0x2000, 0x3000)
MEM_FIELDS = ("ba", "i", "x", "y", "u", "s", "f", "pc", "pw", "im")


def _ranges(ops: List[List[Any]]) -> Dict[str, Tuple[int, int, str]]:
    """name -> (start, end, kind) of the overlays present after applying the configuration ops (generator-side
    bookkeeping for labels and address selection only; never used in a verdict)."""
    out: Dict[str, Tuple[int, int, str]] = {}
    for op in ops:
        if op[0] == "ram":
            if op[2] > 0:
                out[op[3]] = (op[1], op[1] + op[2] - 1, "ram")
        elif op[0] == "rom":
            if op[2] > 0:
                out[op[4]] = (op[1], op[1] + op[2] - 1, "rom")
        elif op[0] == "card":
            out["memory_card"] = (0x40000, 0x40000 + op[1] - 1, "card")
        elif op[0] == "slot":
            out.pop("memory_card_slot", None)
            if not op[1]:
                out.pop("memory_card", None)
                out["memory_card_slot"] = (0x40000, 0x4FFFF, "slot")
        elif op[0] == "remove":
            out.pop(op[1], None)
    return out


def _covering(rng: Dict[str, Tuple[int, int, str]], addr: int) -> List[str]:
    return sorted((n for n, (s, e, _k) in rng.items() if s <= addr <= e), key=lambda n: (rng[n][0], rng[n][1], n))


def gen_mem_case(st: Stream) -> Dict[str, Any]:
    base = st.choice((0x40000, 0x40000, 0x40000, 0x20000, 0x60000, 0x98000))
    names = ["ovA", "ovB", "ovC", "ovD"]
    # rotate the name pool so that the (start, end, name) tie-break is exercised in both directions
    rot = st.below(4)
    names = names[rot:] + names[:rot]
    ovs: List[Dict[str, Any]] = []
    rels: List[str] = []
    n_ov = 2 + st.below(3)
    if base == 0x40000 and st.chance(3, 4):
        if st.chance(1, 6):
            ovs.append({"kind": "slot", "start": 0x40000, "size": 0x10000, "name": "memory_card_slot"})
        else:
            ovs.append({"kind": "card", "start": 0x40000, "size": st.choice(CARD_SIZES), "name": "memory_card", "k": 1 + st.below(200)})
    else:
        ovs.append({"kind": st.choice(("ram", "ram", "rom")), "start": base + st.below(0x800), "size": st.choice(SIZES[2:]),
                    "name": names.pop(0), "k": 1 + st.below(200)})
    attempts = 0
    while len(ovs) < n_ov:
        p = st.choice(ovs)
        ps, pe = p["start"], p["start"] + p["size"] - 1
        rel = st.choice(RELATIONS)
        if rel == "tail":
            start = ps + 1 + st.below(max(1, p["size"] - 1))
            size = (pe - start + 1) + 1 + st.below(0x1800)
        elif rel == "head":
            start = ps - (1 + st.below(0x800))
            size = (ps - start) + 1 + st.below(max(1, p["size"] - 1))
        elif rel == "nested":
            start = ps + st.below(max(1, p["size"] // 2))
            size = 1 + st.below(max(1, pe - start))
        elif rel == "cover":
            start = ps - (1 + st.below(0x400))
            size = (pe - start + 1) + 1 + st.below(0x400)
        elif rel == "same-start":
            start = ps
            size = max(1, p["size"] + st.choice((-0x20, -1, 1, 0x20, 0x400)))
        elif rel == "same-range":
            start, size = ps, p["size"]
        elif rel == "adjacent":
            start, size = pe + 1, st.choice(SIZES)
        else:
            start, size = pe + 1 + 0x100 + st.below(0x1000), st.choice(SIZES)
        size = max(1, min(size, 0x10000))
        attempts += 1
        if attempts > 40:
            break
        if start < 0x1000 or start + size > 0xBF000:
            continue
        rels.append(rel)
        ovs.append({"kind": st.choice(("ram", "ram", "rom")), "start": start, "size": size, "name": names.pop(0), "k": 1 + st.below(200)})
    # configuration order is generated; sometimes an overlay is removed and added again (possibly elsewhere)
    order = list(range(len(ovs)))
    for i in range(len(order) - 1, 0, -1):
        j = st.below(i + 1)
        order[i], order[j] = order[j], order[i]

    def op_of(o: Dict[str, Any]) -> List[Any]:
        if o["kind"] == "ram":
            return ["ram", o["start"], o["size"], o["name"]]
        if o["kind"] == "rom":
            return ["rom", o["start"], o["size"], o["k"], o["name"], []]
        if o["kind"] == "card":
            return ["card", o["size"], o["k"], []]
        return ["slot", False]

    ops: List[List[Any]] = [op_of(ovs[i]) for i in order]
    if st.chance(1, 4):
        o = st.choice(ovs)
        if o["kind"] in ("ram", "rom"):
            ops.append(["remove", o["name"]])
            if st.chance(3, 4):
                ops.append(op_of(o))
            rels.append("re-added")
    rng = _ranges(ops)
    # points of interest
    bounds = sorted({b for (s, e, _k) in rng.values() for b in (s, e + 1)})
    poi: List[int] = []
    for b in bounds:
        poi += [b - 3, b - 2, b - 1, b, b + 1]
    for lo, hi in zip(bounds, bounds[1:]):
        if hi - lo > 8:
            for _ in range(3):
                poi.append(lo + 4 + st.below(hi - lo - 8))
    lo_all, hi_all = (bounds[0], bounds[-1]) if bounds else (base, base + 0x100)
    poi += [lo_all - 0x40, hi_all + 0x40]
    poi = sorted({a for a in poi if 0x1000 <= a < 0xBF000})
    # code placement first: plain external memory, or inside a writable overlay region (instruction fetch then goes
    # through the map too).  CODE_RESERVE bytes (+ margins) are kept free of generated data accesses so that the
    # program never modifies itself: every executed instruction is one of the templates below.
    pc = CODE_PLAIN
    place = "plain"
    if st.chance(2, 5):
        cands = []
        for lo, hi in zip(bounds, bounds[1:]):
            if hi - lo >= CODE_RESERVE + 2 * CODE_MARGIN + 0x10:
                cov0 = _covering(rng, lo)
                if cov0 and rng[cov0[0]][2] in ("ram", "card"):
                    cands.append((lo, hi, cov0))
        if cands:
            lo, hi, cov0 = st.choice(cands)
            pc = lo + CODE_MARGIN + st.below(hi - lo - CODE_RESERVE - 2 * CODE_MARGIN)
            place = "overlay:" + rng[cov0[0]][2] + (":overlap" if len(cov0) > 1 else "")
            poi = [a for a in poi if not (pc - CODE_MARGIN <= a < pc + CODE_RESERVE + CODE_MARGIN)]
    multi = [a for a in poi if len(_covering(rng, a)) >= 2]
    single = [a for a in poi if len(_covering(rng, a)) == 1]
    none = [a for a in poi if not _covering(rng, a)]

    used: List[int] = []

    def addr() -> int:
        # a third of the accesses revisit an address the program has already used (load - store - load on one location)
        if used and st.chance(1, 3):
            return st.choice(used[-4:])
        r = st.below(100)
        pool = multi if (r < 45 and multi) else (single if (r < 85 and single) else (none or poi))
        a = st.choice(pool)
        used.append(a)
        return a

    def imn() -> int:
        return 0x10 + st.below(0x70)

    prog: List[List[Any]] = []
    n_ins = 8 + st.below(13)
    while len(prog) < n_ins:
        r = st.below(100)
        if r < 34:
            prog.append(["LDABS", st.choice((0x88, 0x88, 0x89, 0x8A, 0x8A, 0x8B)), addr()])
        elif r < 50:
            mode = st.choice((0x00, 0x00, 0x20, 0x20, 0x30, 0x80, 0xC0))
            prog.append(["LDPTR", st.choice((0x90, 0x90, 0x91, 0x92)), mode, st.choice((4, 5)), st.below(6)])
        elif r < 60:
            prog.append(["MVMABS", st.choice((0xD0, 0xD1, 0xD2)), imn(), addr()])
        elif r < 67:
            prog.append(["MVI", 1 + st.below(8)])
            prog.append(["MVMABS", 0xD3, imn(), addr()])
        elif r < 74:
            prog.append(["MVI", 1 + st.below(8)])
            prog.append(["MVMPTR", 0xE3, st.choice((0x20, 0x20, 0x30)), st.choice((4, 5)), imn()])
        elif r < 80:
            prog.append(["STABS", st.choice((0xA8, 0xAA)), addr()])
        elif r < 84:
            prog.append(["STPTR", st.choice((0xB0, 0xB2)), st.choice((0x00, 0x20, 0x80)), st.choice((4, 5)), st.below(4)])
        elif r < 87:
            prog.append(["MVABSM", st.choice((0xD8, 0xD9)), addr(), imn()])
        elif r < 94:
            prog.append([st.choice(("MVX", "MVY")), addr()])
        else:
            prog.append(["LOGA", imn()])
    code = b"".join(enc(i) for i in prog)
    if len(code) > CODE_RESERVE:
        raise HarnessError("C07 machine-history: program longer than the reserved code area")
    x0, y0 = addr(), addr()
    pokes: List[List[Any]] = []
    for a in poi:
        if st.chance(2, 3):
            pokes.append([a - 2, bytes(((a + i) * 7 + 0x31 + i * 13) & 0xFF for i in range(6)).hex()])
    case: Dict[str, Any] = {
        "kind": "machine-history", "map": ops, "relations": rels, "place": place, "prog": prog,
        "fill": [[max(0, lo_all - 0x200), min(0xBF000, hi_all + 0x200) - max(0, lo_all - 0x200), 201 + st.below(50)]],
        "poke": pokes, "pc": pc, "x": x0, "y": y0, "ba": st.word(), "i": 1 + st.below(6), "f": st.below(4),
        "imfill": st.below(256),
    }
    return case


def mem_request(c: Dict[str, Any]) -> Dict[str, Any]:
    code = b"".join(enc(i) for i in c["prog"])
    total = len(c["prog"])
    pokes = [list(p) for p in c["poke"]]
    rom: List[List[Any]] = []
    if c["pc"] == CODE_PLAIN:
        rom.append([c["pc"], code.hex()])
    else:
        pokes.append([c["pc"], code.hex()])
    points = c.get("points")
    if points is None:
        points = list(range(0, total))
    return {
        "rom": rom, "rom_base": R.ROM_BASE, "rom_size": R.ROM_SIZE, "pc": c["pc"], "s": R.STACK_TOP, "u": R.USTACK_TOP,
        "ba": c["ba"], "i": c["i"], "x": c["x"], "y": c["y"], "f": c["f"], "imr0": 0, "isr0": 0, "mti": 0, "sti": 0,
        "strobe": True, "imem": [[0, bytes(((i * 37) ^ (c["imfill"] * 11) ^ 0x5A) & 0xFF for i in range(0xEC)).hex()]],
        "fill": c["fill"], "map": c["map"], "poke": pokes, "steps": total, "points": points,
    }


def _mem_labels(c: Dict[str, Any], ref: List[Dict[str, Any]]) -> Tuple[bool, List[str]]:
    rng = _ranges(c["map"])
    labels = ["kind:machine-history", "mem-place:" + c["place"].split(":overlap")[0], f"mem-overlays:{len(rng)}"]
    labels += sorted({"mem-rel:" + r for r in c["relations"]})
    labels += sorted({"mem-ov:" + k for (_s, _e, k) in rng.values()})
    reads = [(int(a), str(n)) for o in ref for a, n in o.get("rd", [])]
    multi_read = False
    hazard = False
    prev: Optional[str] = None
    for a, n in reads:
        cov = _covering(rng, a)
        if len(cov) >= 2:
            multi_read = True
            if prev is not None and prev != n and prev in cov:
                hazard = True
        prev = n
    if reads:
        labels.append("mem:overlay-read")
    if multi_read:
        labels.append("mem:read-inside-overlap")
    if hazard:
        labels.append("mem:overlap-read-after-read-of-other-covering-overlay")
    return multi_read, labels


_CLASS = {"pc": "registers", "s": "registers", "f": "registers", "ba": "registers", "i": "registers", "x": "registers",
          "y": "registers", "u": "registers", "pw": "power", "imr": "IMR/ISR", "isr": "IMR/ISR", "im": "memory", "stk": "memory",
          "ustk": "memory"}


def _classes(fields: List[str]) -> str:
    """Coarse, value-free symptom: which kinds of architectural state differ."""
    return "+".join(sorted({_CLASS.get(f, "memory") for f in fields}))


def check_mem_cases(cases: List[Dict[str, Any]]) -> List[Tuple[Dict[str, Any], List[Violation], bool, List[str]]]:
    resp = rsclient.shared().call({"cmd": "machine.c07_mem", "cases": [mem_request(c) for c in cases]}, retry=True)
    if not resp.get("ok"):
        raise HarnessError(f"machine.c07_mem failed: {str(resp)[:300]}")
    out = []
    where = "rs-machine: CoreRuntime under a generated overlay map"
    for c, res in zip(cases, resp["results"]):
        if res.get("err"):
            raise HarnessError(f"machine.c07_mem setup failed: {res['err']}")
        ref = res["ref"]
        # The program is straight-line template code: PC after step k is known statically.  Steps are judged up to
        # and including the first one after which the reference is no longer on that line (it then executes bytes
        # the generator did not choose, which may touch devices whose state is not part of the transfer).
        pcs = []
        a = c["pc"]
        for ins in c["prog"]:
            a += len(enc(ins))
            pcs.append(a & 0xFFFFF)
        on_line = len(ref)
        for k, o in enumerate(ref):
            if o.get("pc") != pcs[k]:
                on_line = k + 1
                break
        straight = on_line == len(ref) == len(pcs) and res.get("ref_err") is None
        vs: List[Violation] = []
        for run in res["runs"]:
            n = int(run["n"])
            if n >= on_line:
                continue
            bad: Optional[Tuple[str, str]] = None
            for j, o in enumerate(run["obs"]):
                if n + j >= on_line:
                    break
                if n + j >= len(ref):
                    bad = ("raises no error where the machine with history does",
                           f"reference stopped with {res.get('ref_err')} at step {len(ref)}, fresh machine went on")
                    break
                d = [k for k in MEM_FIELDS if o.get(k) != ref[n + j].get(k)]
                if d:
                    bad = ("differs: " + _classes(d), f"step {n + j} ({c['prog'][n + j]}): " +
                           "; ".join(f"{k} history={ref[n + j].get(k)} fresh={o.get(k)}" for k in d[:4]))
                    break
            if bad is None and len(run["obs"]) < min(on_line, len(ref)) - n:
                bad = ("raises an error where the machine with history does not", f"fresh err={run.get('err')!r}")
            if bad is None and straight:
                if run.get("err") is not None:
                    bad = ("raises an error where the machine with history does not", f"fresh err={run.get('err')!r}")
                else:
                    ea, eb = res["ref_end"], run["end"]
                    d = []
                    if ea["ext"] != eb["ext"]:
                        d.append("mem[external]")
                    if ea["im"] != eb["im"]:
                        d.append("mem[imem]")
                    if any(ea["ov"].get(nm) != eb["ov"].get(nm) for nm in sorted(set(ea["ov"]) | set(eb["ov"]))):
                        d.append("mem[overlay]")
                    if d:
                        bad = ("differs: memory", "final memory contents differ: " + ",".join(d))
            if bad:
                vs.append(Violation("machine-history", where,
                                    "fresh machine given the same registers, flags and memory " + bad[0],
                                    dict(c, points=[n]), f"state transferred before step {n}: {bad[1]}"))
                break
        nt, labels = _mem_labels(c, ref)
        if not straight:
            labels.append("mem:left-the-generated-program")
        out.append((c, vs, nt and len(res["runs"]) >= 2, labels))
    return out


# --------------------------------------------------------------------------------------------------
# converging-histories

ROUTE_BASE = 0xC1000
ROUTE_STRIDE = 0x100
U_WIN = 16
TAIL_STEPS = 30
CAP = 400
MTI_PERIODS = (0, 3, 7, 11, 16, 24, 24, 31, 40, 64)
STI_PERIODS = (0, 5, 13, 25, 50, 50, 60, 90)
JOIN_IGNORED = ("bk", "src")      # host-side bookkeeping, reported but never compared
TAIL_FIELDS = ("pc", "s", "f", "ba", "i", "x", "y", "u", "imr", "isr", "pw", "stk", "im", "ustk")


def _cost(slot: List[Any]) -> Tuple[int, int]:
    """(instructions, cycles) of a route slot."""
    if slot[0] == "WAIT":
        return 2, 2 + int(slot[1])
    return 1, 1


def _slot_bytes(slot: List[Any]) -> bytes:
    if slot[0] == "WAIT":
        return enc(["MVI", slot[1]]) + enc(["WAITI"])
    return enc(slot)


def gen_conv_case(st: Stream) -> Dict[str, Any]:
    both = st.chance(3, 5)
    mti = st.choice(MTI_PERIODS[1:]) if both or st.chance(2, 3) else 0
    sti = st.choice(STI_PERIODS[1:]) if both or mti == 0 or st.chance(1, 3) else 0
    mode = "natural" if st.chance(3, 10) else "normalised"
    n_routes = 2 + st.below(3)
    v_final = st.choice((0x03, 0x03, 0x03, 0x01, 0x02, 0x05, 0x06, 0x09, 0x0A, 0x0C, 0x0F, 0x07, 0x0B, st.below(16)))
    imr_join = st.choice((0x00, 0x00, 0x03, 0x0F, 0x01, 0x02, 0x0C)) if st.chance(1, 2) else None
    routes: List[Dict[str, Any]] = []
    if mode == "natural":
        # base route: the timers post the requests; variants acknowledge and re-post a guessed value near the end
        n = 1 + st.below(3)
        base_slots: List[List[Any]] = []
        for _ in range(n):
            base_slots.append(["WAIT", 8 + st.below(70)] if st.chance(3, 4) else ["NOP"])
        for r in range(n_routes):
            if r == 0:
                slots = [list(s) for s in base_slots] + [["NOP"], ["NOP"]]
                style = "timers"
            else:
                guess = st.choice((0x03, 0x03, 0x01, 0x02))
                pair = st.choice(([["ISR", 0], ["ISR", guess]], [["ACK", 0xFC], ["ORISR", guess]], [["ISR", guess], ["NOP"]],
                                  [["ISR", 0], ["ORISR", guess]]))
                slots = [list(s) for s in base_slots] + [list(p) for p in pair]
                style = "repost"
            routes.append({"slots": slots, "events": [], "style": style})
        norm: List[List[Any]] = []
    else:
        for r in range(n_routes):
            style = "timers" if r == 0 else st.choice(("rewrite", "rewrite", "ack", "onkey", "mixed", "timers"))
            slots = []
            events: List[List[Any]] = []
            for _ in range(1 + st.below(5)):
                q = st.below(100)
                if style == "timers":
                    slots.append(["WAIT", 4 + st.below(70)] if q < 60 else ["NOP"])
                elif style == "rewrite":
                    slots.append(["WAIT", 4 + st.below(60)] if q < 35 else (["ISR", 0] if q < 65 else (["ISR", st.below(16)] if q < 85 else ["NOP"])))
                elif style == "ack":
                    slots.append(["WAIT", 4 + st.below(60)] if q < 35 else (["ACK", 0xFF ^ (1 << st.below(4))] if q < 65 else
                                                                            (["ORISR", 1 << st.below(4)] if q < 85 else ["ACK", 0xF0])))
                elif style == "onkey":
                    slots.append(["WAIT", 4 + st.below(40)] if q < 40 else ["NOP"])
                else:
                    slots.append(st.choice((["NOP"], ["WAIT", 1 + st.below(50)], ["ISR", 0], ["ISR", st.below(16)], ["ACK", 0xFF ^ (1 << st.below(4))],
                                            ["ORISR", 1 << st.below(4)], ["IMR", st.below(16)], ["INCA"], ["INCM", R.SCRATCH], ["KIL"])))
            if style == "rewrite" and not any(s == ["ISR", 0] for s in slots):
                slots.insert(st.below(len(slots) + 1), ["ISR", 0])
            late = st.choice((["ISR", 0], ["ISR", 0], ["ACK", 0xF0], ["ACK", 0x00])) if style != "timers" and st.chance(1, 2) else None
            routes.append({"slots": slots, "events": events, "style": style, "late_ack": late})
        norm = [["ISR", v_final]]
    if imr_join is not None:
        norm.append(["IMR", imr_join])
    norm += [["MVI", 1 + st.below(9)], ["MVA", st.byte()], ["ADDA", st.choice((0, 1, 0x80, 0xFF, st.byte()))]]
    if st.chance(1, 2):
        norm.append(["NOP"])
    # equalise instruction and cycle counts with one WAIT + NOPs per route
    costs = []
    for rt in routes:
        extra = 1 if rt.get("late_ack") is not None else 0
        n = sum(_cost(s)[0] for s in rt["slots"]) + extra
        c = sum(_cost(s)[1] for s in rt["slots"]) + extra
        costs.append((n, c))
    N = max(n for n, _c in costs) + 2
    D = max(c - n for n, c in costs) + 1 + st.below(6)
    for rt, (n, c) in zip(routes, costs):
        dn = N - n
        k = D - (c - n)          # extra idle cycles this route still has to burn
        pad: List[List[Any]] = [["WAIT", k]] + [["NOP"]] * (dn - 2)
        pos = st.below(len(rt["slots"]) + 1) if rt["style"] != "repost" and mode != "natural" else 0
        rt["slots"] = rt["slots"][:pos] + pad + rt["slots"][pos:]
        if mode == "normalised" and rt["style"] != "timers" and rt.get("late_ack") is not None:
            # the route acknowledges everything right before the common suffix re-posts the requests
            rt["slots"].append(rt["late_ack"])
        if rt["style"] == "onkey" or (rt["style"] == "mixed" and st.chance(1, 3)):
            total_steps = sum(_cost(s)[0] for s in rt["slots"])
            a = st.below(max(1, total_steps - 1))
            b = a + 1 + st.below(max(1, total_steps - a))
            rt["events"] = [[a, "on_down", None], [b, "on_up", None]]
        rt["slots"] = rt["slots"] + [list(s) for s in norm]
    # tail: main loop that unmasks, handler
    main: List[List[Any]] = []
    irm = 0x80 | st.choice((0x0F, 0x0F, 0x03, 0x03, 0x0C, 0x05, 0x0A, st.below(16)))
    pre = st.below(3)
    for _ in range(pre):
        main.append(st.choice((["NOP"], ["INCA"], ["NOP"], ["HALT"])))
    main.append(["IMR", irm])
    for _ in range(1 + st.below(5)):
        q = st.below(100)
        main.append(["NOP"] if q < 55 else (["INCA"] if q < 70 else (["HALT"] if q < 78 else (["WAIT", 1 + st.below(10)] if q < 86 else
                    (["IMR", 0x80 | st.below(16)] if q < 94 else ["INCM", R.SCRATCH])))))
    handler: List[List[Any]] = []
    for _ in range(st.below(4)):
        q = st.below(100)
        handler.append(["LDISR"] if q < 30 else (["PUSHUA"] if q < 45 else (["NOP"] if q < 60 else (["INCM", R.SCRATCH] if q < 72 else
                       (["ACK", 0xFF ^ (1 << st.below(4))] if q < 84 else (["ORIMR", 0x80] if q < 90 else ["ISR", 0]))))))
    return {
        "kind": "converging-histories", "mode": mode, "mti": mti, "sti": sti, "routes": routes, "main": main, "handler": handler,
        "imr0": st.choice((0x00, 0x00, 0x0F, 0x03)), "isr0": 0 if st.chance(3, 4) else st.below(16), "f0": st.below(4),
        "ba0": st.word(), "i0": 1 + st.below(20), "kbirq": None if st.chance(3, 4) else st.chance(1, 2), "imfill": st.below(256),
    }


def conv_request(c: Dict[str, Any]) -> Dict[str, Any]:
    segs: List[List[Any]] = []
    body = b"".join(_slot_bytes(s) for s in c["main"])
    dist = len(body) + 2
    if dist > 0xFF:
        raise HarnessError("C07 converging-histories: main loop too long")
    segs.append([R.MAIN, (body + enc(["JRB", dist])).hex()])
    segs.append([R.HANDLER, (b"".join(_slot_bytes(s) for s in c["handler"]) + enc(["RETI"])).hex()])
    routes = []
    for r, rt in enumerate(c["routes"]):
        code = b"".join(_slot_bytes(s) for s in rt["slots"]) + enc(["JP", R.MAIN & 0xFFFF])
        if len(code) > ROUTE_STRIDE:
            raise HarnessError("C07 converging-histories: route too long")
        entry = ROUTE_BASE + r * ROUTE_STRIDE
        segs.append([entry, code.hex()])
        routes.append({"pc": entry, "events": rt["events"]})
    segs.append([R.IRQ_VECTOR_ADDR, bytes([R.HANDLER & 0xFF, (R.HANDLER >> 8) & 0xFF, (R.HANDLER >> 16) & 0xFF]).hex()])
    segs.append([R.RESET_VECTOR_ADDR, bytes([R.MAIN & 0xFF, (R.MAIN >> 8) & 0xFF, (R.MAIN >> 16) & 0xFF]).hex()])
    base: Dict[str, Any] = {
        "rom": segs, "rom_base": R.ROM_BASE, "rom_size": R.ROM_SIZE, "pc": R.MAIN, "s": R.STACK_TOP, "u": R.USTACK_TOP,
        "ba": c["ba0"], "i": c["i0"], "x": 0x0B8100, "y": 0x0B8200, "f": c["f0"], "imr0": c["imr0"] & 0x7F, "isr0": c["isr0"],
        "mti": c["mti"], "sti": c["sti"], "strobe": True,
        "imem": [[0, bytes(((i * 37) ^ (c["imfill"] * 11) ^ 0x5A) & 0xFF for i in range(0xEC)).hex()]],
        "im_lo": R.IM_LO, "im_hi": R.IM_HI, "win_lo": R.STACK_TOP - R.STACK_WINDOW, "win_hi": R.STACK_TOP,
    }
    if c.get("kbirq") is not None:
        base["kbirq"] = bool(c["kbirq"])
    return {"base": base, "routes": routes, "join_pc": R.MAIN, "cap": CAP, "tail": TAIL_STEPS,
            "u_lo": R.USTACK_TOP - U_WIN, "u_hi": R.USTACK_TOP}


def _on_level(events: List[List[Any]], steps: int) -> bool:
    lvl = False
    for k, kind, _a in sorted(events, key=lambda e: e[0]):
        if k < steps:
            lvl = {"on_down": True, "on_up": False}.get(kind, lvl)
    return lvl


def check_conv_cases(cases: List[Dict[str, Any]]) -> List[Tuple[Dict[str, Any], List[Violation], bool, List[str]]]:
    resp = rsclient.shared().call({"cmd": "machine.c07_conv", "cases": [conv_request(c) for c in cases]}, retry=True)
    if not resp.get("ok"):
        raise HarnessError(f"machine.c07_conv failed: {str(resp)[:300]}")
    out = []
    where = "rs-machine: continuation from identical registers, flags, memory and timer deadlines"
    for c, res in zip(cases, resp["results"]):
        if res.get("err"):
            raise HarnessError(f"machine.c07_conv setup failed: {res['err']}")
        labels = ["kind:converging-histories", "conv-mode:" + c["mode"]]
        groups: Dict[str, List[int]] = {}
        for idx, (rt, rr) in enumerate(zip(c["routes"], res["routes"])):
            j = rr.get("join")
            if j is None:
                labels.append("conv:route-did-not-reach-join")
                continue
            key = jhash([{k: v for k, v in j.items() if k not in JOIN_IGNORED}, _on_level(rt["events"], int(rr["steps"]))], 16)
            groups.setdefault(key, []).append(idx)
        vs: List[Violation] = []
        nt = False
        best = max((len(g) for g in groups.values()), default=0)
        labels.append(f"conv:converged-routes:{best if best >= 2 else 0}")
        for g in groups.values():
            if len(g) < 2:
                continue
            a = res["routes"][g[0]]
            ja = a["join"]
            for other in g[1:]:
                b = res["routes"][other]
                jb = b["join"]
                bk_diff = sorted(k for k in ja["bk"] if ja["bk"][k] != jb["bk"].get(k))
                if bk_diff:
                    labels.append("conv:bookkeeping-differs")
                    for k in bk_diff:
                        labels.append("conv:bk-differs:" + k)
                pend_bits = bin(int(ja["isr"]) & 0x0F).count("1")
                labels.append(f"conv:pending-requests-at-join:{min(pend_bits, 2)}{'+' if pend_bits >= 2 else ''}")
                deliveries = (int(a["tail"][-1]["irq"]) - int(ja["irq"])) if a["tail"] else 0
                labels.append(f"conv:deliveries-in-tail:{min(deliveries, 3)}")
                if bk_diff and deliveries >= 1:
                    nt = True
                    if pend_bits >= 2 and "irq_source" in bk_diff:
                        labels.append("conv:two-pending-and-different-latched-source")
                bad: Optional[Tuple[str, str]] = None
                for j, (oa, ob) in enumerate(zip(a["tail"], b["tail"])):
                    d = [k for k in TAIL_FIELDS if oa.get(k) != ob.get(k)]
                    if d:
                        bad = ("differs: " + _classes(d),
                               f"{j + 1} step(s) after the join point: " + "; ".join(f"{k} route{g[0]}={oa.get(k)} route{other}={ob.get(k)}" for k in d[:4]) +
                               f"; bookkeeping at join: route{g[0]}={ja['bk']} route{other}={jb['bk']}")
                        break
                if bad is None and ((a.get("err") is None) != (b.get("err") is None) or len(a["tail"]) != len(b["tail"])):
                    bad = ("exception-asymmetry", f"route{g[0]} err={a.get('err')!r} route{other} err={b.get('err')!r}")
                if bad:
                    vs.append(Violation("converging-histories", where, "two histories that reached the same state " + bad[0],
                                        dict(c, focus=[g[0], other]), bad[1]))
                    break
            if vs:
                break
        out.append((c, vs, nt, sorted(set(labels))))
    return out


# --------------------------------------------------------------------------------------------------


def run_shard(seed: int, shard: int, n_mem: int, n_conv: int) -> Report:
    rep = Report()
    B = 24
    mem_cases = [gen_mem_case(Stream(seed, 0xC07B, shard, i)) for i in range(n_mem)]
    for i in range(0, len(mem_cases), B):
        for c, vs, nt, labels in check_mem_cases(mem_cases[i:i + B]):
            for v in vs:
                rep.violate(v)
            rep.case("mh:" + jhash([c["map"], c["prog"], c["pc"]]) if nt else None, labels,
                     {"kind": c["kind"], "map": c["map"], "prog": c["prog"][:6], "pc": c["pc"]} if rep.evaluations % 97 == 5 else None)
    conv_cases = [gen_conv_case(Stream(seed, 0xC07C, shard, i)) for i in range(n_conv)]
    for i in range(0, len(conv_cases), B):
        for c, vs, nt, labels in check_conv_cases(conv_cases[i:i + B]):
            for v in vs:
                rep.violate(v)
            rep.case("ch:" + jhash([c["routes"], c["main"], c["handler"], c["mti"], c["sti"]]) if nt else None, labels,
                     {"kind": c["kind"], "mti": c["mti"], "sti": c["sti"], "routes": [r["slots"] for r in c["routes"]][:2],
                      "main": c["main"], "handler": c["handler"]} if rep.evaluations % 97 == 7 else None)
    return rep


def replay_case(case: Dict[str, Any]) -> List[Violation]:
    if case.get("kind") == "machine-history":
        return [v for _c, vs, _nt, _l in check_mem_cases([case]) for v in vs]
    return [v for _c, vs, _nt, _l in check_conv_cases([case]) for v in vs]


def shrink(v: Violation) -> Violation:
    """Smaller witness with the same fingerprint (bounded: <= ~25 replays of one case)."""
    key = v.key()
    case = v.case

    def same(cand: Dict[str, Any]) -> Optional[Violation]:
        try:
            for w in replay_case(cand):
                if w.key() == key:
                    return w
        except Exception:
            return None
        return None

    if case.get("kind") == "machine-history":
        n = int((case.get("points") or [0])[0])
        for length in range(n + 1, len(case["prog"])):
            w = same(dict(case, prog=case["prog"][:length]))
            if w is not None:
                return w
        return v
    f = case.get("focus") or [0, 1]
    if len(case["routes"]) > 2:
        w = same(dict(case, routes=[case["routes"][f[0]], case["routes"][f[1]]], focus=[0, 1]))
        if w is not None:
            return w
    return v
