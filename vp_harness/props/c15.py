"""C15 -- LCD controllers follow the HD61202 protocol; VRAM -> pixel map is one-to-one.

Part A (histories): generated sequences of reads/writes over both LCD windows (all 16 low-nibble decodings,
all byte values, column wrap-around, read-modify-write, busy polling) are executed on
  * pce500.display.controller_wrapper.HD61202Controller  (read / write / get_snapshot)
  * sc62015_core::lcd::LcdController                     (read / write / export_snapshot, via rust/harness c15.rs)
  * the reference model vp_harness/c15_model.py (written from pce500/README.md + the datasheet comments)
and after EVERY step each implementation's per-chip (on, start line, page, column, VRAM) and the value returned
by the read must equal the model's.  At steps whose direction contradicts the address (write to an A0=1
address, read from an A0=0 address) the documentation is silent / the maintainers' tests contradict each other,
so only "Python == Rust" (which the statement demands) is asserted there.

Long-range dimensions: bulk verbs ["W", addr, v0, step, n] / ["R", addr, n] give single stretches of 65..196608
accesses (several wraps of the column counter in one data run; boundary-weighted numbers of writes between two
status polls).  The way the accesses reach the implementation is a generated dimension as well: Python writes go
through HD61202Controller.write, LCDPipeline.apply_raw / apply, or LCDPipeline.replay of groups of consecutive
writes (the controller's own pipeline, or a second pipeline over the same chips without / with a late observer);
Rust through a LcdController value or the Box<dyn LcdHal> of create_lcd().  After each clean history its write-only
projection is additionally replayed from power-on through replay_operations() and a fresh LCDPipeline().replay().

Machine-level access paths (round 4): in 1/4 of the histories the Python side is a controller behind the machine's
memory bus -- PCE500Memory.set_lcd_controller + write_byte/read_byte, PCE500Emulator().memory, or the emulator's CPU
executing `MV [abs20],A` / `MV A,[abs20]` -- and, independently, in 1/4 the Rust side is a whole CoreRuntime stepping
the same two instructions (CPU -> RuntimeBus -> LcdHal).  The contents of the flat memory image underneath the two
LCD windows are a generated dimension (zeros / constant fill incl. status look-alikes / hash pattern): what the CPU
reads from a port that a chip drives must be the protocol's byte whatever lies underneath (0x00 included); where no
chip drives the bus (write addresses, CS both/none) the byte is memory routing and is not judged.

Part B (pixel map, complete enumeration): for every chip x page x column x bit (8192 VRAM bits) the bit is
flipped by a data write and the 32x240 display buffer is diffed: every VRAM bit changes at most one pixel,
every one of the 7680 pixels is changed by exactly one VRAM bit, a multi-bit data write changes at most eight
pixels in one display column (and exactly the pixels of its flipped bits), and the map is the documented
layout (docstrings + maintainers' tests).
"""

from __future__ import annotations

import time
from typing import Any, Dict, List, Optional, Sequence, Tuple

from ..core import Ctx, HarnessError, Report, Violation, mix32, jhash
from ..gen_state import Stream
from .. import rsclient
from .. import c15_model as M
from .. import c15_gen as GEN

PROPERTY = "C15"
RULE = ("(A) histories of 40-320 ops (LCD-window accesses) from a deterministic stream: instruction writes (on/off, set Y, "
        "set page, start line incl. don't-care bits), data writes, status/data reads, page fills of 65-200 bytes "
        "(column wrap-around), read sweeps, read-modify-write, busy polling, chip interleaving, CS none/both, window "
        "base 0x2000/0xA000 with arbitrary bits 4-11; bulk verbs: single data runs / read sweeps of 65-575 accesses "
        "(several column wraps) and un-polled write stretches whose length between two status polls of a chip is "
        "exactly 2^k-1, 2^k or 2^k+1 (k = 4..10 everywhere, 11..13 in 1/6 of the histories, one forced stretch of "
        "2^15..3*2^16 writes per shard); 1/3 of the histories additionally use raw accesses over all 16 "
        "low-nibble decodings in both directions; per history a generated feeding path (Python: controller.write, "
        "pipeline.apply_raw/apply, pipeline.replay of write groups with/without/late observer; Rust: LcdController "
        "value or Box<dyn LcdHal>); machine-level paths: in 1/4 of the histories Python writes AND reads go through "
        "PCE500Memory.set_lcd_controller + write_byte/read_byte, PCE500Emulator().memory or PCE500Emulator.step() of "
        "MV [abs20],A / MV A,[abs20] (<= 2500 accesses), in 1/4 (independently) Rust runs a CoreRuntime stepping the same "
        "instructions, with generated contents (zeros 1/8, constant fill 3/8, hash pattern 1/2) of the memory image "
        "underneath both LCD windows; 1/6 of the Python machine histories present low-window addresses 0x2010-0x2FFF "
        "unfolded; every step (Python: every write group) compared model/Python/Rust; the write-only "
        "projection of every clean history is replayed from power-on through replay_operations() and a fresh "
        "LCDPipeline().replay(); bystander operations (round 5): 1/3 of the histories carry 1-4 (+ a `write; bystander; "
        "poll; poll` sandwich per chip in half of them) operations on the live LCD that are NOT window accesses, half of "
        "them placed directly behind a write -- public observers (get_snapshot/export_snapshot, get_display_buffer/"
        "display_buffer, statistics accessors, PCE500Emulator.save_snapshot / CoreRuntime::save_snapshot of the whole "
        "machine) and load_snapshot of a foreign snapshot with one generated defect (payload size 0..2100 != 1024 with "
        "well-formed geometry, wrong pages/width, wrong chip_count, missing header field) that the implementation itself "
        "refuses -- after which registers, VRAM and busy must still be those of the access history (a bystander is "
        "non-trivial when a chip is BUSY / holds non-power-on state at that moment). Non-trivial = on BOTH chips "
        "the column counter wrapped 63->0 or a data read followed a set-Y; distinct = hash of the op list + path options. "
        "(B) complete enumeration of the 8192 VRAM bits per (model, base VRAM pattern, start lines) configuration, "
        "plus two multi-bit data writes per VRAM byte; non-trivial = the probe changed at least one pixel.")

REG_NAMES = ("on", "start_line", "page", "y_address")
Obs = Tuple[Any, List[Tuple[Any, Any, Any, Any]], bytes]  # (read result [run: (last, answered, digest)], regs x2, vram 1024)

ASSUMPTIONS = [
    "controller objects are driven directly (HD61202Controller.read/write, LcdController::read/write) or, on the "
    "machine paths, through the machine's bus (PCE500Memory / PCE500Emulator / CoreRuntime::step); on the machine paths "
    "the byte read at an address where no chip drives the bus (A0=0, CS=both, CS=none: the model returns nothing) is "
    "memory routing (C11's subject; Python shows external_memory, Rust shows its image incl. the LCD writes it stores "
    "there) and is not compared -- the chips' state after such an access still is",
    "machine paths: the memory image underneath the LCD windows is laid down as PCE500Emulator.load_snapshot does "
    "(external_memory[...] = bytes) / with MemoryImage::write_external_slice; the two instructions are those of lib.rs' "
    "tests lcd_mapped_write_counts_as_memory_write / lcd_mapped_read_counts_as_memory_read, A is set/read through the "
    "register API, timers are disabled (the knobs the maintainers' tests use); by default low-window addresses "
    "0x2010-0x2FFF are folded onto 0x2000-0x200F for the Python machine (see known finding "
    "C15-py-machine-low-window-16-bytes for the unfolded ones)",
    "addresses stay inside 0x2000-0x2FFF / 0xA000-0xAFFF; values 0..255",
    "a write to an A0=1 (read) address or a read from an A0=0 (write) address has no documented protocol meaning "
    "(README: A0 is the chips' R/W line; Python's test_read_operation_error rejects such writes while a Rust unit test "
    "uses lcd.write(0x2003, ..) as a data write): at such steps only Python == Rust is asserted, no model verdict",
    "busy: set by every accepted instruction/data write, cleared by a status read, untouched by a data read (both "
    "models and their unit tests agree; the datasheet timing of BUSY is not modelled); Rust's busy flag is only "
    "observable through status reads",
    "statistics counters (instruction/data counts, cs_*_count), write-provenance traces and the event dictionaries "
    "LCDPipeline hands to observers are not compared",
    "LCDPipeline paths: a write whose address parse_command() rejects with ValueError (A0=1 or CS=none; the maintainers' "
    "test_chip_select_none_error / test_read_operation_error) cannot be turned into an LCDOperation and is left out of "
    "the replayed list; apply_raw() raising that ValueError counts as 'ignored' exactly as HD61202Controller.write "
    "treats it; reads always go through HD61202Controller.read of the controller that owns the chips; a second "
    "LCDPipeline(chips=controller.chips) is a legitimate use of the public constructor",
    "VRAM shape: LCDSnapshot.vram of each chip must be 8 rows of 64 byte values (the statement's vram[8][64]); "
    "anything else is reported as a VRAM violation of the step that produced it",
    "pixel map is enumerated with both chips switched on (Python blanks a chip that is off, Rust does not: the "
    "statement does not constrain display-off rendering, display buffers are not compared in that state)",
    "start line: Rust scrolls the chip rows (its unit tests), Python ignores START_LINE when rendering (its scrolling "
    "tests are skipped as 'not implemented'); bijectivity is asserted for every start line on both, the documented "
    "layout only for start line 0 (Python) / the scrolled layout of lcd.rs' own tests (Rust); 'one display column' "
    "for a data write is asserted only when the chip's start line is a multiple of 8 (otherwise a byte legitimately "
    "straddles the upper/lower half, i.e. two display columns, and only '<= 8 pixels' is asserted)",
    "Rust display-write capture (display-mapped coordinates) is compared with display_buffer() only at start line 0",
    "bystander operations: the statement makes the chips' state and every read value a function of the sequence of "
    "window reads/writes, so an operation that is not such an access (observing through the public surface, saving a "
    "machine snapshot, a snapshot restore that the implementation itself refuses with Err / an exception) must leave "
    "registers, VRAM and busy untouched; whether a restore was refused is taken from the implementation's own answer; "
    "a restore it accepts is C16's subject and ends the history unjudged (label bystander:restore-accepted)",
]


# ---------------------------------------------------------------------------------------------------------
# Drivers
# ---------------------------------------------------------------------------------------------------------

PY_VIAS = ("controller", "apply-raw", "apply", "replay-observed", "replay", "replay-late-observer",
           "bus", "emulator", "cpu")
REPLAY_VIAS = ("replay-observed", "replay", "replay-late-observer")
MACHINE_VIAS = ("bus", "emulator", "cpu")  # the controller sits behind the machine's memory bus
RS_VIAS = ("direct", "hal", "machine")
LCD_WINDOWS = (0x2000, 0xA000)  # 4 KiB each
PROG_BASE, PROG_SLOTS = 0xB8000, 0x1800  # 4-byte instruction slots in the internal RAM (cpu path; = c15.rs)
CPU_PATH_MAX = 2500  # expanded accesses a history may have on the (slow) Python cpu path
DEFAULT_BACKING = ["zeros"]


def backing_bytes(spec: Sequence[Any], base: int) -> bytes:
    """Contents of the flat backing store underneath one 4 KiB LCD window (what a memory image / snapshot holds
    there; Rust's bus stores every LCD write into it, so a snapshot taken on the Rust core is non-zero there)."""
    kind = spec[0]
    if kind == "zeros":
        return bytes(0x1000)
    if kind == "fill":
        return bytes([int(spec[1]) & 0xFF]) * 0x1000
    if kind == "hash":
        return bytes(mix32(int(spec[1]), 0xBAC, base >> 12, i) & 0xFF for i in range(256)) * 16
    raise HarnessError(f"unknown backing {spec!r}")


def unrouted_py(addr: int) -> bool:
    """Addresses of the low window outside the 16 bytes PCE500Memory.set_lcd_controller maps (0x2000-0x200F)."""
    return 0x2010 <= addr <= 0x2FFF


def _noop_observer(_event: Dict[str, Any], _snapshot: Any) -> None:
    return None


class PyLcd:
    """The Python implementation under test, observed through its public API.

    `via` selects the public path the writes take (reads always use HD61202Controller.read):
      controller            HD61202Controller.write, one call per write
      apply-raw             controller.pipeline.apply_raw(address, value)
      apply                 controller.pipeline.apply(LCDOperation(parse_command(address, value)))
      replay-observed       controller.pipeline.replay([...])     (the controller's observer is subscribed)
      replay                LCDPipeline(chips=controller.chips).replay([...])   (nobody subscribed)
      replay-late-observer  as `replay`; an observer is subscribed after `observe_at` replay calls
    Machine paths (writes AND reads go through the machine's memory bus, the controller is the one attached to it;
    `backing` = contents of external_memory underneath the two LCD windows, laid down the way load_snapshot() does;
    a read of an address at which no chip drives the bus -- M.drives_bus() -- is reported as None: the byte the bus
    returns there is memory routing, not LCD protocol):
      bus                   PCE500Memory().set_lcd_controller(HD61202Controller()); memory.write_byte / read_byte
      emulator              PCE500Emulator().memory.write_byte / read_byte, controller = emulator.lcd
      cpu                   PCE500Emulator().step() of `MV [abs20],A` / `MV A,[abs20]` (A through the register file)
    `lowwin` = "routed" folds low-window addresses 0x2010-0x2FFF onto 0x2000-0x200F (the part PCE500Memory maps),
    "full" presents them unchanged.
    """

    def __init__(self, via: str = "controller", observe_at: int = 0, backing: Sequence[Any] = DEFAULT_BACKING,
                 lowwin: str = "routed") -> None:
        from pce500.display.controller_wrapper import HD61202Controller
        from pce500.display.pipeline import LCDPipeline

        if via not in PY_VIAS:
            raise HarnessError(f"unknown python path {via!r}")
        self.mem = None
        self.emu = None
        self.lowwin = lowwin
        self.n_exec = 0
        if via == "bus":
            from pce500.memory import PCE500Memory

            self.mem = PCE500Memory()
            self.c = HD61202Controller()
            self.mem.set_lcd_controller(self.c, enable_overlay=True)
        elif via in MACHINE_VIAS:
            from pce500.emulator import PCE500Emulator
            from sc62015.pysc62015 import RegisterName

            self.RN = RegisterName
            self.emu = PCE500Emulator(trace_enabled=False, perfetto_trace=False, save_lcd_on_exit=False)
            self.emu._timer_enabled = False  # the knob the maintainers' tests use: no timer interrupts
            self.mem = self.emu.memory
            self.c = self.emu.lcd
        else:
            self.c = HD61202Controller()
        if self.mem is not None:
            for base in LCD_WINDOWS:
                self.mem.external_memory[base:base + 0x1000] = backing_bytes(backing, base)
        self.via = via
        self.observe_at = observe_at
        self.replays = 0
        self.pipe = self.c.pipeline if via in ("controller", "apply-raw", "apply", "replay-observed") + MACHINE_VIAS \
            else LCDPipeline(chips=self.c.chips)
        self.last_snapshot = None
        self.shape_problem: Optional[str] = None
        self.base = None

    def write(self, addr: int, value: int) -> None:
        self.write_group([(addr, value)])

    def write_group(self, writes: Sequence[Tuple[int, int]]) -> None:
        """Feed consecutive writes through the selected path (one replay() call for the replay paths)."""
        from pce500.display.hd61202 import parse_command
        from pce500.display.pipeline import LCDOperation

        self.last_snapshot = None
        via = self.via
        if via == "controller":
            for a, v in writes:
                self.c.write(a, v)
            return
        if via in MACHINE_VIAS:
            for a, v in writes:
                self._bus_write(self._addr(a), v)
            return
        if via == "apply-raw":
            for a, v in writes:
                try:
                    self.pipe.apply_raw(a, v)
                except ValueError:
                    pass  # parse_command rejects the address: ignored, as HD61202Controller.write does
            return
        opers = []
        for i, (a, v) in enumerate(writes):
            try:
                opers.append(LCDOperation(parse_command(a, v), pc=0xF0000 + (i & 0xFFF)))
            except ValueError:
                pass
        if via == "apply":
            for o in opers:
                self.pipe.apply(o)
            return
        if via == "replay-late-observer" and self.replays == self.observe_at:
            self.pipe.subscribe(_noop_observer)
        self.replays += 1
        self.last_snapshot = self.pipe.replay(opers)

    # -- machine paths ----------------------------------------------------------------------------------------
    def _addr(self, a: int) -> int:
        if self.lowwin == "routed" and unrouted_py(a):
            return 0x2000 | (a & 0xF)
        return a

    def _cpu_exec(self, opcode: int, a: int) -> None:
        slot = PROG_BASE + 4 * (self.n_exec % PROG_SLOTS)
        self.n_exec += 1
        for i, b in enumerate((opcode, a & 0xFF, (a >> 8) & 0xFF, (a >> 16) & 0x0F)):
            self.mem.write_byte(slot + i, b)
        self.emu.cpu.regs.set(self.RN.PC, slot)
        self.emu.step()

    def _bus_write(self, a: int, v: int) -> None:
        if self.via == "cpu":
            self.emu.cpu.regs.set(self.RN.A, v & 0xFF)
            self._cpu_exec(0xA8, a)  # MV [abs20],A
        else:
            self.mem.write_byte(a, v & 0xFF)

    def _bus_read(self, a: int) -> Any:
        if self.via == "cpu":
            self._cpu_exec(0x88, a)  # MV A,[abs20]
            return self.emu.cpu.regs.get(self.RN.A)
        return self.mem.read_byte(a)

    def _read1(self, addr: int) -> Any:
        if self.mem is None:
            return self.c.read(addr)
        got = self._bus_read(self._addr(addr))
        return got if M.drives_bus(addr) else None  # nobody drives the bus: the byte is not an LCD matter

    def read(self, addr: int) -> Optional[int]:
        self.last_snapshot = None
        return self._read1(addr)

    def read_run(self, addr: int, n: int) -> Tuple[Optional[int], int, int]:
        self.last_snapshot = None
        acc = M.RunDigest()
        for _ in range(n):
            acc.add(self._read1(addr))
        return acc.result()

    def observe(self, ret: Any) -> Obs:
        # replay() returns the snapshot itself; every other path is observed with get_snapshot()/pipeline.snapshot
        snap = self.last_snapshot if self.last_snapshot is not None else (
            self.c.get_snapshot() if self.pipe is self.c.pipeline else self.pipe.snapshot)
        regs, vram, self.shape_problem = snapshot_obs(snap)
        return ret, regs, vram

    def busy(self) -> List[bool]:
        return [bool(ch.state.busy) for ch in self.c.chips]

    def bystander(self, op: Sequence[Any]) -> str:
        """An operation on the live LCD that is not an access to the LCD windows (round 5).
        ["S", what]: a public observer -- get_snapshot / get_display_buffer / statistics accessors / (where the
        controller belongs to a PCE500Emulator) PCE500Emulator.save_snapshot to a temporary file.
        ["L", meta, hex, defect]: HD61202Controller.load_snapshot of a foreign snapshot; the answer (an exception =
        "rejected") is the implementation's own."""
        import copy
        import os
        import tempfile

        self.last_snapshot = None
        if op[0] == "S":
            what = op[1]
            if what == "display":
                self.c.get_display_buffer()
            elif what == "stats":
                self.c.get_chip_statistics()
                _ = (self.c.display_on, self.c.page, self.c.column)
            elif what == "save" and self.emu is not None:
                with tempfile.TemporaryDirectory(prefix="vh-c15-") as d:
                    self.emu.save_snapshot(os.path.join(d, "s.pcsnap"))
            else:
                self.c.get_snapshot()
            return "done"
        try:
            self.c.load_snapshot(copy.deepcopy(op[1]), bytes.fromhex(op[2]))
        except Exception:  # noqa: BLE001 -- a refusal; what it leaves behind is judged by the caller
            return "rejected"
        return "accepted"

    def display(self):
        return self.c.get_display_buffer()


def snapshot_obs(snap: Any) -> Tuple[List[Tuple[Any, Any, Any, Any]], bytes, Optional[str]]:
    """(registers x2, flattened VRAM, shape problem) of an LCDSnapshot."""
    regs = []
    vram = bytearray()
    problem: Optional[str] = None
    chips = list(snap.chips)
    if len(chips) != 2:
        problem = f"{len(chips)} chips"
    for ci, ch in enumerate(chips[:2]):
        regs.append((ch.on, ch.start_line, ch.page, ch.y_address))
        rows = list(ch.vram)
        widths = sorted({len(row) for row in rows})
        if (len(rows) != 8 or widths != [64]) and problem is None:
            problem = f"{M.CHIP_NAME[ci]} chip vram is {len(rows)} rows x {widths} columns"
        for row in rows:
            try:
                chunk = bytes(row) if set(map(type, row)) <= {int} else None
            except (ValueError, TypeError):
                chunk = None
            if chunk is None:  # slow path: some entry is not a byte value
                chunk = bytearray()
                for v in row:
                    ok = type(v) is int and 0 <= v <= 255
                    if not ok and problem is None:
                        problem = f"{M.CHIP_NAME[ci]} chip vram holds a non-byte value {v!r}"
                    chunk.append(v if ok else 0xEE)
            vram += chunk
    while len(regs) < 2:
        regs.append((None, None, None, None))
    return regs, bytes(vram), problem


def py_run_ops(ops: Sequence[Sequence[Any]]) -> List[Dict[str, Any]]:
    """Execute the op language of rust/harness/src/c15.rs on the Python controller (no snapshots)."""
    import numpy as np

    lcd = PyLcd()
    out: List[Dict[str, Any]] = []
    base = None
    for op in ops:
        k = op[0]
        if k == "w":
            lcd.write(op[1], op[2])
            out.append({})
        elif k == "r":
            out.append({"r": lcd.read(op[1])})
        elif k == "v":
            out.append({"x": lcd.observe(None)[2].hex()})
        elif k == "b":
            base = np.array(lcd.display(), dtype=np.uint8).copy()
            if base.shape != (32, 240):
                raise HarnessError(f"python display buffer has shape {base.shape}")
            out.append({"b": ["".join("1" if v else "0" for v in row) for row in base.tolist()]})
        elif k == "d":
            cur = np.array(lcd.display(), dtype=np.uint8)
            rr, cc = np.nonzero(cur != base)
            flat: List[int] = []
            for r_, c_ in zip(rr.tolist(), cc.tolist()):
                flat += [r_, c_, int(cur[r_, c_])]
            out.append({"d": flat})
        else:
            raise HarnessError(f"python driver: unsupported op {k}")
    return out


def rs_run(histories: List[Dict[str, Any]]) -> List[Dict[str, Any]]:
    rust = rsclient.shared()
    resp = rust.call({"cmd": "c15.run", "histories": histories})
    if not resp.get("ok"):
        raise HarnessError(f"c15.run failed: {str(resp)[:300]}")
    res = resp["results"]
    if len(res) != len(histories):
        raise HarnessError("c15.run returned a wrong number of results")
    return res


# ---------------------------------------------------------------------------------------------------------
# Part A: histories
# ---------------------------------------------------------------------------------------------------------

def _sel_word(ci: int, sel: Tuple[int, ...]) -> str:
    return "selected" if ci in sel else "unselected"


def _diff_expected(impl: str, exp: Obs, obs: Obs, prev: Obs, sel: Tuple[int, ...], is_status: bool,
                   pre_cell: Optional[int], shape: Optional[str] = None,
                   below: Optional[int] = None) -> Tuple[List[str], List[str], List[str]]:
    """Field-level diff of one implementation against the model -> (fields, symptoms, details).

    `below` (machine paths only) = the byte the memory image holds underneath the port: used to NAME a wrong read
    value (one symptom for 'the backing store shows through' whatever that byte is), never to decide a verdict."""
    fields: List[str] = []
    sym: List[str] = []
    det: List[str] = []
    er, eregs, ev = exp
    orr, oregs, ov = obs
    if er != orr and isinstance(er, tuple):
        fields.append("read-value")
        ol = orr if isinstance(orr, tuple) and len(orr) == 3 else (orr, None, None)
        if below is not None and ol[0] == below and er[0] != below and er[1] == ol[1]:
            sym.append("read run: returned the memory byte underneath the port instead of the byte the chip drives")
        elif is_status and isinstance(er[0], int) and isinstance(ol[0], int) and er[0] != ol[0]:
            bits = []
            x = (er[0] ^ ol[0]) & 0xFF
            if x & 0x80:
                bits.append("busy bit")
            if x & 0x20:
                bits.append("on/off bit")
            if x & 0x5F:
                bits.append("other bits")
            sym.append("status " + "+".join(bits) + " wrong")
        elif er[1] != ol[1]:
            sym.append("read run: number of answered reads differs")
        else:
            sym.append("read run: sequence of returned bytes differs")
        det.append(f"read run (last, answered, digest) expected {er!r} got {ol!r}")
    elif er != orr:
        fields.append("read-value")
        if er is None:
            sym.append("read returned a value where the protocol returns nothing")
        elif orr is None:
            sym.append("read returned nothing")
        elif below is not None and orr == below:
            sym.append("read returned the memory byte underneath the port instead of the byte the chip drives")
        elif is_status:
            bits = []
            x = (er ^ orr) & 0xFF
            if x & 0x80:
                bits.append("busy bit")
            if x & 0x20:
                bits.append("on/off bit")
            if x & 0x5F:
                bits.append("other bits")
            sym.append("status " + "+".join(bits) + " wrong")
        elif pre_cell is not None and orr == pre_cell and er != pre_cell:
            sym.append("data read returned the current column instead of the previous one")
        else:
            sym.append("data read returned a wrong byte")
        det.append(f"read expected {er!r} got {orr!r}")
    for ci in (0, 1):
        for fi, name in enumerate(REG_NAMES):
            if eregs[ci][fi] != oregs[ci][fi] or type(oregs[ci][fi]) not in (int, bool):
                fields.append(name)
                how = "unchanged" if oregs[ci][fi] == prev[1][ci][fi] else "wrong value"
                item = f"{name} of {_sel_word(ci, sel)} chip {how}"  # chip name is implied by cs in `where`
                if item not in sym:
                    sym.append(item)
                det.append(f"{M.CHIP_NAME[ci]}.{name} expected {eregs[ci][fi]!r} got {oregs[ci][fi]!r}")
    if shape:
        fields.append("vram")
        sym.append("vram is not 8 pages x 64 columns of byte values")
        det.append(shape)
    elif ev != ov:
        fields.append("vram")
        if len(ov) != len(ev):
            sym.append("vram size wrong")
            det.append(f"vram length {len(ov)}")
        else:
            for ci in (0, 1):
                cells = [i for i in range(512) if ev[ci * 512 + i] != ov[ci * 512 + i]]
                if cells:
                    n = str(len(cells)) if len(cells) <= 2 else "many"
                    item = f"vram of {_sel_word(ci, sel)} chip differs in {n} cell(s)"
                    if item not in sym:
                        sym.append(item)
                    det.append(f"{M.CHIP_NAME[ci]} vram " + ", ".join(
                        f"[p{i // 64}][{i % 64}] exp {ev[ci * 512 + i]:#04x} got {ov[ci * 512 + i]:#04x}"
                        for i in cells[:4]))
    return fields, sym, det


def _diff_impls(py: Obs, rs: Obs, prev_py: Obs, prev_rs: Obs) -> Tuple[List[str], List[str], List[str]]:
    fields: List[str] = []
    det: List[str] = []
    if py[0] != rs[0]:
        fields.append("read-value")
        det.append(f"read py={py[0]!r} rs={rs[0]!r}")
    for ci in (0, 1):
        for fi, name in enumerate(REG_NAMES):
            if py[1][ci][fi] != rs[1][ci][fi]:
                if name not in fields:
                    fields.append(name)
                det.append(f"{M.CHIP_NAME[ci]}.{name} py={py[1][ci][fi]!r} rs={rs[1][ci][fi]!r}")
    if py[2] != rs[2]:
        fields.append("vram")
        cells = [i for i in range(min(len(py[2]), len(rs[2]))) if py[2][i] != rs[2][i]]
        det.append("vram " + ", ".join(
            f"{M.CHIP_NAME[i // 512]}[p{(i % 512) // 64}][{i % 64}] py={py[2][i]:#04x} rs={rs[2][i]:#04x}"
            for i in cells[:4]))
    sym: List[str] = []
    if fields:
        py_same = (py[1], py[2]) == (prev_py[1], prev_py[2])
        rs_same = (rs[1], rs[2]) == (prev_rs[1], prev_rs[2])
        sym.append(f"python state {'unchanged' if py_same else 'changed'}, rust state "
                   f"{'unchanged' if rs_same else 'changed'}; differing: " + ",".join(fields))
    return fields, sym, det


def _rs_obs(step: Dict[str, Any], rs_vram: bytearray) -> Obs:
    s = step.get("s")
    if not isinstance(s, list) or len(s) != 8:
        raise HarnessError(f"rust step without snapshot: {str(step)[:200]}")
    v = step.get("v") or []
    if v and v[0] == 0xFFFFFFFF:
        rs_vram[:] = bytes(v[1])
        v = v[2:]
    for i in range(0, len(v), 2):
        if v[i] < len(rs_vram):
            rs_vram[v[i]] = v[i + 1]
    regs = [tuple(s[0:4]), tuple(s[4:8])]
    ret = step.get("r")
    if "rs" in step:
        ret = (ret, step["rs"][0], step["rs"][1])
    return ret, regs, bytes(rs_vram)


def rs_req(ops: List[List[Any]], opts: Dict[str, Any], snap: bool = True) -> Dict[str, Any]:
    req: Dict[str, Any] = {"ops": ops, "snap": snap, "via": opts["rs_via"]}
    if opts["rs_via"] == "machine":
        req["backing"] = [[base, backing_bytes(opts.get("backing", DEFAULT_BACKING), base).hex()] for base in LCD_WINDOWS]
    return req


def _rs_mask(op: Sequence[Any], ret: Any) -> Any:
    """Machine path: register A after `MV A,[addr]` is always a byte; where no chip drives the bus it is whatever the
    memory image holds (routing, not LCD protocol) and is reported as 'nothing', as LcdController::read does."""
    if op[0] == "r" and not M.drives_bus(op[1]):
        return None
    if op[0] == "R" and not M.drives_bus(op[1]):
        return M.undriven_run(op[2])
    return ret


def _rs_probe_busy(prefix: List[List[Any]], opts: Dict[str, Any]) -> Optional[List[bool]]:
    probe = [list(o) for o in prefix] + [["r", 0x2009], ["r", 0x2005]]  # status read: left, right
    rr = rs_run([rs_req(probe, opts, False)])[0]
    steps = rr.get("steps", [])
    if len(steps) != len(probe):
        return None  # a panic inside the prefix is reported by the main comparison
    out = []
    for st_ in steps[-2:]:
        v = st_.get("r")
        if not isinstance(v, int):
            return None  # a status read returning nothing is a Part-A verdict at a real status-read step
        out.append(bool(v & 0x80))
    return out


def case_opts(case: Dict[str, Any]) -> Dict[str, Any]:
    """Path options of a history case (defaults = the round-1 configuration)."""
    return {"py_via": case.get("py_via", "controller"), "rs_via": case.get("rs_via", "direct"),
            "group": max(1, int(case.get("group", 1))), "observe_at": int(case.get("observe_at", 0)),
            "backing": list(case.get("backing", DEFAULT_BACKING)), "lowwin": case.get("lowwin", "routed")}


def _make_case(ops: List[List[Any]], opts: Dict[str, Any]) -> Dict[str, Any]:
    case: Dict[str, Any] = {"kind": "history", "ops": ops}
    if opts["py_via"] != "controller":
        case["py_via"] = opts["py_via"]
    if opts["py_via"] in REPLAY_VIAS:
        case["group"] = opts["group"]
    if opts["py_via"] == "replay-late-observer":
        case["observe_at"] = opts["observe_at"]
    if opts["rs_via"] != "direct":
        case["rs_via"] = opts["rs_via"]
    if opts["py_via"] in MACHINE_VIAS or opts["rs_via"] == "machine":
        case["backing"] = list(opts.get("backing", DEFAULT_BACKING))
    if opts["py_via"] in MACHINE_VIAS and opts.get("lowwin", "routed") != "routed":
        case["lowwin"] = opts["lowwin"]
    return case


def expand_writes(op: Sequence[Any]) -> List[Tuple[int, int]]:
    if op[0] == "w":
        return [(op[1], op[2])]
    return [(op[1], v) for v in M.run_values(op[2], op[3], op[4])]


BYSTANDER_KINDS = ("S", "L")
BYSTANDER_SYMPTOM = "changed by an operation that is not an access to the LCD windows"


def bystander_where(op: Sequence[Any], py: Optional["PyLcd"] = None) -> str:
    if op[0] == "S":
        what = op[1]
        if what == "save":
            return "observe: save_snapshot of the machine between accesses"
        return f"observe: {what} between accesses"
    return f"refused snapshot restore ({op[3] if len(op) > 3 else 'defect'}) between accesses"


def _classify(op: Sequence[Any]) -> Tuple[str, bool]:
    """Semantic class of an op (fingerprint `where`) and whether its direction matches the address."""
    if op[0] == "w":
        return M.Model.classify_write(op[1], op[2])
    if op[0] == "r":
        return M.Model.classify_read(op[1])
    cs, di, rw = M.decode(op[1])
    if op[0] == "W":
        if rw:  # direction mismatch: same class as the single write (one root cause, one fingerprint)
            return M.Model.classify_write(op[1], op[2])
        return f"write-run {'data' if di else 'instr'} cs={M.CS_NAME[cs]}", True
    if op[0] == "R":
        if not rw:
            return M.Model.classify_read(op[1])
        return f"read-run {'data' if di else 'status'} cs={M.CS_NAME[cs]}", True
    raise HarnessError(f"unknown op {op!r}")


def judge_history(ops: List[List[Any]], rs_result: Dict[str, Any],
                  opts: Optional[Dict[str, Any]] = None) -> Tuple[List[Violation], List[str], bool, Dict[str, Any]]:
    """Run one history through model + Python (lock-step here) + Rust (pre-computed) -> violations, labels, NT.

    Rust is compared after every op.  Python is compared after every op as well, except on the replay paths, where
    up to `group` consecutive direction-matched writes are handed to ONE LCDPipeline.replay() call and compared
    after it (the model has then executed exactly the same writes)."""
    opts = opts or case_opts({})
    py_via, rs_via, group = opts["py_via"], opts["rs_via"], opts["group"]
    grouping = py_via in REPLAY_VIAS and group > 1
    py_tag = "py" if py_via == "controller" else f"py[{py_via}]"
    rs_tag = "rs" if rs_via == "direct" else f"rs[{rs_via}]"
    backing = opts.get("backing", DEFAULT_BACKING)
    lowwin = opts.get("lowwin", "routed")
    py_machine, rs_machine = py_via in MACHINE_VIAS, rs_via == "machine"
    under = {base >> 12: backing_bytes(backing, base) for base in LCD_WINDOWS} if py_machine or rs_machine else None
    viols: List[Violation] = []
    labels: set = set()
    if under is not None:
        labels.add(f"backing:{backing[0]}")
    if py_machine and lowwin != "routed":
        labels.add(f"py-low-window:{lowwin}")
    model = M.Model()
    py = PyLcd(py_via, opts["observe_at"], backing, lowwin)
    rs_steps = rs_result.get("steps", [])
    rs_vram = bytearray(1024)
    init: Obs = (None, [(False, 0, 0, 0), (False, 0, 0, 0)], bytes(1024))
    prev_py = prev_rs = init
    info: Dict[str, Any] = {}
    pending: List[Tuple[int, int]] = []  # python writes of the open group
    pending_ops: List[int] = []
    pending_sel: set = set()
    unpolled = [0, 0]  # bookkeeping for coverage labels only

    def py_flush(i: int, where_last: str) -> bool:
        """Hand the open group to the Python path and compare with the model; True = violation (stop)."""
        nonlocal prev_py
        if not pending_ops:
            return False
        case = _make_case(ops[:i + 1], opts)
        if len(pending_ops) == 1:
            where = where_last
        else:
            kinds = sorted({"data" if M.decode(ops[k][1])[1] else "instr" for k in pending_ops})
            where = "write group " + "+".join(kinds)
            labels.add("py-group:" + "+".join(kinds))
        sel = tuple(sorted(pending_sel))
        n_writes = len(pending)
        try:
            py.write_group(pending)
            obs = py.observe(None)
        except Exception as exc:  # noqa: BLE001
            viols.append(Violation(f"{py_tag}:exception", where, f"raises {type(exc).__name__}", case, repr(exc)[:200]))
            return True
        finally:
            pending.clear()
            pending_ops.clear()
            pending_sel.clear()
        exp: Obs = (None, model.regs(), model.vram())
        fields, sym, det = _diff_expected(py_tag, exp, obs, prev_py, sel, False, None, py.shape_problem)
        if fields:
            viols.append(Violation(f"{py_tag}:" + "+".join(sorted(set(fields))), where, "; ".join(sym), case,
                                   f"step {i} ({n_writes} write(s) in the group): " + "; ".join(det)))
            return True
        prev_py = obs
        return False

    n_by = n_by_nt = 0
    for i, op in enumerate(ops):
        kind = op[0]
        if kind in BYSTANDER_KINDS:
            # Round 5: not a window access -> the model does nothing; registers, VRAM, busy must stay what the
            # access history made them (statement: state and read values are those of the protocol for the sequence
            # of reads and writes).  A restore the implementation ACCEPTS is C16's subject: the history ends unjudged.
            if py_flush(i - 1, ""):
                break
            where = bystander_where(op)
            case = _make_case(ops[:i + 1], opts)
            model_busy = [c.busy for c in model.chips]
            live = (model.regs(), model.vram()) != (init[1], init[2])
            n_by += 1
            if (kind == "S" and any(model_busy)) or (kind == "L" and (live or any(model_busy))):
                n_by_nt += 1
                labels.add("bystander:" + ("observer inside a BUSY window" if kind == "S" else "refused restore over live state"))
            labels.add("bystander:" + (f"observe-{op[1]}" if kind == "S" else f"restore-{op[3]}"))
            try:
                py_ans = py.bystander(op)
                py_obs = py.observe(None)
                py_busy = py.busy()
            except Exception as exc:  # noqa: BLE001
                viols.append(Violation(f"{py_tag}:exception", where, f"raises {type(exc).__name__}", case, repr(exc)[:200]))
                break
            if i >= len(rs_steps):
                viols.append(Violation(f"{rs_tag}:panic", where, "rust panicked", case, str(rs_result.get("panic"))[:200]))
                break
            rs_ans = rs_steps[i].get("l")
            rs_obs = _rs_obs(rs_steps[i], rs_vram)
            if rs_ans == "save-failed":
                labels.add("bystander:rust-save-failed")
            if "accepted" in (py_ans, rs_ans):
                labels.add("bystander:restore-accepted(history ends unjudged)")
                break
            if kind == "L":
                labels.add("bystander:restore-refused-by-both")
            exp = (None, model.regs(), model.vram())
            stop = False
            for impl, obs, prev, shape in ((py_tag, py_obs, prev_py, py.shape_problem), (rs_tag, rs_obs, prev_rs, None)):
                fields, sym, det = _diff_expected(impl, exp, obs, prev, (), False, None, shape)
                if fields:
                    what = "registers and VRAM" if "vram" in fields and len(set(fields)) > 1 else \
                        "VRAM" if "vram" in fields else "registers"
                    viols.append(Violation(f"{impl}:bystander", where, f"chip {what} {BYSTANDER_SYMPTOM}", case,
                                           f"step {i} {op[0]}: " + "; ".join(det)))
                    stop = True
            if not stop and py_busy != model_busy:
                viols.append(Violation(f"{py_tag}:bystander", where, f"busy flag of a chip {BYSTANDER_SYMPTOM}", case,
                                       f"step {i} {op[0]}: busy [left,right] expected {model_busy} got {py_busy}"))
                stop = True
            if stop:
                break
            prev_py, prev_rs = py_obs, rs_obs
            continue
        addr = op[1]
        cs, di, rw = M.decode(addr)
        sel = M.selected(cs)
        pre_cell = None
        is_write = kind in ("w", "W")
        where, matched = _classify(op)
        # the Python machine maps only 16 bytes of the low window: keep that root cause apart (own `where`)
        py_unrouted = py_machine and lowwin != "routed" and unrouted_py(addr)
        where_py = where + " @low-window 0x2010-0x2FFF" if py_unrouted else where
        if is_write:
            if kind == "w":
                model.write(addr, op[2])
            else:
                model.write_run(addr, op[2], op[3], op[4])
                if matched and di and op[4] >= 129:
                    labels.add("data-run>=129")
            exp_ret: Any = None
            if matched:
                for ci in sel:
                    unpolled[ci] += 1 if kind == "w" else op[4]
        else:
            if kind == "r":
                if matched and di and len(sel) == 1:
                    c = model.chips[sel[0]]
                    pre_cell = c.vram[c.page * 64 + c.y]
                exp_ret = model.read(addr)
                if under is not None and exp_ret is not None and matched:
                    below = under[addr >> 12][addr & 0xFFF]
                    labels.add("bus-read:" + ("0x00" if exp_ret == 0 else "non-zero") + " over " +
                               ("0x00" if below == 0 else "the same byte" if below == exp_ret else "a different byte"))
            else:
                exp_ret = model.read_run(addr, op[2])
            if matched and not di and len(sel) == 1:
                n = unpolled[sel[0]]
                if n >= 256:
                    labels.add("poll-after>=256-writes")
                if n >= 256 and n & (n - 1) == 0:
                    labels.add(f"poll-after-2^{n.bit_length() - 1}-writes")
                unpolled[sel[0]] = 0
        labels.add("op:" + where)
        case = _make_case(ops[:i + 1], opts)
        groupable = is_write and matched
        if not (grouping and groupable) and py_flush(i - 1, ""):
            break
        prev_py_busy = py.busy() if not matched else None
        model_busy_before = [c.busy for c in model.chips]  # the model ignores direction-mismatched accesses
        # --- Python step
        py_obs: Optional[Obs] = None
        try:
            if is_write:
                if grouping and groupable:
                    pending.extend(expand_writes(op))
                    pending_ops.append(i)
                    pending_sel.update(sel)
                    last_of_group = (len(pending_ops) >= group or i + 1 >= len(ops)
                                     or ops[i + 1][0] not in ("w", "W") or M.decode(ops[i + 1][1])[2] != 0)
                else:
                    py.write_group(expand_writes(op))
                    py_obs = py.observe(None)
            elif kind == "r":
                py_obs = py.observe(py.read(addr))
            else:
                py_obs = py.observe(py.read_run(addr, op[2]))
        except Exception as exc:  # noqa: BLE001 -- any exception on a window access is a protocol violation
            viols.append(Violation(f"{py_tag}:exception", where_py, f"raises {type(exc).__name__}", case, repr(exc)[:200]))
            break
        # --- Rust step
        if i >= len(rs_steps):
            viols.append(Violation(f"{rs_tag}:panic", where, "rust panicked", case, str(rs_result.get("panic"))[:200]))
            break
        rs_obs = _rs_obs(rs_steps[i], rs_vram)
        if rs_machine:
            rs_obs = (_rs_mask(op, rs_obs[0]), rs_obs[1], rs_obs[2])
        exp: Obs = (exp_ret, model.regs(), model.vram())
        stop = False
        is_status = (not is_write) and not di
        if matched:
            todo = [(rs_tag, rs_obs, prev_rs, None, where,
                     under[addr >> 12][addr & 0xFFF] if rs_machine and not is_write else None)]
            if py_obs is not None:
                pa = py._addr(addr)
                todo.insert(0, (py_tag, py_obs, prev_py, py.shape_problem, where_py,
                                under[pa >> 12][pa & 0xFFF] if py_machine and not is_write else None))
            for impl, obs, prev, shape, wh, below in todo:
                fields, sym, det = _diff_expected(impl, exp, obs, prev, sel, is_status, pre_cell, shape, below)
                if fields:
                    viols.append(Violation(f"{impl}:" + "+".join(sorted(set(fields))), wh, "; ".join(sym), case,
                                           f"step {i} {op}: " + "; ".join(det)))
                    stop = True
            if py_unrouted and py_obs is not None and not stop and py.busy() != [c.busy for c in model.chips]:
                # an access the machine did not route leaves no visible trace when it only concerns the busy flag;
                # attribute it to this step instead of to a later status read
                viols.append(Violation(f"{py_tag}:busy", where_py, "busy flag of a chip wrong after the access", case,
                                       f"step {i} {op}: busy [left,right] expected {[c.busy for c in model.chips]} "
                                       f"got {py.busy()}"))
                stop = True
            if py_obs is None and not stop and last_of_group:
                stop = py_flush(i, where)
        else:
            assert py_obs is not None
            fields, sym, det = _diff_impls(py_obs, rs_obs, prev_py, prev_rs)
            if py.shape_problem and not fields:
                fields, sym, det = ["vram"], ["vram is not 8 pages x 64 columns of byte values"], [py.shape_problem]
            if fields:
                viols.append(Violation("py-vs-rs:" + "+".join(sorted(set(fields))), where, "; ".join(sym), case,
                                       f"step {i} {op}: " + "; ".join(det)))
                stop = True
            else:
                # The busy flags are not part of either snapshot.  Python's is a public attribute; Rust's is probed
                # on a fresh controller that replays the prefix and then reads both chips' status.
                py_busy = py.busy()
                rs_busy = _rs_probe_busy(ops[:i + 1], opts)
                if rs_busy is None:
                    labels.add("busy-probe-unavailable")
                elif py_busy != rs_busy:
                    py_same = py_busy == prev_py_busy and (py_obs[1], py_obs[2]) == (prev_py[1], prev_py[2])
                    rs_same = rs_busy == model_busy_before and (rs_obs[1], rs_obs[2]) == (prev_rs[1], prev_rs[2])
                    viols.append(Violation(
                        "py-vs-rs:busy", where,
                        f"python state {'unchanged' if py_same else 'changed'}, rust state "
                        f"{'unchanged' if rs_same else 'changed'}; differing: busy", case,
                        f"step {i} {op}: busy flags [left,right] py={py_busy} rs={rs_busy} (status-read probe)"))
                    stop = True
                elif (py_obs[1], py_obs[2]) != (exp[1], exp[2]) or py_obs[0] != exp[0] or \
                        py_busy != [c.busy for c in model.chips]:
                    # both implementations agree on something the model does not prescribe: follow them
                    model.adopt(py_obs[1], py_obs[2], py_busy)
                    labels.add("model-resynced")
        if stop:
            break
        if py_obs is not None:
            prev_py = py_obs
        prev_rs = rs_obs
    nt = model.nontrivial()
    for ci in (0, 1):
        if model.wrapped[ci]:
            labels.add(f"wrap:{M.CHIP_NAME[ci]}")
        if model.read_after_set[ci]:
            labels.add(f"read-after-set-y:{M.CHIP_NAME[ci]}")
    info["final_regs"] = [list(r) for r in model.regs()]
    info["bystanders"] = [n_by, n_by_nt]
    if n_by:
        labels.add("bystander:history")
    if n_by_nt:
        labels.add("bystander:history-nontrivial")
    return viols, sorted(labels), nt, info


# ---------------------------------------------------------------------------------------------------------
# Part A': write-only projection replayed from power-on through the list-replaying entry points
# ---------------------------------------------------------------------------------------------------------

PROJECTION_PATHS = ("replay_operations", "LCDPipeline.replay")
PROJECTION_MAX = 40000  # expanded writes


def projection_writes(ops: List[List[Any]]) -> List[Tuple[int, int]]:
    out: List[Tuple[int, int]] = []
    for op in ops:
        if op[0] in ("w", "W") and M.decode(op[1])[2] == 0:
            out.extend(expand_writes(op))
    return out


def judge_projection(ops: List[List[Any]], paths: Sequence[str] = PROJECTION_PATHS) -> List[Violation]:
    """The direction-matched writes of a history, replayed as ONE list on fresh chips, must leave the chips in the
    state the protocol prescribes for those writes (registers, VRAM incl. its shape, busy flags)."""
    from pce500.display.hd61202 import parse_command
    from pce500.display.pipeline import LCDOperation, LCDPipeline, replay_operations

    writes = projection_writes(ops)
    model = M.Model()
    for a, v in writes:
        model.write(a, v)
    exp: Obs = (None, model.regs(), model.vram())
    init: Obs = (None, [(False, 0, 0, 0), (False, 0, 0, 0)], bytes(1024))
    viols: List[Violation] = []
    for path in paths:
        case = {"kind": "projection", "path": path, "ops": ops}
        where = f"{path} of a whole write list"
        opers = []
        for i, (a, v) in enumerate(writes):
            try:
                opers.append(LCDOperation(parse_command(a, v), pc=0xF0000 + (i & 0xFFF)))
            except ValueError:
                pass  # CS=none: not expressible as an LCDOperation (see assumptions)
        try:
            busy: Optional[List[bool]] = None
            if path == "replay_operations":
                snap, _events = replay_operations(opers)
            elif path == "LCDPipeline.replay":
                pipe = LCDPipeline()
                snap = pipe.replay(opers)
                again = snapshot_obs(pipe.snapshot)
                busy = [bool(ch.state.busy) for ch in pipe.chips]
            else:
                raise HarnessError(f"unknown projection path {path!r}")
            regs, vram, shape = snapshot_obs(snap)
        except HarnessError:
            raise
        except Exception as exc:  # noqa: BLE001
            viols.append(Violation("py-replay:exception", where, f"raises {type(exc).__name__}", case, repr(exc)[:200]))
            continue
        fields, sym, det = _diff_expected("py", exp, (None, regs, vram), init, (0, 1), False, None, shape)
        if not fields and path == "LCDPipeline.replay" and again != (regs, vram, shape):
            fields, sym, det = ["snapshot"], ["replay() result differs from pipeline.snapshot"], []
        if not fields and busy is not None and busy != [c.busy for c in model.chips]:
            fields, sym, det = ["busy"], ["busy flag wrong after the replay"], [f"busy {busy}"]
        if fields:
            viols.append(Violation("py-replay:" + "+".join(sorted(set(fields))), where,
                                   "; ".join(s_.replace("selected chip", "a chip") for s_ in sym), case,
                                   f"{len(opers)} operations: " + "; ".join(det)))
    return viols


def attribute_paths(viols: List[Violation], opts: Dict[str, Any]) -> List[Violation]:
    """Keep one fingerprint per root cause: a violation found on a non-default feeding path (py[...] / rs[...]) is
    re-examined with the same ops on the next simpler path -- py[emulator] / py[cpu] on py[bus] (a bare PCE500Memory
    with the controller attached), everything else on the default path (HD61202Controller.write one by one /
    LcdController value).  If the simpler path violates too, the cause is not the path and that (genuine, separately
    reproducible) violation is reported instead; otherwise the path-tagged one stands."""
    out: List[Violation] = []
    for v in viols:
        while True:
            tag = v.subcheck.split(":", 1)[0]
            if "[" not in tag:
                break
            base = case_opts(v.case)
            side = tag.split("[", 1)[0]
            if side == "py":
                if base["py_via"] == "cpu":
                    base.update(py_via="emulator")  # the same machine without the CPU in front of the bus
                elif base["py_via"] == "emulator":
                    base.update(py_via="bus")
                else:
                    base.update(py_via="controller", group=1, observe_at=0)
            else:
                base.update(rs_via="direct")
            ops = [list(o) for o in v.case["ops"]]
            rr = rs_run([rs_req(ops, base)])[0]
            again, _l, _n, _i = judge_history(ops, rr, base)
            same_side = [x for x in again if x.subcheck.split(":", 1)[0].split("[", 1)[0] == side]
            if not same_side:
                break
            v = same_side[0]
        out.append(v)
    seen = set()
    uniq = []
    for v in out:
        k = (v.key(), jhash(v.case))
        if k not in seen:
            seen.add(k)
            uniq.append(v)
    return uniq


BIG_EVERY = 1  # one history per shard (index 1) carries a forced stretch of 2^15 .. 3*2^16 un-polled writes


def history_plan(seed: int, shard: int, j: int) -> Tuple[List[List[Any]], str, Dict[str, Any]]:
    """(ops, profile, path options) of history j of a shard: a pure function of (seed, shard, j)."""
    st = Stream(seed, 0xC15, shard, j)
    profile = "hostile" if st.below(3) == 0 else "strict"
    target = st.choice((40, 80, 120, 200, 320))
    big = None
    budget = "medium" if j % 6 == 2 else "small"
    if j == 1:
        # stratified over the shards so that every boundary count is exercised in every run
        big = GEN.BOUND_BIG[(shard + mix32(seed, 0xB16) % len(GEN.BOUND_BIG)) % len(GEN.BOUND_BIG)]
        profile = "strict"  # a hostile history may be cut short by the known write@read-address finding
        target = min(target, 120)
    ops = GEN.gen_history(st, profile, target, budget, big)
    so = Stream(seed, 0xC15A, shard, j)
    py_via = so.choice(("controller", "controller", "controller", "apply-raw", "apply", "replay-observed",
                        "replay", "replay", "replay-late-observer"))
    opts = {"py_via": py_via, "rs_via": "hal" if so.chance(1, 4) else "direct",
            "group": so.choice((1, 2, 4, 16, 1000)), "observe_at": so.below(6),
            "backing": list(DEFAULT_BACKING), "lowwin": "routed"}
    # machine-level access paths (own stream: the distribution of the other options is left as it was)
    sm = Stream(seed, 0xC15B, shard, j)
    if sm.chance(1, 4):
        opts["py_via"] = sm.choice(("bus", "bus", "emulator", "cpu", "cpu"))
        if opts["py_via"] == "cpu" and sum(o[4] if o[0] == "W" else o[2] if o[0] == "R" else 1 for o in ops) > CPU_PATH_MAX:
            opts["py_via"] = "emulator"
        if sm.chance(1, 6):
            opts["lowwin"] = "full"
    if sm.chance(1, 4):
        opts["rs_via"] = "machine"
    k = sm.below(8)
    if k == 0:
        opts["backing"] = ["zeros"]
    elif k < 4:  # constant fill: bytes that look like a status / like blank or full columns, or anything
        opts["backing"] = ["fill", sm.choice((0xFF, 0x5A, 0x80, 0x20, 0xA0, 0x01, 1 + sm.below(255), 1 + sm.below(255)))]
    else:
        opts["backing"] = ["hash", sm.below(1 << 30)]
    # round 5: bystander operations (own stream; 1/3 of the histories, the forced-stretch history stays as it was)
    sb = Stream(seed, 0xC15C, shard, j)
    if j != 1 and sb.chance(1, 3):
        ops = GEN.add_bystanders(sb, ops)
    return ops, profile, opts


def _hist_shard(task: Tuple[int, int, int, str]) -> Report:
    shard, count, seed, tier = task
    rep = Report()
    hists: List[Tuple[List[List[Any]], str, Dict[str, Any]]] = [history_plan(seed, shard, j) for j in range(count)]
    B = 24
    for i in range(0, len(hists), B):
        chunk = hists[i:i + B]
        rs_res = rs_run([rs_req(ops, opts) for ops, _p, opts in chunk])
        for (ops, profile, opts), rr in zip(chunk, rs_res):
            viols, labels, nt, info = judge_history(ops, rr, opts)
            viols = attribute_paths(viols, opts)
            labels = list(labels) + [f"py-via:{opts['py_via']}", f"rs-via:{opts['rs_via']}"]
            if not viols:
                if len(projection_writes(ops)) <= PROJECTION_MAX:
                    viols = judge_projection(ops)
                    labels.append("projection:replayed")
                else:
                    labels.append("projection:skipped(too long)")
            for v in viols:
                rep.violate(v)
            sample = None
            if rep.evaluations < 1 and shard < 6:
                sample = {"part": "history", "profile": profile, "n_ops": len(ops), "paths": _make_case([], opts),
                          "ops_head": [[o[0], hex(o[1])] + o[2:] if isinstance(o[1], int) else [o[0], str(o[-1])] for o in ops[:10]],
                          "final_regs[on,start,page,y]": info.get("final_regs"), "nontrivial": nt}
            by = info.get("bystanders", [0, 0])
            rep.extra["bystander_ops_generated"] = rep.extra.get("bystander_ops_generated", 0) + by[0]
            rep.extra["bystander_ops_nontrivial"] = rep.extra.get("bystander_ops_nontrivial", 0) + by[1]
            key = jhash([ops, _make_case([], opts)]) if nt else None
            rep.case(key, [f"profile:{profile}", "nt" if nt else "trivial"] + labels, sample)
    return rep


# ---------------------------------------------------------------------------------------------------------
# Part B: pixel map
# ---------------------------------------------------------------------------------------------------------

def base_byte(base: Sequence[Any], chip: int, page: int, col: int) -> int:
    kind = base[0]
    if kind == "zeros":
        return 0x00
    if kind == "ones":
        return 0xFF
    return mix32(int(base[1]), 0xB15, chip, page, col) & 0xFF


CS_OF_CHIP = (GEN.CS_LEFT, GEN.CS_RIGHT)


def _a(cs: int, di: int) -> int:
    return 0x2000 | (cs << 2) | (di << 1)


def setup_ops(base: Sequence[Any], starts: Sequence[int]) -> List[List[Any]]:
    ops: List[List[Any]] = [["w", _a(GEN.CS_BOTH, 0), 0x3F]]
    for chip in (0, 1):
        cs = CS_OF_CHIP[chip]
        ops.append(["w", _a(cs, 0), 0xC0 | (starts[chip] & 0x3F)])
        for page in range(8):
            ops.append(["w", _a(cs, 0), 0x80 | page])
            ops.append(["w", _a(cs, 0), 0x40])
            for col in range(64):
                ops.append(["w", _a(cs, 1), base_byte(base, chip, page, col)])
    return ops


def _multi_values(base: Sequence[Any], chip: int, page: int, col: int) -> List[int]:
    b = base_byte(base, chip, page, col)
    m = mix32(0x51DE, chip, page, col) & 0xFF
    if m in (0, 0xFF) or bin(m).count("1") < 2:
        m = 0x5A
    return [b ^ 0xFF, b ^ m]


def _pix_task(task: Dict[str, Any]) -> Dict[str, Any]:
    """One (config, chip, page) slice: 512 single-bit probes + 128 multi-bit writes."""
    impl, base, starts, chip, page = task["impl"], task["base"], task["starts"], task["chip"], task["page"]
    cs = CS_OF_CHIP[chip]
    ops = setup_ops(base, starts)
    ops.append(["b"])
    ops.append(["w", _a(cs, 0), 0x80 | page])
    probes: List[Tuple[str, int, int]] = []  # (kind, col, bit-or-value)
    want_cap = impl == "rs"
    for col in range(64):
        b = base_byte(base, chip, page, col)
        for bit in range(8):
            ops += [["w", _a(cs, 0), 0x40 | col], ["w", _a(cs, 1), b ^ (1 << bit)], ["v"], ["d"]]
            probes.append(("bit", col, bit))
        for val in _multi_values(base, chip, page, col):
            ops.append(["w", _a(cs, 0), 0x40 | col])
            if want_cap:
                ops.append(["cb"])
            ops.append(["w", _a(cs, 1), val])
            if want_cap:
                ops.append(["ct"])
            ops += [["v"], ["d"]]
            probes.append(("multi", col, val))
        ops += [["w", _a(cs, 0), 0x40 | col], ["w", _a(cs, 1), b]]
    ops += [["v"], ["d"]]  # everything restored: must be empty again
    if impl == "py":
        try:
            res = py_run_ops(ops)
        except HarnessError:
            raise
        except Exception as exc:  # noqa: BLE001
            return {"task": task, "error": f"{type(exc).__name__}: {exc}"[:200]}
    else:
        # VRAM dumps ("v") are reconstructed from the per-write snapshot deltas instead of being shipped (the shared
        # pipe client reads unbuffered, so multi-megabyte replies are very slow)
        rs_ops = [o for o in ops if o[0] != "v"]
        rr = rs_run([{"ops": rs_ops, "snap": True}])[0]
        if "panic" in rr:
            return {"task": task, "error": "rust panic: " + str(rr["panic"])[:160]}
        steps = iter(rr["steps"])
        rs_vram = bytearray(1024)
        res = []
        for o in ops:
            if o[0] == "v":
                res.append({"x": bytes(rs_vram).hex()})
                continue
            st_ = next(steps)
            if o[0] == "w":
                _rs_obs(st_, rs_vram)
            res.append(st_)
    base_rows = None
    diffs: List[List[int]] = []
    caps: List[Any] = []
    vrams: List[str] = []
    for op, r in zip(ops, res):
        if op[0] == "b":
            base_rows = r["b"]
        elif op[0] == "d":
            diffs.append(r["d"])
        elif op[0] == "ct":
            caps.append(r["c"])
        elif op[0] == "v":
            vrams.append(r["x"])
    if len(diffs) != len(probes) + 1 or len(vrams) != len(diffs):
        raise HarnessError("pixel-map driver lost probe results")
    # The enumeration is only meaningful if each probe write really produced "base with one byte replaced"
    # (that is Part A's subject); verify it through the snapshot API and report it as ONE symptom otherwise.
    full = bytearray(base_byte(base, c_, p_, k_) for c_ in (0, 1) for p_ in range(8) for k_ in range(64))
    state_bad = None
    for (kind, col, x), hexv in list(zip(probes, vrams[:-1])) + [(("final", 0, 0), vrams[-1])]:
        want = bytearray(full)
        if kind != "final":
            idx = chip * 512 + page * 64 + col
            want[idx] = (full[idx] ^ (1 << x)) if kind == "bit" else x
        if bytes.fromhex(hexv) != bytes(want):
            got = bytes.fromhex(hexv)
            cells = [i for i in range(min(len(got), 1024)) if got[i] != want[i]]
            state_bad = (f"after {kind} probe at column {col}: {len(cells)} VRAM byte(s) differ from 'base with one byte "
                         f"replaced', e.g. " + ", ".join(f"{M.CHIP_NAME[i // 512]}[p{(i % 512) // 64}][{i % 64}]" for i in cells[:3]))
            break
    return {"task": task, "probes": probes, "diffs": diffs[:-1], "final": diffs[-1], "caps": caps,
            "base_rows": base_rows, "state_bad": state_bad}


def _triples(flat: List[int]) -> List[Tuple[int, int, int]]:
    return [(flat[i], flat[i + 1], flat[i + 2]) for i in range(0, len(flat), 3)]


def _region(chip: int, page: int, col: int) -> str:
    s = f"{M.CHIP_NAME[chip]} chip pages {'0-3' if page < 4 else '4-7'}"
    if chip == M.LEFT and col >= 56:
        s += " cols 56-63"
    return s


def judge_pixmap(cfg: Dict[str, Any], results: List[Dict[str, Any]], rep: Report) -> None:
    """Global verdicts for one configuration from its 16 slices."""
    impl, base, starts = cfg["impl"], cfg["base"], cfg["starts"]
    case = {"kind": "pixmap", "impl": impl, "base": list(base), "starts": list(starts)}
    sl_class = "start_line=0" if list(starts) == [0, 0] else "start_line!=0"
    tag = f"{impl} {sl_class}"
    hits: Dict[Tuple[int, int], List[Tuple[int, int, int, int]]] = {}
    single: Dict[Tuple[int, int, int, int], List[Tuple[int, int, int]]] = {}
    check_layout = impl == "rs" or list(starts) == [0, 0]
    for res in results:
        t = res["task"]
        chip, page = t["chip"], t["page"]
        if "error" in res:
            rep.violate(Violation(f"{impl}:exception", f"pixel-map {tag}", "display/write path raised", case, res["error"]))
            continue
        if res.get("state_bad"):
            rep.violate(Violation("pixel-map:probe-state", f"{tag} {M.CHIP_NAME[chip]} chip",
                                  "set page / set Y / data write did not replace exactly the addressed VRAM byte", case,
                                  f"page {page}: {res['state_bad']}"))
            continue
        cap_i = 0
        for (kind, col, x), flat in zip(res["probes"], res["diffs"]):
            changed = _triples(flat)
            region = _region(chip, page, col)
            if kind == "bit":
                bit = x
                single[(chip, page, col, bit)] = changed
                for (r_, c_, _v) in changed:
                    hits.setdefault((r_, c_), []).append((chip, page, col, bit))
                labs = [f"pixmap:{tag}", "visible-bit" if changed else "invisible-bit"]
                rep.case(jhash([impl, list(base), list(starts), chip, page, col, bit]) if changed else None, labs, None)
                if len(changed) > 1:
                    rep.violate(Violation("pixel-map:bit-fanout", f"{tag} {region}",
                                          "one VRAM bit changes more than one pixel", case,
                                          f"bit ({M.CHIP_NAME[chip]},p{page},c{col},b{bit}) changed {changed[:4]}"))
                if check_layout:
                    sl = starts[chip] if impl == "rs" else 0
                    exp = M.layout_pixel(chip, page, col, bit, sl)
                    got = (changed[0][0], changed[0][1]) if len(changed) == 1 else None
                    if len(changed) <= 1 and exp != got:
                        if exp is None:
                            sym = "undisplayed VRAM bit drives a pixel"
                        elif got is None:
                            sym = "documented-visible VRAM bit drives no pixel"
                        elif exp[0] != got[0] and exp[1] != got[1]:
                            sym = "wrong row and column"
                        elif exp[0] != got[0]:
                            sym = "wrong row"
                        else:
                            sym = "wrong column"
                        rep.violate(Violation("pixel-layout", f"{tag} {region}", sym, case,
                                              f"bit ({M.CHIP_NAME[chip]},p{page},c{col},b{bit}) expected pixel {exp} got {got}"))
                    elif len(changed) == 1:
                        newbit = ((base_byte(base, chip, page, col) ^ (1 << bit)) >> bit) & 1
                        if changed[0][2] != 1 - newbit:
                            rep.violate(Violation("pixel-layout", f"{tag} {region}", "polarity: set bit must be a dark (0) pixel",
                                                  case, f"bit ({M.CHIP_NAME[chip]},p{page},c{col},b{bit}) -> {newbit}, pixel {changed[0]}"))
            else:
                val = x
                b = base_byte(base, chip, page, col)
                rep.case(jhash([impl, list(base), list(starts), chip, page, col, "v", val]) if changed else None,
                         [f"pixmap-write:{tag}"], None)
                cols = sorted({c_ for (_r, c_, _v) in changed})
                if len(changed) > 8:
                    rep.violate(Violation("pixel-map:write-extent", f"{tag} {region}",
                                          "a single data write changed more than eight pixels", case,
                                          f"write {val:#04x} over {b:#04x} at ({M.CHIP_NAME[chip]},p{page},c{col}) changed {len(changed)} pixels"))
                elif len(cols) > 1 and starts[chip] % 8 == 0:
                    rep.violate(Violation("pixel-map:write-extent", f"{tag} {region}",
                                          "a single data write changed pixels in more than one display column", case,
                                          f"write {val:#04x} over {b:#04x} at ({M.CHIP_NAME[chip]},p{page},c{col}) changed columns {cols}"))
                want = set()
                for bit in range(8):
                    if ((val ^ b) >> bit) & 1:
                        for (r_, c_, _v) in single.get((chip, page, col, bit), []):
                            want.add((r_, c_))
                got_set = {(r_, c_) for (r_, c_, _v) in changed}
                if want != got_set:
                    rep.violate(Violation("pixel-map:write-vs-bits", f"{tag} {region}",
                                          "pixels changed by a byte write are not those of its flipped bits", case,
                                          f"write {val:#04x} over {b:#04x} at ({M.CHIP_NAME[chip]},p{page},c{col}): "
                                          f"expected {sorted(want)[:4]}.. got {sorted(got_set)[:4]}.."))
                if impl == "rs" and list(starts) == [0, 0] and cap_i < len(res["caps"]):
                    evs = res["caps"][cap_i]
                    exp_evs = [[page, cols[0], val]] if len(cols) == 1 else ([] if not cols else None)
                    if exp_evs is not None and evs != exp_evs:
                        rep.violate(Violation("rs:write-capture", f"{tag} {region}",
                                              "display-write capture disagrees with display_buffer()", case,
                                              f"write at ({M.CHIP_NAME[chip]},p{page},c{col}) captured {evs} but pixels changed in column(s) {cols}"))
                cap_i += 1
        if res["final"]:
            rep.violate(Violation("pixel-map:restore", f"{tag} {M.CHIP_NAME[chip]} chip",
                                  "display differs after every byte was written back", case,
                                  f"{len(res['final']) // 3} pixels differ after restoring page {page}"))
    if any("error" in r or r.get("state_bad") for r in results):
        return
    none_px = [(r_, c_) for r_ in range(32) for c_ in range(240) if (r_, c_) not in hits]
    multi_px = sorted(p for p, bits in hits.items() if len(bits) > 1)
    outside = sorted(p for p in hits if not (0 <= p[0] < 32 and 0 <= p[1] < 240))
    if none_px:
        rep.violate(Violation("pixel-map:pixel-coverage", tag, "a visible pixel is determined by no VRAM bit", case,
                              f"{len(none_px)} pixels, e.g. {none_px[:4]}"))
    if multi_px:
        p = multi_px[0]
        rep.violate(Violation("pixel-map:pixel-coverage", tag, "a visible pixel is determined by more than one VRAM bit",
                              case, f"{len(multi_px)} pixels, e.g. {p} <- {hits[p][:3]}"))
    if outside:
        rep.violate(Violation("pixel-map:pixel-coverage", tag, "pixel outside 32x240 reported", case, str(outside[:4])))
    rep.extra.setdefault("pixel_map_configs", [])
    rep.extra["pixel_map_configs"].append({
        "impl": impl, "base": list(base), "starts": list(starts), "vram_bits_probed": len(single),
        "visible_bits": sum(1 for v in single.values() if v), "pixels_hit_exactly_once": sum(1 for b in hits.values() if len(b) == 1)})


def pix_configs(ctx: Ctx) -> List[Dict[str, Any]]:
    s = ctx.seed
    sa, sb = 1 + mix32(s, 1) % 63, 1 + mix32(s, 2) % 63
    s8 = 8 * (1 + mix32(s, 3) % 7)
    h = ["hash", mix32(s, 0xBA5E)]
    cfgs = [
        {"impl": "py", "base": h, "starts": [0, 0]},
        {"impl": "rs", "base": h, "starts": [0, 0]},
        {"impl": "rs", "base": h, "starts": [sa, sb]},
        {"impl": "rs", "base": ["zeros"], "starts": [s8, 0]},
        {"impl": "py", "base": ["ones"], "starts": [sb, sa]},
    ]
    if not ctx.quick:
        h2 = ["hash", mix32(s, 0xBA5F)]
        cfgs += [
            {"impl": "py", "base": ["zeros"], "starts": [0, 0]},
            {"impl": "py", "base": ["ones"], "starts": [0, 0]},
            {"impl": "py", "base": h2, "starts": [sa, s8]},
            {"impl": "rs", "base": ["ones"], "starts": [0, 0]},
            {"impl": "rs", "base": ["zeros"], "starts": [0, 0]},
        ]
        for k in range(64):
            cfgs.append({"impl": "rs", "base": h2, "starts": [k, (k * 5 + 3) % 64]})
    return cfgs


def run_pixmap(ctx: Ctx, cfgs: List[Dict[str, Any]], rep: Report) -> None:
    tasks = [dict(cfg, chip=chip, page=page) for cfg in cfgs for chip in (0, 1) for page in range(8)]
    # python slices are ~100x slower than rust ones: put them first so the pool balances
    order = sorted(range(len(tasks)), key=lambda i: (tasks[i]["impl"] != "py", i))
    results_o = ctx.pmap(_pix_task, [tasks[i] for i in order])
    results: List[Any] = [None] * len(tasks)
    for i, r in zip(order, results_o):
        results[i] = r
    for k, cfg in enumerate(cfgs):
        judge_pixmap(cfg, results[k * 16:(k + 1) * 16], rep)


# ---------------------------------------------------------------------------------------------------------
# Entry points
# ---------------------------------------------------------------------------------------------------------

def run(ctx: Ctx) -> Report:
    rsclient.build()
    nshards = 16 if ctx.quick else 64
    per = 100 if ctx.quick else 160
    reports = ctx.pmap(_hist_shard, [(i, per, ctx.seed, ctx.tier) for i in range(nshards)])
    rep = ctx.merge_reports(reports)
    t1 = time.time()
    prep = Report()
    run_pixmap(ctx, pix_configs(ctx), prep)
    if prep.evaluations and len(prep.samples) < 2:
        cfg0 = prep.extra.get("pixel_map_configs", [{}])[0]
        prep.samples.append({"part": "pixel-map", "config": cfg0})
    rep.merge(prep)
    rep.extra["pixel_map_configs"] = prep.extra.get("pixel_map_configs", [])
    rep.extra["pixel_map_enumeration_complete"] = True
    rep.extra["pixel_map_wall_s"] = round(time.time() - t1, 1)
    rep.rule = RULE
    rep.exhaustive = False
    rep.assumptions = list(ASSUMPTIONS)
    return rep


def _judge_case(case: Dict[str, Any]) -> List[Violation]:
    ops = [list(o) for o in case["ops"]]
    if case.get("kind") == "projection":
        return judge_projection(ops, [case["path"]])
    opts = case_opts(case)
    rr = rs_run([rs_req(ops, opts)])[0]
    viols, _labels, _nt, _info = judge_history(ops, rr, opts)
    return viols


def replay(ctx: Ctx, case: Dict[str, Any]) -> List[Violation]:
    rsclient.build()
    if case.get("kind") == "pixmap":
        rep = Report()
        cfg = {"impl": case["impl"], "base": case["base"], "starts": case["starts"]}
        run_pixmap(ctx, [cfg], rep)
        return rep.violations
    return _judge_case(case)


def shrink(ctx: Ctx, v: Violation) -> Violation:
    """ddmin over the op list of a history witness, then shorter bulk runs (bounded); pixel-map witnesses are
    already minimal configs."""
    case = v.case
    if not isinstance(case, dict) or case.get("kind") not in ("history", "projection"):
        return v
    key = v.key()
    ops = [list(o) for o in case["ops"]]
    t0 = time.time()

    def fails(cand: List[List[Any]]) -> Optional[Violation]:
        if not cand:
            return None
        for x in _judge_case(dict(case, ops=cand)):
            if x.key() == key:
                return x
        return None

    best = v
    n = 2
    while len(ops) >= 2 and time.time() - t0 < 40:
        chunk = max(1, len(ops) // n)
        reduced = False
        for start in range(0, len(ops), chunk):
            cand = ops[:start] + ops[start + chunk:]
            got = fails(cand)
            if got is not None:
                ops = [list(o) for o in got.case["ops"]]
                best = got
                n = max(n - 1, 2)
                reduced = True
                break
            if time.time() - t0 >= 40:
                break
        if not reduced:
            if chunk == 1:
                break
            n = min(len(ops), n * 2)
    # shorter runs: halve, then decrement, the length of every bulk verb while the fingerprint stays
    for k in range(len(ops)):
        if ops[k][0] not in ("W", "R"):
            continue
        pos = 4 if ops[k][0] == "W" else 2
        for shrinker in (lambda m: m // 2, lambda m: m - 1):
            while ops[k][pos] > 1 and time.time() - t0 < 55:
                cand = [list(o) for o in ops]
                cand[k][pos] = shrinker(ops[k][pos])
                if cand[k][pos] < 1:
                    break
                got = fails(cand)
                if got is None or len(got.case["ops"]) != len(cand):
                    break
                ops = [list(o) for o in got.case["ops"]]
                best = got
    return best
