"""C09 -- disassembled text reassembles to an equivalent instruction.

Generated domain: decoder-accepted encodings: every (prefix|none, opcode) pair; the second byte enumerated over
the decoder-legal mode bytes (mode-byte opcodes) or drawn from boundary values / named internal-register
addresses / hash (data-byte opcodes); remaining operand bytes likewise; plus, for every opcode with >= 2 operand
bytes, whole-operand boundary patterns (all operand bytes from one 24-bit word: FFFF.., 0000.., 8000, 10000 ...).
The 16 prefix variants of one (opcode, operand bytes) group share their operand bytes.  Unfused PRE and '???' are
excluded.  The .ORG address of the assembled line is generated too: page 0..15 x in-page offset (boundaries, hash,
'instruction ends on the last byte of the page').

Oracle (property statement, clause by clause):
  text      := rendered token stream, integer/address tokens as 0x.. literals (sign kept outside), everything
               else (register names, named internal registers, punctuation) verbatim
  assemble  : Assembler().assemble(".ORG a\n" + text) succeeds
  redecode  : the emitted bytes are accepted by the decoder
  length    : the decoder consumes exactly the emitted bytes (never truncated / over-long)
  text-roundtrip : text(emitted) == text        (same mnemonic, same addressing modes, same values)
  behaviour : original and emitted bytes executed (Python emulator) from one generated state, placed so that
              both END at the same address, give equal registers, flags, PC, power state and memory effects
  idempotence : assemble(text(emitted)) == emitted
  listing   : (phase 2) texts that round-tripped alone, composed into listings of distinct lines sharing an operand
              text / a mnemonic, several listings per Assembler object: bytes == concatenation of the stand-alone bytes;
              before every second listing the object is first given a program it REJECTS (generated kind: symbol whose
              value does not fit / undefined symbol / wide literal / a disassembler text the assembler rejects / off-page
              near jump / syntax error / directive with a bad last argument / duplicate label; generated position of
              the poisoned statement among good lines): a rejected program leaves no trace in the object
  startup   : (phase 4, c09_startup.py) in PRISTINE processes: a second Assembler assembling a disassembler text while
              another thread is parked (harness-owned schedule, generated line) inside the first Assembler() + assemble
              of the process, or after that first activity was abandoned by an asynchronous exception at a generated
              line: same result as the unscheduled run
  sweep     : (phase 3) the text that is fed to the assembler is the text of THAT instruction: code buffers of 6
              accepted instructions (neighbours related by generated relations: same opcode with other operand bytes /
              one operand byte changed / other prefix, same opcode family, identical, unrelated) are disassembled by a
              linear sweep keeping every decoded instruction alive; each line -- rendered at once, and rendered again
              after the whole buffer was decoded -- and its lifted IL must equal those of the same bytes decoded alone
Byte equality with the original is NOT required (redundant prefixes, don't-care bits).
"""

from __future__ import annotations

import re
import time
import zlib
from typing import Any, Dict, List, Optional, Sequence, Tuple

from ..core import jhash, Ctx, HarnessError, Report, Violation, mix32
from .. import gen_enc as G
from .. import gen_state as S
from .. import pycore
from .. import textparse as TP

PROPERTY = "C09"
RULE = ("decoder-accepted encodings: every (prefix|none, opcode) pair x second byte (all decoder-legal mode bytes "
        "in thorough / a seeded subset in quick for mode-byte opcodes; boundary values, named internal-register "
        "addresses and hash values for data-byte opcodes) x hash/boundary operand bytes, plus whole-operand boundary "
        "patterns (all operand bytes FF / 00 / 16-, 20-, 24-bit edge words) for every opcode with >= 2 operand bytes; "
        "x a generated .ORG address (page 0..15, in-page offset boundary/hash/ending on the page's last byte); each "
        "rendered to text "
        "(hex literals, names), assembled, re-decoded, executed against the original from one generated state, "
        "re-assembled. Non-trivial = the instruction has >= 1 operand; distinct = (prefix, mnemonic, operand-mode "
        "signature) i.e. distinct text shapes x prefix. Phase 2: listings of 6 distinct stand-alone-good texts related "
        "by operand text / mnemonic, 8 listings per Assembler object, every second listing preceded by a program the "
        "assembler rejects (8 generated kinds x generated position of the poisoned statement; distinct = program text, "
        "counted only when really rejected); distinct = listing content. Phase 4: start-up schedules in pristine "
        "processes (first Assembler of the process: construct / construct + assemble a pool text) x (second Assembler "
        "assembling a pool text) x (parked at / abandoned at a generated traced line); distinct = (mode, A, B, line "
        "fraction). Phase 3: for every "
        "(prefix|none, opcode) code buffers of 6 accepted instructions, each related to its predecessor by a generated "
        "relation (same opcode + other operand bytes / exactly one operand byte changed / other prefix, same opcode "
        "family, identical, unrelated), disassembled by a linear sweep at a generated base address; distinct = buffer "
        "content.")

REG_FIELDS = ("BA", "I", "X", "Y", "U", "S", "PC")
POINTER_NAMES = ("BP", "PX", "PY")
REG_CLASS = {"A": "r1", "B": "r1", "IL": "r1", "IH": "r1", "F": "r1", "IMR": "r1",
             "BA": "r2", "I": "r2", "X": "r3", "Y": "r3", "U": "r3", "S": "r3"}
# bytes worth hitting as operand values: boundaries + addresses that have IMEMRegisters names
INTERESTING = (0x00, 0x01, 0x02, 0x0F, 0x10, 0x7F, 0x80, 0x81, 0xFE, 0xFF,
               0xD4, 0xD5, 0xDA, 0xDD, 0xDF, 0xE6, 0xE8, 0xEC, 0xED, 0xEE, 0xEF, 0xF0, 0xF1, 0xF2, 0xF5, 0xF7,
               0xFB, 0xFC, 0xFD)
TIME_BUDGET = {"quick": 240.0, "thorough": 1500.0}
# phases 2 and 4 need phase 1's results and therefore run late: each gets at least this long whatever phase 1 used up,
# so that a loaded box cannot silently drop a whole class (idle box: phase 2 needs ~4 s / 25 s, phase 4 ~3 s / 25 s)
LATE_PHASE_GRACE = {"quick": 60.0, "thorough": 300.0}


# ----------------------------------------------------------------------------------------------------------
# text and operand-mode signatures (token kinds + punctuation only)
# ----------------------------------------------------------------------------------------------------------

def mk_text(toks: Sequence[TP.Tok]) -> str:
    """The statement's normalisation: numbers as hexadecimal literals, everything else verbatim."""
    out: List[str] = []
    for k, t in toks:
        if k == "Int":
            if t[:1] in "+-":
                out.append(t[0] + "0x" + t[1:])
            else:
                out.append("0x" + t)
        elif k == "Addr":
            out.append("0x" + t)
        else:
            out.append(t)
    return "".join(out)


def op_sig(op: Sequence[TP.Tok]) -> str:
    """'(BP+n)', '(nm)', '[r3++]', '[(PX+n)-n]', 'r1', 'n', '+n', '[lmn]' ... (r1/r2/r3 = register width)"""
    out: List[str] = []
    op = list(op)
    for i, (k, t) in enumerate(op):
        if k == "Int":
            out.append((t[0] if t[:1] in "+-" else "") + "n")
        elif k == "Addr":
            out.append("lmn")
        elif k == "Reg":
            out.append(REG_CLASS.get(t, "r"))
        elif k == "Text":
            if t in ("++", "--"):
                out.append(t)
            elif t in POINTER_NAMES and i + 1 < len(op) and op[i + 1][0] == "Sep":
                out.append(t)          # BP+.. / PX+.. / PY+..: pointer-relative mode
            elif t in POINTER_NAMES and i > 0 and op[i - 1][0] == "Sep":
                out.append(t)          # ..+PX / ..+PY
            else:
                out.append("nm")       # a named internal register used as a direct address, e.g. (IMR), (BP)
        else:
            out.append(t.strip() or t)
    return "".join(out)


def split_ops(toks: Sequence[TP.Tok]) -> List[List[TP.Tok]]:
    """Operand token lists, split at the ', ' separators (the '+' separators inside operands are kept)."""
    ops: List[List[TP.Tok]] = []
    cur: List[TP.Tok] = []
    seen = False
    for k, t in toks:
        if k == "Instr" and not seen:
            seen = True
            continue
        if k == "Sep" and "," in t:
            ops.append(cur)
            cur = []
            continue
        if k == "Sep" and not t.strip():
            continue
        cur.append((k, t))
    if cur:
        ops.append(cur)
    return ops


def signature(toks: Sequence[TP.Tok]) -> Tuple[str, List[str], List[str]]:
    """(mnemonic, [operand-mode signature], [operand text])"""
    ops = split_ops(toks)
    return TP.mnemonic(list(toks)), [op_sig(o) for o in ops], [mk_text(o) for o in ops]


def where_of(toks: Sequence[TP.Tok]) -> str:
    mn, sigs, _ = signature(toks)
    return (mn + " " + ",".join(sigs)).strip()


def excluded(toks: Sequence[TP.Tok]) -> bool:
    mn = TP.mnemonic(list(toks))
    return mn.startswith("???") or mn.startswith("PRE") or mn == "?"


# ----------------------------------------------------------------------------------------------------------
# assembler access
# ----------------------------------------------------------------------------------------------------------

_ASM_CACHE: Dict[Tuple[str, int], Tuple[Optional[bytes], Optional[str]]] = {}


def norm_error(msg: str) -> str:
    """Assembler error text -> value-free class string."""
    msg = msg.split("\n")[0]
    msg = re.sub(r"^on line \d+: ", "", msg)
    msg = re.sub(r" for [A-Z]+:", ":", msg)
    msg = re.sub(r"0x[0-9A-Fa-f]+|\b\d+\b", "N", msg)
    msg = re.sub(r"\[.*", "[..]", msg)           # operand reprs
    msg = re.sub(r"'[^']*'", "'..'", msg)
    msg = re.sub(r"\s+", " ", msg).strip()
    return msg[:90]


def assemble_raw(text: str, addr: int) -> Tuple[Optional[bytes], Optional[str]]:
    from sc62015.pysc62015.sc_asm import Assembler, AssemblerError

    try:
        binfile = Assembler().assemble(f".ORG 0x{addr:05X}\n{text}\n")
        return bytes(binfile.as_binary()), None
    except AssemblerError as exc:
        return None, "AssemblerError: " + norm_error(str(exc))
    except Exception as exc:  # noqa: BLE001 - any other exception escaping the assembler is also "does not succeed"
        return None, f"{type(exc).__name__}: " + norm_error(str(exc))


def page_of(text: str) -> int:
    """The 64 KiB page (1..14) a text is assembled and executed in: a stable function of the text, so that
    results can be cached per text while the pages still vary over the run."""
    return 1 + zlib.crc32(text.encode()) % 14


# in-page offsets of the .ORG line (the page and the offset are generated dimensions, see org_of)
ORG_OFFSETS = (0x0000, 0x0001, 0x00FF, 0x0100, 0x7FFF, 0x8000, 0xFF00, 0xFFF0)


def org_of(text: str, seed: int, fit_len: int) -> Tuple[int, str]:
    """The .ORG address a text is assembled at during exploration, and its class label.  A function of (seed, text,
    fit_len) only, so results stay cacheable per text.  Page 0..15; in-page offset from ORG_OFFSETS, a hash value,
    or 'exact fit': the instruction (fit_len = its decoded length without a redundant prefix) ends on the last
    byte of the page."""
    h = mix32(seed, zlib.crc32(text.encode()), 41)
    page = h & 0xF
    sel = (h >> 4) % (len(ORG_OFFSETS) + 4)
    if sel < len(ORG_OFFSETS):
        off, lab = ORG_OFFSETS[sel], "boundary-offset"
    elif sel < len(ORG_OFFSETS) + 2:
        off, lab = 0x10000 - fit_len, "exact-fit-at-page-end"
    else:
        off, lab = min((h >> 12) & 0xFFFF, 0xFFF0), "hash-offset"
    return (page << 16) | off, lab


def default_org(state: Optional[Dict[str, Any]]) -> int:
    """Origin used when a saved case carries none (cases saved before the origin became a generated dimension)."""
    return (state or {}).get("end", 0x1000) & 0xF0000


def assemble(text: str, addr: int) -> Tuple[Optional[bytes], Optional[str], bool]:
    """Cached on (text, .ORG address)."""
    key = (text, addr)
    hit = _ASM_CACHE.get(key)
    if hit is not None:
        return hit[0], hit[1], True
    res = assemble_raw(text, addr)
    if len(_ASM_CACHE) > 200000:
        _ASM_CACHE.clear()
    _ASM_CACHE[key] = res
    return res[0], res[1], False


# ----------------------------------------------------------------------------------------------------------
# behaviour comparison
# ----------------------------------------------------------------------------------------------------------

def make_state(st: S.Stream, code: bytes, mn: str) -> Tuple[Dict[str, Any], List[str]]:
    """A machine state independent of the encoding's length: registers, fill seed, BP/PX/PY, and the address
    END at which the instruction under test ends (both encodings are placed so that they end there)."""
    case, labels = S.gen_state(st, code, mn, imax=12)
    regs = dict(case["regs"])
    if mn == "WAIT":
        regs["I"] = regs["I"] & 0x1F  # prefixed WAIT is executed as an LLIL loop of I iterations
    end = (regs.pop("PC") + len(code)) & 0xFFFFF
    imem = [[a, v] for a, v in case["mem"] if a >= S.IMEM]
    state = {"regs": regs, "seed": case["seed"], "imem": imem, "end": end}
    return state, labels


def case_for(state: Dict[str, Any], code: bytes) -> Dict[str, Any]:
    pc = (state["end"] - len(code)) & 0xFFFFF
    regs = dict(state["regs"])
    regs["PC"] = pc
    mem = [[(pc + i) & 0xFFFFF, b] for i, b in enumerate(code + G.NOP_PAD)]
    mem += [list(x) for x in state["imem"]]
    return {"regs": regs, "power": "running", "seed": state["seed"], "mem": mem, "steps": 1}


def _window(state: Dict[str, Any], la: int, lb: int) -> Tuple[int, int]:
    end = state["end"]
    return end - max(la, lb) - 8, end + 24


def danger_pointers(state: Dict[str, Any], codes: Sequence[bytes]) -> List[int]:
    """Every external address an instruction made of these bytes could form from this state: pointer
    registers, 20-bit immediates inside the code, 3-byte pointers held in internal memory."""
    out = [state["regs"][r] & 0xFFFFF for r in ("X", "Y", "U", "S")]
    for code in codes:
        padded = code + bytes(3)
        for i in range(len(code)):
            out.append((padded[i] | (padded[i + 1] << 8) | (padded[i + 2] << 16)) & 0xFFFFF)
    hm = pycore.HashMemory(state["seed"], {pycore.canon(a): v for a, v in state["imem"]})
    for n in range(256):
        a = S.IMEM + n
        out.append((hm.peek(a) | (hm.peek(S.IMEM + ((n + 1) & 0xFF)) << 8)
                    | (hm.peek(S.IMEM + ((n + 2) & 0xFF)) << 16)) & 0xFFFFF)
    return out


def settle_end(state: Dict[str, Any], codes: Sequence[bytes], st: S.Stream) -> bool:
    """Move END until no formable data address lies within 0x600 of the code (so that data accesses never see
    the instruction bytes, which legitimately differ between the two encodings)."""
    dang = danger_pointers(state, codes)
    for _ in range(16):
        end = state["end"]
        if (end & 0xFFFF) > 0xFF00 or (end & 0xFFFF) < 0x0100:
            ok = False
        else:
            ok = all(abs(d - end) > 0x600 for d in dang) and end < 0xFF000
        if ok:
            return True
        state["end"] = (end & 0xF0000) | (0x0100 + st.below(0xFE00))
    return False


def _fetch_reads(case: Dict[str, Any], lo: int, hi: int) -> int:
    emu, mem = pycore.make_emulator(case, log_reads=True)
    try:
        emu.decode_instruction(case["regs"]["PC"])
    except BaseException:  # noqa: BLE001
        pass
    return sum(1 for a in mem.reads if lo <= a < hi) + 1  # +1: the executor re-reads the opcode byte


def run_one(case: Dict[str, Any]) -> Dict[str, Any]:
    res = pycore.run_case(case, want_reads=True)
    return res["steps"][0] if res["steps"] else {"err": "no step executed"}


def touches_window(case: Dict[str, Any], step: Dict[str, Any], lo: int, hi: int) -> bool:
    for a, _ in step.get("writes", []):
        if lo <= a < hi:
            return True
    n = sum(1 for a in step.get("reads", []) if lo <= a < hi)
    return n > _fetch_reads(case, lo, hi)


def compare_behaviour(sa: Dict[str, Any], sb: Dict[str, Any], state: Dict[str, Any]) -> Tuple[List[str], List[str]]:
    diffs: List[str] = []
    details: List[str] = []
    if "err" in sb:
        return ["exception"], [f"reassembled bytes raise {sb['err']}"]
    for r in REG_FIELDS:
        a, b = sa["regs"][r], sb["regs"][r]
        if a != b:
            diffs.append(r)
            details.append(f"{r} orig={a:#x} reasm={b:#x}")
    fa, fb = sa["regs"]["F"], sb["regs"]["F"]
    if fa != fb:
        diffs.append("F")
        details.append(f"F orig={fa:#04x} reasm={fb:#04x}")
    if sa["power"] != sb["power"]:
        diffs.append("power")
        details.append(f"power orig={sa['power']} reasm={sb['power']}")
    init = pycore.HashMemory(state["seed"], {pycore.canon(a): v for a, v in state["imem"]})
    wa = pycore.final_writes([sa])
    wb = pycore.final_writes([sb])
    md = []
    for addr in sorted(set(wa) | set(wb)):
        va = wa.get(addr, init.peek(addr))
        vb = wb.get(addr, init.peek(addr))
        if va != vb:
            md.append((addr, va, vb))
    if md:
        space = "imem" if all(m[0] >= S.IMEM for m in md) else ("emem" if all(m[0] < S.IMEM for m in md) else "mixed")
        diffs.append(f"mem[{space}]")
        details.append("mem " + ", ".join(f"{a:#x}: orig={x:#04x} reasm={y:#04x}" for a, x, y in md[:6]))
    return diffs, details


# ----------------------------------------------------------------------------------------------------------
# the verdict function (shared by exploration, replay and shrinking)
# ----------------------------------------------------------------------------------------------------------

def text_diff(ta: Sequence[TP.Tok], tb: Sequence[TP.Tok], verb: str = "reassembled as") -> List[str]:
    """One symptom per differing feature (mnemonic / operand count / each operand), so that a root cause that
    affects one operand slot is one bucket whatever happens in the other slot."""
    ma, sa, xa = signature(ta)
    mb, sb, xb = signature(tb)
    parts: List[str] = []
    if ma != mb:
        parts.append(f"mnemonic {ma} {verb} {mb}")
    if len(sa) != len(sb):
        parts.append(f"operand count {len(sa)} {verb} {len(sb)}")
    else:
        for i, (p, q) in enumerate(zip(sa, sb)):
            if p != q:
                parts.append(f"op{i + 1} {p} {verb} {q}")
            elif xa[i] != xb[i]:
                parts.append(f"op{i + 1} {p} value changed")
    return parts or ["spacing/other"]


def byte_delta(b1: bytes, b2: bytes) -> str:
    """Value-free description of how two encodings differ."""
    def split(b: bytes) -> Tuple[Optional[int], bytes]:
        return (b[0], b[1:]) if b and b[0] in G.PRE_OPCODES else (None, b)

    p1, r1 = split(b1)
    p2, r2 = split(b2)
    parts: List[str] = []
    if p1 != p2:
        f = lambda p: "none" if p is None else f"{p:02X}"  # noqa: E731
        parts.append(f"PRE {f(p1)}->{f(p2)}")
    if r1[:1] != r2[:1]:
        parts.append("opcode byte changes")
    if len(r1) != len(r2):
        parts.append(f"operand length {len(r1) - 1}->{len(r2) - 1}")
    elif r1[1:] != r2[1:]:
        parts.append("operand bytes change")
    return ", ".join(parts) or "identical"


def verdict(code: bytes, state: Optional[Dict[str, Any]], recheck: bool = False,
            st: Optional[S.Stream] = None, org: Optional[int] = None,
            seed: Optional[int] = None) -> Tuple[List[Violation], List[str], Dict[str, Any]]:
    """Returns (violations, labels, info). `code` must be one decoder-accepted instruction (exact length).
    org = address of the .ORG line; exploration passes `seed` instead and the origin is generated (org_of)."""
    labels: List[str] = []
    info: Dict[str, Any] = {"code": code.hex()}
    r = TP.tokens(code + G.NOP_PAD)
    if r is None or r[1] != len(code) or excluded(r[0]):
        return [], ["not-an-accepted-instruction"], info
    ta, la = r
    text = mk_text(ta)
    where = where_of(ta)
    info.update(text=text, where=where)
    if state is not None and st is not None:
        # exploration: the instruction lives in the page derived from its text (replay keeps the saved address)
        state = dict(state)
        state["end"] = (page_of(text) << 16) | (state["end"] & 0xFFFF)
    if org is None and seed is not None:
        org, olab = org_of(text, seed, len(code) - (1 if code[0] in G.PRE_OPCODES else 0))
        labels += [f"org:{olab}", "org:page-0" if org < 0x10000 else ("org:page-15" if org >= 0xF0000 else "org:page-1..14")]
    if org is None:
        org = default_org(state)
    info["org"] = org
    saved = {"code": code.hex(), "state": state, "org": org}
    out: List[Violation] = []

    b1, err, hit = assemble(text, org)
    labels.append("asm-cache-hit" if hit else "asm-call")
    if err is not None or b1 is None:
        out.append(Violation("assemble", where, err or "no output", saved, f"{code.hex()} '{text}' at .ORG {org:#07x} -> {err}"))
        return out, labels + ["result:assemble-fails"], info
    info["reassembled"] = b1.hex()
    labels.append("bytes:same" if b1 == code else "bytes:differ")
    if len(b1) == 0:
        out.append(Violation("assemble", where, "no bytes emitted", saved, f"{code.hex()} '{text}' -> empty output"))
        return out, labels + ["result:assemble-fails"], info

    r1 = TP.tokens(b1 + G.NOP_PAD)
    if r1 is None:
        out.append(Violation("redecode", where, "emitted bytes rejected by the decoder", saved,
                             f"{code.hex()} '{text}' -> {b1.hex()} not decodable"))
        return out, labels + ["result:redecode-fails"], info
    tb, lb = r1
    text1 = mk_text(tb)
    info["text1"] = text1
    length_ok = lb == len(b1)
    if not length_ok:
        d = len(b1) - lb
        sym = (f"truncated: emitted {-d} byte(s) fewer than the decoder consumes" if d < 0
               else f"over-long: emitted {d} byte(s) more than the decoder consumes")
        out.append(Violation("length", where, sym, saved,
                             f"{code.hex()} '{text}' -> {b1.hex()} ({len(b1)} bytes) but decodes with length {lb} as '{text1}'"))
        # the decoder ran into the padding: the text / behaviour of such a decode say nothing more
        return out, labels + ["result:length"], info
    text_ok = text1 == text
    if not text_ok:
        for sym in text_diff(ta, tb):
            out.append(Violation("text-roundtrip", where, sym, saved,
                                 f"{code.hex()} '{text}' -> {b1.hex()} -> '{text1}'"))

    # idempotence: a second disassemble/assemble round leaves the bytes unchanged
    if not text_ok:
        b2, err2, _ = assemble(text1, org)
        if err2 is not None:
            out.append(Violation("idempotence", where, "second round: " + err2, saved,
                                 f"{b1.hex()} '{text1}' -> {err2}"))
        elif b2 != b1:
            out.append(Violation("idempotence", where, "second round changes the bytes: " + byte_delta(b1, b2 or b""), saved,
                                 f"{b1.hex()} '{text1}' -> {b2.hex() if b2 else None}"))
    elif recheck:
        b2, err2 = assemble_raw(text, org)
        labels.append("idempotence-recheck")
        if err2 is not None or b2 != b1:
            out.append(Violation("idempotence", where, "same text assembles differently the second time", saved,
                                 f"'{text}' -> {b1.hex()} then {b2.hex() if b2 else err2}"))

    # behaviour: only meaningful when the text survived (otherwise it is a consequence already reported)
    if state is not None and text_ok:
        if b1 == code:
            labels.append("behaviour:identical-bytes")
        else:
            state = dict(state)
            if st is not None:
                if not settle_end(state, [code, b1], st):
                    labels.append("behaviour:skipped-no-safe-address")
                    return out, labels, info
                saved["state"] = state
            ca, cb = case_for(state, code), case_for(state, b1)
            sa = run_one(ca)
            if "err" in sa:
                labels.append("behaviour:skipped-original-raises")
            else:
                sb = run_one(cb)
                lo, hi = _window(state, len(code), len(b1))
                if touches_window(ca, sa, lo, hi) or ("err" not in sb and touches_window(cb, sb, lo, hi)):
                    labels.append("behaviour:skipped-data-access-near-code")
                else:
                    labels.append("behaviour:compared")
                    diffs, details = compare_behaviour(sa, sb, state)
                    if diffs:
                        opc = code[1] if code[0] in G.PRE_OPCODES else code[0]
                        opc2 = b1[1] if (b1 and b1[0] in G.PRE_OPCODES and len(b1) > 1) else (b1[0] if b1 else 0)
                        out.append(Violation("behaviour", f"{where} [opcode {opc:02X}->{opc2:02X}]", "differs: " + ",".join(diffs), saved,
                                             f"{code.hex()} vs {b1.hex()} ('{text}'): " + "; ".join(details)))
    if not out:
        labels.append("result:ok")
    else:
        labels.extend(sorted({"result:" + v.subcheck for v in out}))
    return out, labels, info


# ----------------------------------------------------------------------------------------------------------
# generation
# ----------------------------------------------------------------------------------------------------------

_B2_TABLE: Optional[Dict[int, List[int]]] = None
_B2_LEN: Dict[Tuple[int, int], int] = {}      # (opcode, b2) -> decoded length of the unprefixed form


def b2_table() -> Dict[int, List[int]]:
    """opcode -> second bytes the decoder accepts (asked of the decoder itself; independent of later bytes)."""
    global _B2_TABLE
    if _B2_TABLE is None:
        tab: Dict[int, List[int]] = {}
        for op in range(256):
            if G.is_pre(op):
                continue
            tab[op] = []
            for b2 in range(256):
                r = TP.tokens(bytes([op, b2, 0x11, 0x22, 0x33, 0x44, 0x55]) + G.NOP_PAD)
                if r is not None:
                    tab[op].append(b2)
                    _B2_LEN[(op, b2)] = r[1]
        _B2_TABLE = tab
    return _B2_TABLE


def pick_byte(h: int) -> int:
    if h % 3 == 0:
        return INTERESTING[(h >> 8) % len(INTERESTING)]
    return (h >> 16) & 0xFF


def groups(seed: int, tier: str) -> List[Tuple[int, int, bytes]]:
    """[(opcode, b2, tail)] -- each group is later expanded with all 16 prefix choices."""
    tab = b2_table()
    out: List[Tuple[int, int, bytes]] = []
    for op in sorted(tab):
        valid = tab[op]
        if not valid:
            continue
        if len(valid) < 256:
            if tier == "quick":
                n = 6
                b2s = [valid[mix32(seed, op, k, 1) % len(valid)] for k in range(n)]
            else:
                b2s = [b for b in valid for _ in range(3)]
        else:
            n = 6 if tier == "quick" else 40
            b2s = [pick_byte(mix32(seed, op, k, 2)) for k in range(n)]
        for k, b2 in enumerate(b2s):
            tail = bytes(pick_byte(mix32(seed, op, b2, k, j, 3)) for j in range(5))
            out.append((op, b2, tail))
    # appended after the per-byte groups so that those keep their indices (and thereby their generated states)
    out.extend(boundary_groups(seed, tier))
    return out


# Whole-operand boundary values: 24-bit little-endian words laid over ALL operand bytes at once (twice in a row), so
# that 16-bit / 20-bit / 24-bit operands take their extreme values as a whole (0xFFFF, 0x0000, 0x8000, 0x10000,
# 0xFFFFF ...), which independent per-byte draws reach with probability ~2e-4 per pair of bytes.
BOUNDARY_WORDS = (0xFFFFFF, 0x000000,                                   # always (also in quick)
                  0x00FFFF, 0xFF0000, 0x010000, 0xFFFFFE, 0x000001, 0x008000, 0x007FFF, 0x000100, 0x0000FF,
                  0x0FFFFF, 0x0F0000, 0x080000, 0x07FFFF)
N_BOUNDARY_ALWAYS = 2
N_BOUNDARY_QUICK_EXTRA = 2


def boundary_groups(seed: int, tier: str) -> List[Tuple[int, int, bytes]]:
    """[(opcode, b2, tail)] for every opcode that has a form with >= 2 operand bytes (asked of the decoder): the
    operand bytes are a BOUNDARY_WORDS pattern.  For mode-byte opcodes the second byte stays a decoder-legal mode
    byte (seeded pick among those giving >= 2 operand bytes) and the pattern covers the bytes after it."""
    tab = b2_table()
    out: List[Tuple[int, int, bytes]] = []
    for op in sorted(tab):
        valid = tab[op]
        if not valid:
            continue
        mode_byte = len(valid) < 256
        long_b2 = [b2 for b2 in valid if _B2_LEN[(op, b2)] >= 3]
        if not long_b2:
            continue
        words = list(BOUNDARY_WORDS[:N_BOUNDARY_ALWAYS])
        rest = list(BOUNDARY_WORDS[N_BOUNDARY_ALWAYS:])
        if tier == "quick":
            for k in range(N_BOUNDARY_QUICK_EXTRA):
                words.append(rest.pop(mix32(seed, op, k, 4) % len(rest)))
        else:
            words += rest
        for k, w in enumerate(words):
            pat = bytes([w & 0xFF, (w >> 8) & 0xFF, (w >> 16) & 0xFF]) * 2
            if mode_byte:
                out.append((op, long_b2[mix32(seed, op, k, 5) % len(long_b2)], pat[:5]))
            else:
                out.append((op, pat[0], pat[1:6]))
    return out


NEAR_FLOW = {"JP", "JPZ", "JPNZ", "JPC", "JPNC", "CALL"}
LISTING_LEN = 6
LISTINGS_PER_ASSEMBLER = 8


def is_reject(entry: Any) -> bool:
    """History entries are listings ([(text, hex of the stand-alone bytes)]) or rejected programs
    ({"reject": [source lines], "kind": generated kind})."""
    return isinstance(entry, dict)


def run_reject(asm: Any, entry: Dict[str, Any]) -> bool:
    """Feed a program the assembler is expected to reject to the (long-lived) Assembler object.  Returns True when it
    was rejected (anything raised); nothing is asserted about the program itself."""
    try:
        asm.assemble("\n".join(entry["reject"]) + "\n")
    except Exception:  # noqa: BLE001 - a rejection, whatever its class
        return True
    return False


def _history_json(history: List[Any]) -> List[Any]:
    return [dict(e) if is_reject(e) else [list(x) for x in e] for e in history]


def _attribute_reuse(history: List[Any]) -> Tuple[str, Optional[str]]:
    """For a listing (the last entry of `history`) that came out wrong on a used Assembler object: what about the
    object's past is needed for that?  Returns (symptom suffix, kind of the responsible rejected program or None).
    Decided by re-running on fresh objects: the history without its rejected programs (still wrong -> plain reuse),
    then the history without one rejected program at a time (the latest whose removal cures it is the responsible one)."""
    prior = history[:-1]
    if not prior:
        return " (first listing on a fresh Assembler)", None
    rejects = [i for i, e in enumerate(prior) if is_reject(e)]
    if rejects:
        stripped = [e for e in history if not is_reject(e)]
        if not listing_violations(stripped, attribute=False):
            kind = "several"
            for i in reversed(rejects):
                if not listing_violations(history[:i] + history[i + 1:], attribute=False):
                    kind = str(history[i].get("kind", "?"))
                    break
            return " (Assembler object reused after a rejected program)", kind
        prior = stripped[:-1]
    return (" (Assembler object reused)" if prior else " (first listing on a fresh Assembler)"), None


def listing_step(asm: Any, history: List[Any], attribute: bool = True) -> List[Violation]:
    """Assemble the LAST entry of `history` (a listing) on `asm`, an Assembler object that has already been given the
    earlier entries (listings, rejected programs) in order, and compare with the concatenation of its lines'
    stand-alone bytes."""
    from sc62015.pysc62015.sc_asm import AssemblerError

    out: List[Violation] = []
    li = len(history) - 1
    listing = history[li]
    src = ".ORG 0x01000\n" + "\n".join(t for t, _ in listing) + "\n"
    expected = b"".join(bytes.fromhex(h) for _, h in listing)
    case = {"kind": "listing", "history": _history_json(history)}
    where_all = "listing of texts that each assemble alone"

    def place(where: str, symptom: str) -> Tuple[str, str]:
        if not attribute:
            return where, symptom
        suffix, kind = _attribute_reuse(history)
        if kind is not None:
            return f"listing after a rejected program ({kind})", symptom + suffix
        return where, symptom + (suffix if where != where_all else "")

    try:
        got = bytes(asm.assemble(src).as_binary())
    except AssemblerError as exc:
        w, s = place(where_all, "listing rejected: " + norm_error(str(exc))[:80])
        out.append(Violation("listing", w, s, case, f"entry #{li} {[t for t, _ in listing]}: {str(exc)[:160]}"))
        return out
    except Exception as exc:  # noqa: BLE001
        w, s = place(where_all, f"listing raises {type(exc).__name__}")
        out.append(Violation("listing", w, s, case, f"entry #{li}: {type(exc).__name__}: {str(exc)[:160]}"))
        return out
    if got != expected:
        # first differing line
        off = 0
        bad = "?"
        for t, h in listing:
            n = len(h) // 2
            if got[off:off + n] != bytes.fromhex(h):
                r = TP.tokens(bytes.fromhex(h) + G.NOP_PAD)
                bad = where_of(r[0]) if r else t
                break
            off += n
        w, s = place(f"line {bad}", "bytes in a listing differ from the same line assembled alone")
        past = [("rejected program: " + " | ".join(e["reject"])) for e in history[:li] if is_reject(e)][-2:]
        out.append(Violation("listing", w, s, case,
                             f"entry #{li} {[t for t, _ in listing]}: got {got.hex()} expected {expected.hex()}"
                             + (f"; first differing line {bad}; the object's past includes {past}" if past else "")))
    return out


def listing_violations(history: List[Any], attribute: bool = True) -> List[Violation]:
    """history = what ONE Assembler object is given, in order: listings (lists of (text, hex of the bytes that text
    assembles to alone)) and programs the assembler rejects.  Every listing must assemble to the concatenation of its
    lines' stand-alone bytes: a disassembled listing is accepted text, and assembling it must not depend on the other
    lines of the listing or on what the Assembler object was given before -- accepted or rejected.  (Replay form: a
    fresh Assembler, the whole history; exploration keeps the object alive and calls listing_step once per new
    listing -- same sequence.)"""
    from sc62015.pysc62015.sc_asm import Assembler

    asm = Assembler()
    for li in range(len(history)):
        if is_reject(history[li]):
            run_reject(asm, history[li])
            continue
        out = listing_step(asm, history[: li + 1], attribute)
        if out:
            return out
    return []


# ---- programs the assembler rejects (phase 2: "a rejected program leaves no trace in the Assembler object") ----
REJECT_KINDS = (("symbol-out-of-range", 5), ("undefined-symbol", 1), ("literal-out-of-range", 1),
                ("rejected-disassembler-text", 2), ("off-page-near-jump", 1), ("syntax-error", 1),
                ("directive-bad-argument", 1), ("duplicate-label", 1))
_REJECT_WHEEL = tuple(k for k, w in REJECT_KINDS for _ in range(w))
REJECT_SYMBOL_VALUES = (0x100, 0x1FF, 0x1234, 0xFFFF, 0x10000, 0x12345, 0xFFFFF)
REJECT_WIDE_LITERALS = (0x100, 0x10000, 0x12345, 0x1000000, 0xFFFFFFFFF)
REJECT_BASES = (0x01000, 0x00000, 0x20000, 0x7ABC0)
_LITERAL = re.compile(r"0x[0-9A-Fa-f]+")


def compose_reject(pool: List[List[Any]], bad: List[str], upcoming: List[Tuple[str, str]], seed: int, hi: int,
                   slot: int) -> Dict[str, Any]:
    """A program the assembler is expected to reject: good lines (texts that round-trip alone) with ONE poisoned
    statement at a generated position.  The kind of poison is generated; the poisoned line is derived from a line of
    the listing that is assembled next (it shares instruction forms with it) or from any line of the pool:

    symbol-out-of-range   a numeric literal of a good line replaced by a symbol defined (before or after its use) as a
                          label at a generated address (0x100 .. 0xFFFFF): rejected in pass two, while the operand is
                          encoded, when the value does not fit the operand (an 8-bit immediate/offset, a 16-bit word)
    undefined-symbol      the same with no definition (pass two, before encoding)
    literal-out-of-range  the literal replaced by a wider literal (pass one)
    rejected-disassembler-text  a text the disassembler prints and the assembler rejected in phase 1 (pass one)
    off-page-near-jump    JP/CALL/JPcc to a symbol or literal on another 64 KiB page (pass two, before encoding)
    syntax-error          a mangled line (parser)
    directive-bad-argument  defb/defw/defl whose LAST argument is undefined (pass two, after the first were encoded)
    duplicate-label       (pass one)
    Whether the program really is rejected is observed, not assumed (labels reject:<kind>:rejected / :not-rejected)."""
    st = S.Stream(seed, 91, hi, slot)
    kind = st.choice(_REJECT_WHEEL)

    def good_line() -> str:
        return pool[st.below(len(pool))][0]

    def victim() -> Optional[str]:
        cands = [t for t, _ in upcoming if _LITERAL.search(t)] if st.chance(1, 2) else []
        if cands:
            return st.choice(cands)
        for _ in range(24):
            t = good_line()
            if _LITERAL.search(t):
                return t
        return None

    def with_literal_replaced(t: str, new: str) -> str:
        m = st.choice(list(_LITERAL.finditer(t)))
        return t[:m.start()] + new + t[m.end():]

    head = [f".ORG 0x{st.choice(REJECT_BASES):05X}"]
    before = [good_line() for _ in range(st.below(4))]
    after = [good_line() for _ in range(st.below(3))]
    tail: List[str] = []
    poison: List[str] = []

    def define(name: str, value: int) -> None:
        nonlocal head, tail
        if st.chance(1, 2):
            tail = [f".ORG 0x{value:05X}", f"{name}: NOP"]          # forward reference
        else:
            head = [f".ORG 0x{value:05X}", f"{name}: NOP"] + head     # defined before use (label and statement on one
            #                                                           line: a lone 'NAME:' line is attached to the NEXT statement by the grammar)

    if kind in ("symbol-out-of-range", "undefined-symbol", "literal-out-of-range"):
        t = victim()
        if t is None:
            kind = "syntax-error"
        elif kind == "literal-out-of-range":
            poison = [with_literal_replaced(t, f"0x{st.choice(REJECT_WIDE_LITERALS):X}")]
        else:
            poison = [with_literal_replaced(t, "VPSYM")]
            if kind == "symbol-out-of-range":
                define("VPSYM", st.choice(REJECT_SYMBOL_VALUES))
    if kind == "rejected-disassembler-text":
        if bad:
            poison = [bad[st.below(len(bad))]]
        else:
            kind = "syntax-error"
    if kind == "off-page-near-jump":
        mn = st.choice(sorted(NEAR_FLOW))
        far = (((st.below(15) + 1) << 16) | st.below(0x10000)) ^ 0x80000     # never page 0; base pages 0, 2, 7 may coincide
        if st.chance(1, 2):
            poison = [f"{mn} VPFAR"]
            define("VPFAR", far)
        else:
            poison = [f"{mn} 0x{far:05X}"]
    if kind == "directive-bad-argument":
        d = st.choice(("defb", "defw", "defl"))
        poison = [d + " " + ", ".join([f"0x{st.below(256):02X}" for _ in range(1 + st.below(3))] + ["VPUNDEF"])]
    if kind == "duplicate-label":
        poison = ["VPDUP:", good_line(), "VPDUP:"]
    if kind == "syntax-error":
        t = good_line()
        poison = [st.choice((t + " ,", t + " ]", "VP" + t, t.replace(",", " ", 1) if "," in t else t + " (", "(" + t))]
    return {"reject": head + before + poison + after + tail, "kind": kind}


def add_rejects(histories: List[List[Any]], pool: List[List[Any]], bad: List[str], seed: int) -> List[List[Any]]:
    """Before each listing of a history: with probability 1/2 one rejected program (1/8: two in a row).  The listings
    themselves and their order are unchanged."""
    out: List[List[Any]] = []
    for hi, history in enumerate(histories):
        new: List[Any] = []
        for li, listing in enumerate(history):
            h = mix32(seed, 90, hi, li)
            n = 0 if h % 2 else (2 if (h >> 1) % 4 == 0 else 1)
            for j in range(n):
                new.append(compose_reject(pool, bad, listing, seed, hi, li * 4 + j))
            new.append(listing)
        out.append(new)
    return out


N_LISTING_SEEDS = {"quick": 768, "thorough": 6144}


def compose_listings(pool: List[List[Any]], seed: int, tier: str) -> List[List[Tuple[str, str]]]:
    """Listings of LISTING_LEN DISTINCT lines that have something in common, because whatever one line of a listing
    (or one use of an Assembler object) can leak into another travels through something they share: a seed line plus
    lines with the same operand text but another instruction form (e.g. '[X++]' under another data width), lines
    with the same mnemonic but other operand forms (e.g. 'ADD A, IL' / 'ADD X, Y'), and hash-picked lines of the
    pool.  pool = the distinct texts that round-tripped alone in phase 1, in a deterministic order."""
    by_mn: Dict[str, List[int]] = {}
    by_op: Dict[str, List[int]] = {}
    for i, (_t, _h, mn, _w, optexts) in enumerate(pool):
        by_mn.setdefault(mn, []).append(i)
        for o in sorted(set(optexts)):
            by_op.setdefault(o, []).append(i)
    n = min(len(pool), N_LISTING_SEEDS[tier])
    out: List[List[Tuple[str, str]]] = []
    for k in range(n):
        si = (k * len(pool)) // n                       # seeds spread evenly over the pool
        text, _h, mn, where, optexts = pool[si]
        chosen = [si]

        def take(cands: List[int], salt: int, want: int) -> None:
            cands = [c for c in cands if c not in chosen]
            other_form = [c for c in cands if pool[c][3] != where]
            for src in (other_form, cands):
                j = 0
                while want > 0 and src and j < 8:
                    c = src[mix32(seed, si, salt, j) % len(src)]
                    j += 1
                    if c not in chosen:
                        chosen.append(c)
                        want -= 1

        for oi, o in enumerate(optexts):
            take(by_op.get(o, []), 10 + oi, 2 if len(optexts) == 1 else 1)
        take(by_mn.get(mn, []), 20, 2)
        take(list(range(len(pool))), 30, LISTING_LEN - len(chosen))
        chosen = chosen[:LISTING_LEN]
        order = sorted(range(len(chosen)), key=lambda q: mix32(seed, si, 40, q))
        out.append([(pool[chosen[q]][0], pool[chosen[q]][1]) for q in order])
    return out


def _listing_shard(task: Tuple[List[List[Any]], float]) -> Report:
    """task = (histories, deadline); each history (<= LISTINGS_PER_ASSEMBLER listings, rejected programs in between)
    runs on one Assembler."""
    from sc62015.pysc62015.sc_asm import Assembler

    histories, deadline = task
    rep = Report()
    for history in histories:
        if time.time() > deadline:
            rep.inconclusive.append("time budget reached; some listings not assembled (not a violation)")
            break
        asm = Assembler()
        uses = 0
        after_reject: Optional[str] = None
        for li in range(len(history)):
            entry = history[li]
            if is_reject(entry):
                rejected = run_reject(asm, entry)
                lab = f"reject:{entry['kind']}:{'rejected' if rejected else 'not-rejected'}"
                rep.case(("reject:" + jhash(entry["reject"])) if rejected else None, ["kind:rejected-program", lab],
                         {"rejected-program": entry["reject"], "kind": entry["kind"], "rejected": rejected}
                         if rep.labels.get(lab, 0) == 0 else None)
                if rejected:
                    after_reject = entry["kind"]
                continue
            lv = listing_step(asm, history[: li + 1])
            uses += 1
            for v in lv:
                rep.violate(v)
            distinct = len({t for t, _ in entry})
            rep.case("listing:" + jhash(entry),
                     ["kind:listing", f"listing-on-assembler-use:{uses}", f"listing-distinct-lines:{distinct}"]
                     + ([f"listing-right-after-rejected:{after_reject}"] if after_reject else [])
                     + (["result:listing"] if lv else []),
                     {"listing": [t for t, _ in entry]} if rep.labels.get("kind:listing", 0) % 50 == 1 else None)
            after_reject = None
            if lv:
                break       # the object's state after a failure says nothing more
    return rep


# ----------------------------------------------------------------------------------------------------------
# phase 4: the first Assembler of a process under a harness-owned schedule (see c09_startup.py)
# ----------------------------------------------------------------------------------------------------------

N_STARTUP = {"quick": 384, "thorough": 3072}
STARTUP_ORG = 0x01000


def compose_startup(pool: List[List[Any]], seed: int, idx: int) -> Dict[str, Any]:
    """Thread A: the first Assembler of the process (construction only, or construction + assembling a disassembler
    text); B: another Assembler + a disassembler text (same mnemonic as A's text 1/4 of the time); where A is parked /
    abandoned (kfrac: fraction of A's traced run) and how (preempt 3/4, interrupt 1/4) are generated."""
    st = S.Stream(seed, 95, idx)
    ta = pool[st.below(len(pool))]
    tb = pool[st.below(len(pool))]
    if st.chance(1, 4):
        same = [e for e in pool if e[2] == ta[2]]
        tb = same[st.below(len(same))]
    a: List[Any] = ["construct"] if st.chance(1, 4) else ["assemble", ta[0], STARTUP_ORG]
    return {"kind": "startup", "mode": "interrupt" if st.chance(1, 4) else "preempt", "a": a,
            "b": ["assemble", tb[0], STARTUP_ORG], "kfrac": st.below(10000), "expect_b": tb[1]}


def startup_violations(case: Dict[str, Any], zyg: Any) -> Tuple[List[Violation], List[str]]:
    from . import c09_startup as SU

    o = SU.startup_outcome(case, zyg)
    if "error" in o:
        raise HarnessError("startup schedule: " + str(o["error"]))
    out: List[Violation] = []
    mode = case["mode"]
    at = o.get("at") or "?"
    labels = [f"startup-mode:{mode}", f"startup-a:{case['a'][0]}", f"startup-parked-in:{at}"]
    shape_b = _asm_where(case.get("expect_b")) or "?"
    how = ("while another thread is suspended inside the first Assembler() of the process" if mode == "preempt"
           else "after the first Assembler() of the process was abandoned by an asynchronous exception")
    where = f"{how} [in {at}]"
    sched = f"A={case['a']} parked at traced line {o['k']}/{o['lines']} in {at}; B={case['b'][1]!r}"

    def differs(want: List[Any], got: List[Any], who: str) -> None:
        if got == want or got == ["blocked"]:
            return
        if got[0] == "rejected" and want[0] == "bytes":
            sym = f"{who}: text accepted in the unscheduled run is rejected: " + SU.norm_rejection(got)
        elif got[0] == "bytes" and want[0] == "bytes":
            sym = f"{who}: bytes differ from the unscheduled run"
        else:
            sym = f"{who}: outcome differs from the unscheduled run ({want[0]} -> {got[0]})"
        out.append(Violation("startup", where, sym, dict(case), f"{sched}: got {SU.describe(got)}, unscheduled {SU.describe(want)}"
                             f" [{shape_b}]"))

    differs(o["want_b"], o["got_b"], "second Assembler")
    if mode == "preempt":
        differs(o["want_a"], o["got_a"], "suspended thread")
    exp = case.get("expect_b")
    if exp is not None and o["want_b"] != ["bytes", exp]:
        out.append(Violation("startup", "first Assembler() + assemble of a process", "differs from the same text assembled in a "
                             "long-running process", dict(case), f"{case['b'][1]!r}: first use {SU.describe(o['want_b'])}, later {exp}"))
    if o["got_b"] == ["blocked"]:
        labels.append("startup:second-thread-blocked-until-resume")
    return out, labels


def _asm_where(hexbytes: Optional[str]) -> Optional[str]:
    if not hexbytes:
        return None
    r = TP.tokens(bytes.fromhex(hexbytes) + G.NOP_PAD)
    return where_of(r[0]) if r else None


def _startup_shard(task: Tuple[List[Tuple[int, Dict[str, Any]]], float]) -> Report:
    from . import c09_startup as SU

    cases, deadline = task
    rep = Report()
    zyg = SU.Zygote()
    try:
        for idx, case in cases:
            if time.time() > deadline:
                rep.inconclusive.append("time budget reached; some start-up schedules not run (not a violation)")
                break
            vs, labels = startup_violations(case, zyg)
            for v in vs:
                rep.violate(v)
            rep.case("startup:" + jhash([case["mode"], case["a"], case["b"], case["kfrac"]]),
                     ["kind:startup"] + labels + (["result:startup"] if vs else []),
                     {k: case[k] for k in ("mode", "a", "b", "kfrac")} if rep.labels.get("kind:startup", 0) % 20 == 3 else None)
    finally:
        zyg.close()
    return rep


# ----------------------------------------------------------------------------------------------------------
# phase 3: linear sweeps over code buffers (the text fed to the assembler is the text of THAT instruction)
# ----------------------------------------------------------------------------------------------------------

SWEEP_LEN = 6
SWEEPS_PER_HEAD = {"quick": 8, "thorough": 48}       # buffers per (prefix|none, opcode)
SWEEP_BASES = (0x01000, 0x00000, 0x2FFF4, 0x7ABCD, 0xE0100)
SWEEP_RELATIONS = ("same-opcode-fresh-operands",) * 3 + ("same-opcode-one-operand-byte-changed",) * 3 + \
                  ("same-opcode-other-prefix",) * 2 + ("same-family",) * 2 + ("identical",) + ("unrelated",) * 2
SWEEP_MAX_CONSEQUENCES = 24      # assembler calls spent per shard on describing what a wrong line reassembles to
_SWEEP_CONSEQ = [0]


def decode_obj(data: bytes, addr: int) -> Any:
    """The repository's decode + analyze (as textparse.tokens does it), returning the live instruction object."""
    from sc62015.pysc62015.instr import decode, OPCODES
    from sc62015.pysc62015.instr.opcodes import InvalidInstruction
    from binaryninja import InstructionInfo

    try:
        ins = decode(bytes(data), addr, OPCODES)
        if ins is None:
            return None
        ins.analyze(InstructionInfo(), addr)  # unfused PRE raises InvalidInstruction here
    except (AssertionError, InvalidInstruction):
        return None
    return ins


def render_toks(ins: Any) -> List[TP.Tok]:
    return [(type(t).__name__[1:], str(t)) for t in ins.render()]


def il_text(ins: Any, addr: int) -> str:
    """Lifted IL of a decoded instruction as text (label object identities renamed by first occurrence)."""
    from binja_test_mocks.mock_llil import MockLowLevelILFunction

    il = MockLowLevelILFunction()
    try:
        ins.lift(il, addr)
    except Exception as exc:  # noqa: BLE001 - what lifting raises is C04's subject; here only 'same as alone'
        return f"EXC {type(exc).__name__}"
    names: Dict[str, str] = {}

    def ren(m: Any) -> str:
        return names.setdefault(m.group(0), f"L{len(names)}")

    return re.sub(r"0x[0-9a-f]{8,16}", ren, "\n".join(repr(n) for n in il.ils))


def sweep_violations(codes: List[bytes], base: int) -> Tuple[List[Violation], List[str]]:
    """codes = instructions that are each accepted alone (exact length); the buffer is their concatenation (+ NOPs)
    placed at `base`.  (1) every instruction decoded alone (code + NOP padding, at the address it has in the buffer):
    text, IL; objects dropped.  (2) linear sweep decode(buffer[offset:]) keeping every instruction object alive, each
    rendered at once.  (3) after the whole buffer was decoded every kept object is rendered again and lifted.
    The statement speaks of 'its rendered text': the line printed for an instruction must be the line of its own
    bytes whatever follows it in the buffer and whatever was decoded before or after (fusion(): 'Bytes *after*
    instr1 ... must not affect instr1'), otherwise the text handed to the assembler describes another instruction."""
    labels: List[str] = []
    case = {"kind": "sweep", "codes": [c.hex() for c in codes], "addr": base}
    alone: List[Tuple[List[TP.Tok], str]] = []
    off = 0
    for c in codes:
        a = (base + off) & 0xFFFFF
        ins = decode_obj(c + G.NOP_PAD, a)
        if ins is None or int(ins.length()) != len(c):
            return [], ["sweep:skipped-not-accepted-alone"]
        toks = render_toks(ins)
        if excluded(toks):
            return [], ["sweep:skipped-not-accepted-alone"]
        alone.append((toks, il_text(ins, a)))
        off += len(c)
    ins = None
    buf = b"".join(codes) + G.NOP_PAD
    out: List[Violation] = []

    def describe(j: int, off: int) -> str:
        return f"instruction #{j} {codes[j].hex()} at +{off} of {b''.join(codes).hex()} @ {base:#07x}"

    def consequence(ctx: Sequence[TP.Tok], own: Sequence[TP.Tok], a: int) -> str:
        if _SWEEP_CONSEQ[0] >= SWEEP_MAX_CONSEQUENCES:
            return ""
        _SWEEP_CONSEQ[0] += 1
        b_ctx, e_ctx = assemble_raw(mk_text(ctx), a)
        b_own, e_own = assemble_raw(mk_text(own), a)
        f = lambda b, e: b.hex() if b is not None else str(e)  # noqa: E731
        return f"; the sweep's line assembles to {f(b_ctx, e_ctx)}, the instruction's own line to {f(b_own, e_own)}"

    kept: List[Tuple[int, int, int, Any, Optional[List[TP.Tok]]]] = []
    off = 0
    for j, c in enumerate(codes):
        a = (base + off) & 0xFFFFF
        where = where_of(alone[j][0])
        try:
            ins = decode_obj(buf[off:], a)
        except Exception as exc:  # noqa: BLE001
            out.append(Violation("sweep", where, f"decoding in a linear sweep raises {type(exc).__name__} although the bytes are accepted alone",
                                 case, f"{describe(j, off)}: {type(exc).__name__}: {str(exc)[:120]}"))
            break
        if ins is None:
            out.append(Violation("sweep", where, "rejected in a linear sweep although accepted alone", case, describe(j, off)))
            break
        if int(ins.length()) != len(c):
            out.append(Violation("sweep", where, "length in a linear sweep differs from the length decoded alone", case,
                                 f"{describe(j, off)}: length {int(ins.length())} in the sweep, {len(c)} alone"))
            break       # the sweep is mis-framed from here on
        try:
            imm: Optional[List[TP.Tok]] = render_toks(ins)
        except Exception as exc:  # noqa: BLE001
            imm = None
            out.append(Violation("sweep", where, f"rendering in a linear sweep raises {type(exc).__name__}", case,
                                 f"{describe(j, off)}: {str(exc)[:120]}"))
        kept.append((j, off, a, ins, imm))
        off += len(c)
    ins = None
    for j, off, a, obj, imm in kept:
        own, own_il = alone[j]
        where = where_of(own)
        if imm is None:
            continue
        if imm != own:
            for sym in text_diff(own, imm, "printed as"):
                out.append(Violation("sweep", where, "line printed in a linear sweep differs from the line of the same bytes decoded alone: " + sym,
                                     case, f"{describe(j, off)}: '{mk_text(imm)}' in the sweep, '{mk_text(own)}' alone"
                                     + consequence(imm, own, a)))
            continue
        try:
            late = render_toks(obj)
        except Exception as exc:  # noqa: BLE001
            out.append(Violation("sweep", where, f"rendering after the rest of the buffer was decoded raises {type(exc).__name__}", case,
                                 f"{describe(j, off)}: {str(exc)[:120]}"))
            continue
        if late != own:
            for sym in text_diff(own, late, "printed as"):
                out.append(Violation("sweep", where, "line printed after the rest of the buffer was decoded differs from the line of the same "
                                     "bytes decoded alone: " + sym,
                                     case, f"{describe(j, off)}: '{mk_text(late)}' when rendered last, '{mk_text(own)}' alone"
                                     + consequence(late, own, a)))
            continue
        il = il_text(obj, a)
        if il != own_il:
            out.append(Violation("sweep", where, "lifted IL of the instruction decoded in a linear sweep differs from the IL of the same bytes "
                                 "decoded alone", case, f"{describe(j, off)} '{mk_text(own)}': {il[:200]!r} vs alone {own_il[:200]!r}"))
    if len(kept) == len(codes):
        labels.append("sweep:complete")
    return out, labels


def family_ops(op: int, tab: Dict[int, List[int]]) -> List[int]:
    """Opcodes that share operand classes / table templates with `op` in the opcode map: the same row of eight, the
    neighbouring row (op ^ 8) and the load/store mirror (op ^ 0x20)."""
    cands = [(op & 0xF8) | k for k in range(8)] + [op ^ 0x08, op ^ 0x20]
    return [o for o in cands if o != op and tab.get(o)]


def sweep_instr(st: S.Stream, tab: Dict[int, List[int]], pre: Optional[int], op: int,
                like: Optional[bytes] = None) -> Optional[Tuple[bytes, Optional[int], int]]:
    """One accepted instruction (code, prefix, opcode) with head (pre, op): operand bytes fresh (boundary / named /
    hash values, mode bytes from the decoder-legal ones), or -- `like` given -- the operand bytes of `like` with
    exactly one of them changed.  Falls back to the unprefixed form where the prefixed one is not an accepted
    instruction (unfused PRE)."""
    valid = tab[op]
    mode_byte = len(valid) < 256
    for attempt in range(4):
        if like is not None and attempt < 2:
            body = like[1:] if like[0] in G.PRE_OPCODES else like
            operands = bytearray(body[1:] + bytes(6))[:6]
            n_op = max(1, len(body) - 1)
            i = st.below(n_op)
            old = operands[i]
            for _ in range(4):
                operands[i] = valid[st.below(len(valid))] if (i == 0 and mode_byte) else pick_byte(st.u32())
                if operands[i] != old:
                    break
            b2, tail = operands[0], bytes(operands[1:])
        else:
            b2 = valid[st.below(len(valid))] if mode_byte else pick_byte(st.u32())
            tail = bytes(pick_byte(st.u32()) for _ in range(5))
        for p in ((pre, None) if pre is not None else (None,)):
            data = G.head_bytes(p, op, b2) + tail
            r = TP.tokens(data + G.NOP_PAD)
            if r is not None and not excluded(r[0]):
                return data[:r[1]], p, op
    return None


def compose_sweep(seed: int, tab: Dict[int, List[int]], ops: List[int], pi: int, op: int, k: int) -> Tuple[List[bytes], int, List[str]]:
    """One code buffer: the head instruction (prefix PRES[pi], opcode op) first or after an unrelated one, then
    instructions each related to its predecessor by a generated relation."""
    st = S.Stream(seed, 77, op, pi, k)
    labels: List[str] = []
    codes: List[bytes] = []
    cur = sweep_instr(st, tab, G.PRES[pi], op)
    if cur is None:
        return [], 0, ["sweep:head-not-accepted"]
    if st.chance(1, 4):
        lead = sweep_instr(st, tab, st.choice(G.PRES), st.choice(ops))
        if lead is not None:
            codes.append(lead[0])
    codes.append(cur[0])
    tries = 0
    while len(codes) < SWEEP_LEN and tries < 4 * SWEEP_LEN:
        tries += 1
        code, pre, o = cur
        rel = st.choice(SWEEP_RELATIONS)
        nxt: Optional[Tuple[bytes, Optional[int], int]]
        if rel == "same-opcode-fresh-operands":
            nxt = sweep_instr(st, tab, pre, o)
        elif rel == "same-opcode-one-operand-byte-changed":
            nxt = sweep_instr(st, tab, pre, o, like=code)
        elif rel == "same-opcode-other-prefix":
            body = code[1:] if code[0] in G.PRE_OPCODES else code
            p2 = st.choice([p for p in G.PRES if p != pre])
            data = (bytes([p2]) if p2 is not None else b"") + body
            r = TP.tokens(data + G.NOP_PAD)
            nxt = (data[:r[1]], p2, o) if (r is not None and not excluded(r[0])) else None
        elif rel == "same-family":
            fam = family_ops(o, tab)
            nxt = sweep_instr(st, tab, pre, st.choice(fam)) if fam else None
        elif rel == "identical":
            nxt = cur
        else:
            nxt = sweep_instr(st, tab, st.choice(G.PRES), st.choice(ops))
        if nxt is None:
            labels.append("sweep-rel:generation-failed")
            continue
        body_a = code[1:] if code[0] in G.PRE_OPCODES else code
        body_b = nxt[0][1:] if nxt[0][0] in G.PRE_OPCODES else nxt[0]
        labels.append("sweep-rel:" + rel)
        if body_a[0] == body_b[0] and body_a != body_b:
            labels.append("sweep-pair:same-opcode-byte-operands-differ")
        codes.append(nxt[0])
        cur = nxt
    base = SWEEP_BASES[st.below(len(SWEEP_BASES))]
    return codes, base, labels


def _sweep_shard(task: Tuple[int, int, int, str, float]) -> Report:
    shard, nshards, seed, tier, deadline = task
    rep = Report()
    tab = b2_table()
    ops = [op for op in sorted(tab) if tab[op]]
    _SWEEP_CONSEQ[0] = 0
    same_op: set = set()
    hi = 0
    for op in ops:
        for pi in range(len(G.PRES)):
            hi += 1
            if hi % nshards != shard:
                continue
            if time.time() > deadline:
                if not rep.inconclusive:
                    rep.inconclusive.append("time budget reached; some code buffers not swept (not a violation)")
                break
            for k in range(SWEEPS_PER_HEAD[tier]):
                codes, base, labels = compose_sweep(seed, tab, ops, pi, op, k)
                if not codes:
                    rep.case(None, labels, None)
                    continue
                vs, vlabels = sweep_violations(codes, base)
                for v in vs:
                    rep.violate(v)
                for a, b in zip(codes, codes[1:]):
                    ba = a[1:] if a[0] in G.PRE_OPCODES else a
                    bb = b[1:] if b[0] in G.PRE_OPCODES else b
                    if ba[0] == bb[0] and ba != bb:
                        same_op.add(ba[0])
                rep.case("sweep:" + jhash([c.hex() for c in codes] + [base]),
                         ["kind:sweep", f"sweep-base:{base:#07x}"] + labels + vlabels + (["result:sweep"] if vs else []),
                         {"sweep": [c.hex() for c in codes], "addr": base} if rep.labels.get("kind:sweep", 0) % 200 == 1 else None)
    rep.extra["_sweep_same_op"] = sorted(same_op)
    return rep


def _shard(task: Tuple[int, int, int, str, float]) -> Report:
    shard, nshards, seed, tier, deadline = task
    rep = Report()
    gs = groups(seed, tier)
    n_bytewise = len(gs) - len(boundary_groups(seed, tier))
    good: List[List[Any]] = []       # [text, hex of its stand-alone bytes, mnemonic, where, operand texts]
    seen_good: set = set()
    bad: List[str] = []              # texts the assembler rejected (material for phase 2's rejected programs)
    seen_bad: set = set()
    # the whole-operand boundary groups (indices >= n_bytewise) go first: a time budget hit must not drop a class
    for gi in list(range(n_bytewise, len(gs))) + list(range(n_bytewise)):
        op, b2, tail = gs[gi]
        if gi % nshards != shard:
            continue
        if time.time() > deadline:
            rep.inconclusive.append("time budget reached; some groups not explored (not a violation)")
            break
        for pi, pre in enumerate(G.PRES):
            data = G.head_bytes(pre, op, b2) + tail
            r = TP.tokens(data + G.NOP_PAD)
            if r is None:
                rep.filtered += 1
                continue
            toks, ln = r
            if excluded(toks):
                rep.extra["excluded_unfused_or_unknown"] = rep.extra.get("excluded_unfused_or_unknown", 0) + 1
                continue
            code = data[:ln]
            mn, sigs, _ = signature(toks)
            st = S.Stream(seed, gi, pi)
            state, slabels = make_state(st, code, mn)
            recheck = mix32(seed, gi, pi, 9) % 16 == 0
            vs, labels, info = verdict(code, state, recheck=recheck, st=st, seed=seed)
            if gi >= n_bytewise:
                labels.append("gen:whole-operand-boundary")
            for v in vs:
                rep.violate(v)
            where = info.get("where", "?")
            ntkey = f"{pre}:{where}" if sigs else None
            lab = labels + [f"pre:{'none' if pre is None else format(pre, '02X')}", f"operands:{len(sigs)}"]
            if any("nm" in s for s in sigs):
                lab.append("named-imem-operand")
            sample = None
            if rep.evaluations % 1499 == 7 or (vs and not rep.extra.get("_sampled_violating")) or \
                    (len(sigs) == 2 and not vs and not rep.extra.get("_sampled_ok2")):
                if vs:
                    rep.extra["_sampled_violating"] = 1
                elif len(sigs) == 2:
                    rep.extra["_sampled_ok2"] = 1
                sample = {"code": code.hex(), "text": info.get("text"), "reassembled": info.get("reassembled"),
                          "where": where, "violations": [v.fingerprint for v in vs]}
            rep.case(ntkey, lab, sample)
            # phase 2 material: texts that round-trip alone (first occurrence per shard)
            if not vs and info.get("reassembled") and mn not in NEAR_FLOW and info.get("text") \
                    and info["text"] not in seen_good:
                seen_good.add(info["text"])
                good.append([info["text"], info["reassembled"], mn, where, signature(toks)[2]])
            if "result:assemble-fails" in labels and info.get("text") and where not in seen_bad and len(bad) < 24:
                seen_bad.add(where)
                bad.append(info["text"])
    rep.extra["_good"] = good
    rep.extra["_bad"] = bad
    return rep


ASSUMPTIONS = [
    "accepted = the Python decoder accepts the bytes, decodes them as one instruction and it is not an unfused "
    "PRE / '???' rendering; the instruction under test is followed by NOP bytes (look-ahead is C01's subject)",
    "text = token stream with Int/Addr tokens as 0x.. literals (sign outside), all other tokens verbatim; the line "
    "is assembled after a '.ORG <address>' line with a fresh Assembler per text; the address is generated (any page "
    "0..15, any in-page offset up to 'the instruction without redundant prefix ends on the page's last byte'): the "
    "decoder's text does not depend on the address, so neither may the assembler's acceptance of it",
    "listing: a line's bytes inside a listing (at .ORG 0x1000, near JP/CALL lines left out) must equal its stand-alone "
    "bytes whatever the other lines are and whatever the Assembler object assembled before",
    "listing after a rejected program: an Assembler object is documented as reusable only implicitly (hw-test/"
    "orchestrator.py keeps one for its whole run; assemble() re-initialises symbols, section pointers and the "
    "instruction cache on entry); the statement's last sentence ('never emits an encoding whose length ... differs') "
    "has no proviso about what the object was given before, so a program that was REJECTED -- whatever it contained -- "
    "may not change what the next accepted text assembles to. Nothing is asserted about the rejected program itself "
    "(whether it is rejected is observed and labelled)",
    "startup: the statement has no single-thread / warm-process proviso: a text that assembles in an unscheduled "
    "pristine process must assemble to the same bytes when the Assembler is the second one of the process and the "
    "first one is still under construction on a parked thread, or was abandoned by an asynchronous BaseException "
    "(Ctrl-C, signal-based test timeout). The schedule is harness-owned (line tracer on repository frames; B runs to "
    "completion while A is parked; if B blocks on a lock A is resumed after 5 s and B is not reported), so the "
    "outcome is deterministic; the reference is the unscheduled run of the same activity in another pristine process",
    "sweep: 'its rendered text' is the text of the instruction's own bytes -- the line the disassembler prints for an "
    "instruction inside a code buffer (linear sweep, each instruction decoded from buffer[offset:], all decoded "
    "instruction objects kept alive, rendered at once and again after the whole buffer was decoded) and its lifted IL "
    "must equal those of the same bytes decoded alone with NOP padding at the same address (C01's statement: the "
    "decode is independent of every byte beyond the length and of anything decoded earlier; fusion(): 'Bytes *after* "
    "instr1 that fail to decode must not affect instr1'); otherwise the line handed to the assembler describes "
    "another instruction than the one in the buffer. Only instructions that are accepted alone are put into buffers",
    "byte equality with the original encoding is not required (redundant prefix, don't-care bits)",
    "behaviour is compared on the Python emulator only, one step, with both encodings placed so that they END at "
    "the same address (fall-through PC, relative targets and pushed return addresses are then comparable); it is "
    "compared only when the emitted bytes decode to the same text with the emitted length (otherwise the "
    "difference is already reported); cases where the original raises or a data access comes near the code "
    "bytes are skipped and labelled",
    "TEMP registers and call-depth bookkeeping are not compared",
    "idempotence is checked as assemble(text(emitted)) == emitted; when text(emitted) == text this is re-assembling "
    "the same text, done without cache on a 1/16 sample",
]


def merge_reports(reports: List[Report]) -> Report:
    """Report.merge for every report, with the per-fingerprint cap on kept witnesses applied through a counter: the
    stock merge re-serialises every kept violation for every incoming one (quadratic; 70 s of a quick run with the
    ~10 000 known-finding witnesses of this property).  Same result: the first MAX_PER_FP witnesses per fingerprint
    in report order."""
    out = Report()
    kept: Dict[str, int] = {}
    for r in reports:
        vs, r.violations = r.violations, []
        out.merge(r)
        for v in vs:
            k = v.key()
            if kept.get(k, 0) < Report.MAX_PER_FP:
                kept[k] = kept.get(k, 0) + 1
                out.violations.append(v)
    return out


def run(ctx: Ctx) -> Report:
    b2_table()  # computed once before forking
    nshards = 16 if ctx.quick else 64
    deadline = ctx.t0 + TIME_BUDGET[ctx.tier]
    nproc = 16
    # phase 3 (linear sweeps over code buffers) runs first: it is cheap (~1 CPU-minute in quick), and a time budget hit in
    # the assembler-bound phases must not drop the class; its reports are merged last
    sweeps = ctx.pmap(_sweep_shard, [(i, nproc, ctx.seed, ctx.tier, deadline) for i in range(nproc)])
    reports = ctx.pmap(_shard, [(i, nshards, ctx.seed, ctx.tier, deadline) for i in range(nshards)])
    # phase 2: listings composed from ALL texts that round-tripped alone (shard order, then generation order)
    pool: List[List[Any]] = []
    bad: List[str] = []
    seen: set = set()
    for r in reports:
        for e in r.extra.pop("_good", []):
            if e[0] not in seen:
                seen.add(e[0])
                pool.append(e)
        for t in r.extra.pop("_bad", []):
            if t not in seen:
                seen.add(t)
                bad.append(t)
    listings = compose_listings(pool, ctx.seed, ctx.tier)
    histories: List[List[Any]] = [listings[i:i + LISTINGS_PER_ASSEMBLER] for i in range(0, len(listings), LISTINGS_PER_ASSEMBLER)]
    if pool:
        # before every second listing the object is first given a program it rejects (generated kind and position)
        histories = add_rejects(histories, pool, bad, ctx.seed)
    late = max(deadline, time.time() + LATE_PHASE_GRACE[ctx.tier])
    tasks = [([h for j, h in enumerate(histories) if j % nproc == w], late) for w in range(nproc)]
    reports += ctx.pmap(_listing_shard, [t for t in tasks if t[0]])
    # phase 4: the first Assembler of a process under a harness-owned schedule, in pristine processes
    if pool:
        scases = [(i, compose_startup(pool, ctx.seed, i)) for i in range(N_STARTUP[ctx.tier])]
        late = max(deadline, time.time() + LATE_PHASE_GRACE[ctx.tier])
        stasks = [([c for c in scases if c[0] % nproc == w], late) for w in range(nproc)]
        reports += ctx.pmap(_startup_shard, [t for t in stasks if t[0]])
    same_op: set = set()
    for r in sweeps:
        same_op.update(r.extra.pop("_sweep_same_op", []))
    reports += sweeps
    rep = merge_reports(reports)
    rep.extra["listing_pool_distinct_texts"] = len(pool)
    rep.extra["rejected_text_pool"] = len(bad)
    rep.extra["sweep_opcodes_followed_by_same_opcode_with_other_operands"] = len(same_op)
    for k in [k for k in rep.extra if k.startswith("_")]:
        del rep.extra[k]
    rep.rule = RULE
    rep.exhaustive = False
    rep.assumptions = list(ASSUMPTIONS)
    total = rep.evaluations + rep.filtered
    if total and rep.filtered / total > 0.05:
        raise HarnessError(f"generator rejected {rep.filtered}/{total} encodings (> 5 %)")
    return rep


def replay(ctx: Ctx, case: Dict[str, Any]) -> List[Violation]:
    if case.get("kind") == "listing":
        return listing_violations(_history_from_json(case["history"]))
    if case.get("kind") == "startup":
        from . import c09_startup as SU

        zyg = SU.Zygote()
        try:
            return startup_violations(case, zyg)[0]
        finally:
            zyg.close()
    if case.get("kind") == "sweep":
        _SWEEP_CONSEQ[0] = 0
        return sweep_violations([bytes.fromhex(c) for c in case["codes"]], case["addr"])[0]
    code = bytes.fromhex(case["code"])
    vs, _, _ = verdict(code, case.get("state"), recheck=True, org=case.get("org"))
    return vs


def _history_from_json(history: List[Any]) -> List[Any]:
    return [dict(e) if isinstance(e, dict) else [tuple(x) for x in e] for e in history]


def _same(vs: List[Violation], key: str) -> Optional[Violation]:
    for v in vs:
        if v.key() == key:
            return v
    return None


def shrink_listing(v: Violation) -> Violation:
    """Drop earlier entries (listings, rejected programs), then lines of the listings and of the rejected programs, as
    long as the fingerprint stays (bounded: 60 s)."""
    key = v.key()
    t0 = time.time()
    best = v
    history = _history_from_json(v.case["history"])

    def attempt(h: List[Any]) -> Optional[Violation]:
        if time.time() - t0 > 60 or not h or is_reject(h[-1]) or not h[-1]:
            return None
        return _same(listing_violations(h), key)

    i = 0
    while i < len(history) - 1:
        trial = history[:i] + history[i + 1:]
        got = attempt(trial)
        if got is not None:
            best, history = got, trial
        else:
            i += 1
    for which in range(len(history) - 1, -1, -1):
        j = 0
        while True:
            lines = history[which]["reject"] if is_reject(history[which]) else history[which]
            if j >= len(lines) or len(lines) <= 1:
                break
            trial = [dict(e, reject=list(e["reject"])) if is_reject(e) else list(e) for e in history]
            del (trial[which]["reject"] if is_reject(trial[which]) else trial[which])[j]
            got = attempt(trial)
            if got is not None:
                best, history = got, trial
            else:
                j += 1
    return best


def shrink_sweep(v: Violation) -> Violation:
    """Drop instructions of the buffer as long as the fingerprint stays (bounded: 60 s)."""
    key = v.key()
    t0 = time.time()
    best = v
    codes = [bytes.fromhex(c) for c in v.case["codes"]]
    i = 0
    while i < len(codes) and len(codes) > 1 and time.time() - t0 < 60:
        trial = codes[:i] + codes[i + 1:]
        got = _same(sweep_violations(trial, v.case["addr"])[0], key)
        if got is not None:
            best, codes = got, trial
        else:
            i += 1
    return best


def shrink(ctx: Ctx, v: Violation) -> Violation:
    """Field-wise simplification keeping the fingerprint: drop the state when it is irrelevant, zero operand
    bytes, zero registers.  Bounded (a few hundred verdict evaluations at most, <= 60 s)."""
    key = v.key()
    t0 = time.time()
    best = v
    case = dict(v.case)
    if case.get("kind") == "listing":
        return shrink_listing(v)
    if case.get("kind") == "sweep":
        return shrink_sweep(v)
    if case.get("kind") == "startup":
        return v

    def attempt(code: bytes, state: Optional[Dict[str, Any]]) -> Optional[Violation]:
        if time.time() - t0 > 60:
            return None
        r = TP.tokens(code + G.NOP_PAD)
        if r is None or r[1] != len(code):
            return None
        vs, _, _ = verdict(code, state, recheck=True, org=case.get("org"))
        return _same(vs, key)

    code = bytes.fromhex(case["code"])
    state = case.get("state")
    if v.subcheck != "behaviour":
        got = attempt(code, None)
        if got is not None:
            best, state = got, None
    start = 2 if code[0] in G.PRE_OPCODES else 1
    for i in range(start, len(code)):
        for cand in (0x00, 0x01, 0x10):
            if code[i] == cand:
                break
            trial = code[:i] + bytes([cand]) + code[i + 1:]
            got = attempt(trial, state)
            if got is not None:
                best, code = got, trial
                break
    if state is not None:
        state = {**state, "regs": dict(state["regs"]), "imem": [list(x) for x in state["imem"]]}
        for r in list(state["regs"]):
            if state["regs"][r] == 0:
                continue
            trial_state = {**state, "regs": {**state["regs"], r: 0}}
            got = attempt(code, trial_state)
            if got is not None:
                best, state = got, trial_state
        for j in range(len(state["imem"])):
            if state["imem"][j][1] == 0:
                continue
            im = [list(x) for x in state["imem"]]
            im[j][1] = 0
            trial_state = {**state, "imem": im}
            got = attempt(code, trial_state)
            if got is not None:
                best, state = got, trial_state
    return best
