"""C05 helper: generated call..return programs (pair laws) + small shared helpers.

A *program* is a list of routines.  Routine 0 is the call site (one call item, no return); every other routine
is a callee: a straight-line, stack-neutral body followed by the matching return (RET for CALL, RETF for CALLF,
RETI for IR).  Bodies are built from hand-encoded templates whose encodings are checked against the
repository's decoder in self_test() (length + mnemonic): register moves/arithmetic, flag setters, an IMR
writer, balanced PUSHS F..POPS F and PUSHU r..POPU r' (same width) brackets, nested CALL/CALLF to further
routines and nested IR to the (single) handler.  A saved case holds the routines with explicit addresses and
instruction bytes; call operands / the interrupt vector are derived from the callee address when the memory
image is built, so a case can be shrunk by deleting body items.

Law checked at *every* call item executed (statement): after the matching return PC == call address + call
length (mod 2^20) and S is what it was before the call; for IR..RETI also F and IMR; for CALL/CALLF F and IMR
only when the whole callee is flag-/IMR-neutral by construction.  Entry: PC after the call step == callee
address.  The first violation ends the program (later checks would only echo it).

Round 4: the memory the system stack lives in is part of the case ("sloc", "map", "ctrl_S"): RAM overlay / memory
card / host-delegated range / internal-RAM mirror alias with S at the region's edges, or S so small that frames
wrap through address 0 (Rust cores only).  exec_program() re-runs a violating special-stack program with an
ordinary RAM stack to decide whether the fingerprint gets a " stack:<kind>" suffix (attribution only).  Runtime
programs may be preceded by an operation the runtime rejects ("reject") and re-run through bulk step(n) ("bulk").
"""

from __future__ import annotations

from typing import Any, Dict, List, Optional, Tuple

import atexit
import json
import os
import subprocess

from ..core import HarnessError, Violation, jhash
from .. import rsclient
from .. import gen_enc as G
from .. import gen_state as S
from .. import pycore
from .. import textparse as TP

M20 = 0xFFFFF
IMR_ADDR = 0x1000FB
VECTOR = 0xFFFFA
PRE_CHOICES = (0x32, 0x21, 0x25, 0x30, 0x37)
RET_OF = {"CALL": ("RET", 0x06), "CALLF": ("RETF", 0x07), "IR": ("RETI", 0x01)}
CALL_OP = {"CALL": (0x04, 2), "CALLF": (0x05, 3), "IR": (0xFE, 0)}
PUSHU_W = (1, 1, 2, 2, 3, 3, 1, 1)  # A IL BA I X Y F IMR


# ------------------------------------------------------------------------------------------------
# small helpers shared with c05.py
# ------------------------------------------------------------------------------------------------

def s20(d: int) -> int:
    d &= M20
    return d - 0x100000 if d & 0x80000 else d


def diffclass(reported: int, observed: int, ft: Optional[int] = None) -> str:
    """Semantic description of 'reported/expected R, reached P' (never raw values); ft = addr+len if meaningful."""
    r, p = reported & M20, observed & M20
    if ((r ^ p) & 0xFFFF) == 0:
        return "page differs, low 16 bits equal"
    d = s20(p - r)
    if abs(d) <= 8:
        return f"reached = reported{d:+d}"
    if ft is not None and p == (ft & M20):
        return "execution continued at addr+len instead"
    if ft is not None and r == (ft & M20):
        return "reported target is addr+len but execution went elsewhere"
    return "unrelated addresses"


def addr_class(addr: int, length: int) -> str:
    a = addr & M20
    last = a + length - 1
    if last > M20:
        return "top-straddle"
    if (a >> 16) != (last >> 16):
        return "straddle"
    if a >= 0xFFFF0:
        return "top"  # includes "ends exactly at 0xFFFFF": addr+len wraps to 0
    if a < 4:
        return "bottom"
    if (last & 0xFFFF) >= 0xFFFC:
        return "page-end"
    if (a & 0xFFFF) < 4:
        return "page-start"
    return "interior"


# ------------------------------------------------------------------------------------------------
# templates
# ------------------------------------------------------------------------------------------------
# (name, fixed bytes, number of free operand bytes, expected mnemonic, flag-neutral, IMR-neutral)
PLAIN: Tuple[Tuple[str, bytes, int, str, bool, bool], ...] = (
    ("NOP", b"\x00", 0, "NOP", True, True),
    ("MV A,n", b"\x08", 1, "MV", True, True),
    ("MV IL,n", b"\x09", 1, "MV", True, True),
    ("MV BA,mn", b"\x0A", 2, "MV", True, True),
    ("MV I,mn", b"\x0B", 2, "MV", True, True),
    ("MV A,B", b"\x74", 0, "MV", True, True),
    ("MV B,A", b"\x75", 0, "MV", True, True),
    ("EX A,B", b"\xDD", 0, "EX", True, True),
    ("TCL", b"\xCE", 0, "TCL", True, True),
    ("WAIT", b"\xEF", 0, "WAIT", True, True),
    ("ADD A,n", b"\x40", 1, "ADD", False, True),
    ("SUB A,n", b"\x48", 1, "SUB", False, True),
    ("ADC A,n", b"\x50", 1, "ADC", False, True),
    ("SBC A,n", b"\x58", 1, "SBC", False, True),
    ("CMP A,n", b"\x60", 1, "CMP", False, True),
    ("XOR A,n", b"\x68", 1, "XOR", False, True),
    ("AND A,n", b"\x70", 1, "AND", False, True),
    ("OR A,n", b"\x78", 1, "OR", False, True),
    ("SC", b"\x97", 0, "SC", False, True),
    ("RC", b"\x9F", 0, "RC", False, True),
    ("INC A", b"\x6C\x00", 0, "INC", False, True),
    ("DEC BA", b"\x7C\x02", 0, "DEC", False, True),
    ("INC X", b"\x6C\x04", 0, "INC", False, True),
    ("DEC Y", b"\x7C\x05", 0, "DEC", False, True),
    ("SWAP A", b"\xEE", 0, "SWAP", False, True),
    ("ROL A", b"\xE6", 0, "ROL", False, True),
    ("SHR A", b"\xF4", 0, "SHR", False, True),
    ("MV (FB),n", b"\x32\xCC\xFB", 1, "MV", True, False),
)
# 20-bit immediates (high nibble zero): MV X,lmn / MV Y,lmn
PLAIN20 = (("MV X,lmn", 0x0C), ("MV Y,lmn", 0x0D))

_TESTED = False


def self_test() -> None:
    """Every template must be accepted by the repository's decoder with the length and mnemonic assumed."""
    global _TESTED
    if _TESTED:
        return
    probes: List[Tuple[str, bytes, str]] = []
    for name, fixed, nfree, mn, _fl, _im in PLAIN:
        probes.append((name, fixed + bytes([0x5A] * nfree), mn))
    for name, op in PLAIN20:
        probes.append((name, bytes([op, 0x11, 0x22, 0x03]), "MV"))
    for i in range(8):
        probes.append((f"PUSHU#{i}", bytes([0x28 + i]), "PUSHU"))
        probes.append((f"POPU#{i}", bytes([0x38 + i]), "POPU"))
    probes += [("MV [--S],BA", b"\xB2\x37", "MV"), ("MV [--S],X", b"\xB4\x37", "MV"),
               ("PUSHS F", b"\x4F", "PUSHS"), ("POPS F", b"\x5F", "POPS"),
               ("CALL", b"\x04\x34\x12", "CALL"), ("CALLF", b"\x05\x34\x12\x05", "CALLF"), ("IR", b"\xFE", "IR"),
               ("RET", b"\x06", "RET"), ("RETF", b"\x07", "RETF"), ("RETI", b"\x01", "RETI")]
    for pre in PRE_CHOICES:
        for nm, b, mn in (("CALL", b"\x04\x34\x12", "CALL"), ("CALLF", b"\x05\x34\x12\x05", "CALLF"),
                          ("IR", b"\xFE", "IR"), ("RET", b"\x06", "RET"), ("RETF", b"\x07", "RETF"),
                          ("RETI", b"\x01", "RETI")):
            probes.append((f"{pre:02X}+{nm}", bytes([pre]) + b, mn))
    for name, code, mn in probes:
        tk = TP.tokens(code + G.NOP_PAD, 0x31000)
        ln = G.info_len(code + G.NOP_PAD, 0x31000)
        if tk is None or ln != len(code) or TP.mnemonic(tk[0]) != mn:
            raise HarnessError(f"C05 pair template {name} ({code.hex()}) is not decoded as assumed: "
                               f"len={ln} tokens={tk}")
    tk = TP.tokens(b"\x32\xCC\xFB\x5A" + G.NOP_PAD, 0x31000)
    txt = TP.text(tk[0]) if tk else ""
    if "FB" not in txt and "IMR" not in txt:
        raise HarnessError(f"C05 pair template MV (FB),n renders as {txt!r}")
    for code, reg in ((b"\xB2\x37", "BA"), (b"\xB4\x37", "X")):
        tk = TP.tokens(code + G.NOP_PAD, 0x31000)
        txt = (TP.text(tk[0]) if tk else "").replace(" ", "")
        if "[--S]" not in txt or not txt.endswith("," + reg):
            raise HarnessError(f"C05 pair template {code.hex()} renders as {txt!r}, expected MV [--S],{reg}")
    _TESTED = True


# ------------------------------------------------------------------------------------------------
# generation
# ------------------------------------------------------------------------------------------------
# Addresses CoreRuntime's SIO stub services itself (sc62015/core/src/sio.rs: SIO_CMD42_DIRECT_INPUT_ADDR,
# SIO_TX_WAIT_READY_ADDR, SIO_CMD41_DIRECT_OUTPUT_ADDR); rt_self_test() checks that they still are.
HLE_ADDRS = (0xEB030, 0xEB31C, 0xEB33D)
FULL_PAGES = tuple(range(1, 15))
# "rt" programs stay in plainly mapped external memory of the PC-E500 model: not page 0 (LCD windows), not the
# 0x80000-0xBFFFF internal-RAM mirror window (only its identity part 0xB8000+ is used, for stacks); a routine
# may cross from a listed page into the next one (7 and 0xF are plain too).
RT_PAGES = (1, 2, 3, 4, 5, 6, 0xC, 0xD, 0xE)
CORES = ("py", "rs", "rt")
CORE_TAG = {"py": "", "rs": "rs ", "rt": "rt "}


def _plain_item(st: S.Stream) -> Dict[str, Any]:
    if st.chance(1, 12):
        name, op = st.choice(PLAIN20)
        v = st.pointer()[0]
        return {"k": "plain", "b": bytes([op, v & 0xFF, (v >> 8) & 0xFF, (v >> 16) & 0x0F]).hex(), "fl": True,
                "im": True}
    name, fixed, nfree, _mn, fl, im = st.choice(PLAIN)
    return {"k": "plain", "b": (fixed + bytes(st.byte() for _ in range(nfree))).hex(), "fl": fl, "im": im}


def _cj_item(st: S.Stream) -> Dict[str, Any]:
    """Computed jump through a return to the next item (over `gap` filler bytes)."""
    gap = st.below(4) if st.chance(1, 2) else 0
    return {"k": "cj", "far": st.chance(1, 3), "gap": bytes(st.byte() for _ in range(gap)).hex()}


class _Gen:
    def __init__(self, st: S.Stream, thorough: bool, chain: bool = False, hle: bool = False) -> None:
        self.st = st
        self.routines: List[Dict[str, Any]] = []
        self.handler: Optional[int] = None
        self.max_routines = (7 if thorough else 5) + (1 if chain else 0)
        self.wrap_id = 0
        self.chain = chain
        self.hle = hle

    def call_item(self, flavor: str, depth: int, in_handler: bool) -> Dict[str, Any]:
        st = self.st
        pre = st.choice(PRE_CHOICES) if st.chance(1, 8) else None
        if flavor == "IR":
            if self.handler is None:
                self.handler = self.new_routine("IR", depth, True)
            callee = self.handler
        elif self.hle and st.chance(1, 3):
            callee = len(self.routines)
            self.routines.append({"addr": st.choice(HLE_ADDRS), "ins": [], "flavor": flavor, "hle": True})
        else:
            callee = self.new_routine(flavor, depth, in_handler)
        it: Dict[str, Any] = {"k": "call", "flavor": flavor, "pre": pre, "callee": callee}
        if flavor in ("CALLF", "IR"):
            it["hi"] = (st.below(15) + 1) if st.chance(1, 4) else 0  # don't-care high nibble of the 3-byte target
        return it

    def n_real(self) -> int:
        return sum(1 for r in self.routines if not r.get("hle"))

    def body(self, depth: int, in_handler: bool, n: int, lvl: int = 0) -> List[Dict[str, Any]]:
        st = self.st
        out: List[Dict[str, Any]] = []
        for _ in range(n):
            sel = st.below(14)
            if sel <= 5:
                out.append(_plain_item(st))
            elif sel == 6 and lvl < 3:
                self.wrap_id += 1
                w = self.wrap_id
                out.append({"k": "plain", "b": "4f", "fl": True, "im": True, "w": w})
                out += self.body(depth, in_handler, st.below(3), lvl + 1)
                out.append({"k": "plain", "b": "5f", "fl": False, "im": True, "w": w})
            elif sel in (7, 8) and lvl < 3:
                self.wrap_id += 1
                w = self.wrap_id
                i = st.below(8)
                js = [j for j in range(8) if PUSHU_W[j] == PUSHU_W[i]]
                j = st.choice(js)
                out.append({"k": "plain", "b": f"{0x28 + i:02x}", "fl": True, "im": i != 7, "w": w})
                out += self.body(depth, in_handler, st.below(3), lvl + 1)
                out.append({"k": "plain", "b": f"{0x38 + j:02x}", "fl": j != 6, "im": j != 7, "w": w})
            elif sel in (6, 7, 8):
                out.append(_plain_item(st))
            elif sel in (9, 10):
                if depth > 0 and self.n_real() < self.max_routines:
                    out.append(self.call_item(st.choice(("CALL", "CALLF")), depth - 1, in_handler))
                else:
                    out.append(_plain_item(st))
            elif sel == 11:
                if not in_handler and (self.handler is not None or self.n_real() < self.max_routines):
                    out.append(self.call_item("IR", depth - 1 if depth > 0 else 0, in_handler))
                else:
                    out.append(_plain_item(st))
            else:
                out.append(_cj_item(st))
        return out

    def new_routine(self, flavor: str, depth: int, in_handler: bool) -> int:
        st = self.st
        idx = len(self.routines)
        r: Dict[str, Any] = {"addr": None, "ins": [], "flavor": flavor}
        self.routines.append(r)
        n = 0 if st.chance(1, 6) else 1 + st.below(5)
        inh = in_handler or flavor == "IR"
        ins = self.body(depth, inh, n)
        if self.chain and depth > 0 and self.n_real() < self.max_routines \
                and not any(it["k"] == "call" and it["flavor"] != "IR" for it in ins):
            # chain shape: every routine above the leaf level keeps a call open while deeper ones run
            ins.insert(st.below(len(ins) + 1), self.call_item(st.choice(("CALL", "CALLF")), depth - 1, inh))
        rname, rop = RET_OF[flavor]
        pre = st.choice(PRE_CHOICES) if st.chance(1, 8) else None
        ins.append({"k": "ret", "b": ((bytes([pre]) if pre is not None else b"") + bytes([rop])).hex(),
                    "name": rname})
        r["ins"] = ins
        return idx


CJ_LEN = 7


def item_len(it: Dict[str, Any]) -> int:
    if it["k"] == "call":
        return (1 if it.get("pre") is not None else 0) + 1 + CALL_OP[it["flavor"]][1]
    if it["k"] == "cj":
        return CJ_LEN + len(it.get("gap", "")) // 2
    return len(it["b"]) // 2


def item_steps(it: Dict[str, Any]) -> int:
    if it["k"] == "cj":
        return 3 if it.get("far") else 4
    return 1


def cj_bytes(it: Dict[str, Any], a: int) -> bytes:
    """near: NOP ; MV BA,mn ; MV [--S],BA ; RET   far: MV X,lmn ; MV [--S],X ; RETF   (both 7 bytes) + gap."""
    t = (a + item_len(it)) & M20
    if it.get("far"):
        b = bytes([0x0C, t & 0xFF, (t >> 8) & 0xFF, (t >> 16) & 0x0F, 0xB4, 0x37, 0x07])
    else:
        b = bytes([0x00, 0x0A, t & 0xFF, (t >> 8) & 0xFF, 0xB2, 0x37, 0x06])
    return b + bytes.fromhex(it.get("gap", ""))


def routine_size(r: Dict[str, Any]) -> int:
    return sum(item_len(it) for it in r["ins"])


def _free(used: List[Tuple[int, int]], lo: int, hi: int) -> bool:
    if lo < 0x40 or hi > 0x100000:
        return False
    for a, b in used:
        if lo < b and a < hi:
            return False
    return True


def _place_routine(st: S.Stream, size: int, used: List[Tuple[int, int]], page: Optional[int],
                   classes: Tuple[str, ...], pages: Tuple[int, ...] = FULL_PAGES) -> Optional[Tuple[int, str]]:
    """Choose an address for a routine of `size` bytes (+8 NOP pad).  page: required 64 KiB page of the start
    address (near callee / routine with a near call to a fixed address) or None (any of `pages`)."""
    for _ in range(16):
        cls = st.choice(classes)
        pg = page if page is not None else st.choice(pages)
        base = pg << 16
        if cls == "interior":
            a = base + 0x200 + st.below(0xFC00 - size)
        elif cls == "ret-at-page-end":
            a = base + 0x10000 - size  # last byte of the return instruction is the last byte of the page
        elif cls == "page-start":
            a = base + st.below(3)
        elif cls == "straddle":  # body crosses the 64 KiB boundary (far callees / handlers only)
            if size < 2:
                continue
            a = base + 0x10000 - 1 - st.below(size - 1)
        elif cls == "site-ends-at-page-end":
            a = base + 0x10000 - size
        elif cls == "site-straddle":
            a = base + 0x10000 - 1 - st.below(max(1, size - 1))
        elif cls == "site-page-end":
            a = base + 0x10000 - size - 1 - st.below(3)
        elif cls == "site-top":
            a = 0x100000 - size - (0 if st.chance(1, 2) else st.below(4))
        else:
            raise HarnessError(f"unknown placement class {cls}")
        lo, hi = a - 8, a + size + 16
        if cls == "site-top":
            hi = min(hi, 0x100000)
        if _free(used, lo, hi):
            used.append((lo, hi))
            return a, cls
    return None


def _forced_page(routines: List[Dict[str, Any]], idx: int, seen: Optional[set] = None) -> Optional[int]:
    """Page a routine must start in because it (or a near callee of it) makes a near call to a fixed address."""
    seen = seen if seen is not None else set()
    if idx in seen:
        return None
    seen.add(idx)
    for it in routines[idx]["ins"]:
        if it["k"] == "call" and it["flavor"] == "CALL":
            c = routines[it["callee"]]
            if c.get("hle"):
                return (int(c["addr"]) >> 16) & 0xF
            p = _forced_page(routines, it["callee"], seen)
            if p is not None:
                return p
    return None


# ------------------------------------------------------------------------------------------------
# where the system stack lives (round 4)
# ------------------------------------------------------------------------------------------------
# The machine bus guarantees byte granularity only: a multi-byte access is not the same thing as the sequence of
# byte accesses when it straddles the end of an overlay, a 32 KiB boundary of the internal-RAM mirror window or
# lies in a host-delegated range.  Frames are pushed byte by byte, so the pair law must hold wherever S points.
MIRROR_LO, MIRROR_ID, MIRROR_HI = 0x80000, 0xB8000, 0xC0000  # memory.rs: INTERNAL_RAM_MIRROR_*, INTERNAL_RAM_START
CARD_BASE = 0x40000
CARD_SIZES = (8192, 16384, 32768, 65536)  # memory.rs: MEMORY_CARD_RANGES
REGION_SIZES = (6, 0x20, 0x100, 0x400, 0x1000)
REJECTS = ("card", "snap", "model", "ovl0", "step0")
FRAME = {"CALL": 2, "CALLF": 3, "IR": 5}


def _stack_depth(routines: List[Dict[str, Any]], idx: int = 0) -> int:
    """Upper bound of the number of S-stack bytes below the routine's entry S that its intended path touches."""
    r = routines[idx]
    if r.get("hle"):
        return 0
    cur = mx = 0
    for it in r["ins"]:
        if it["k"] == "plain":
            if it["b"] == "4f":
                cur += 1
                mx = max(mx, cur)
            elif it["b"] == "5f":
                cur -= 1
        elif it["k"] == "cj":
            mx = max(mx, cur + 3)
        elif it["k"] == "call":
            mx = max(mx, cur + FRAME[it["flavor"]] + _stack_depth(routines, it["callee"]))
    return mx


def _overlaps(used: List[Tuple[int, int]], lo: int, hi: int) -> bool:
    return any(lo < b and a < hi for a, b in used)


def mirror_phys(a: int) -> int:
    return MIRROR_ID + (a & 0x7FFF) if MIRROR_LO <= a < MIRROR_HI else a


def _reserve_stack(used: List[Tuple[int, int]], v: int) -> bool:
    """Reserve [v-0x80, v+0x20) and, for addresses inside the mirror window, the cells they alias."""
    if not _free(used, v - 0x80, v + 0x20):
        return False
    phys = sorted({mirror_phys(a) for a in range(v - 0x80, v + 0x20)} - set(range(v - 0x80, v + 0x20)))
    runs: List[Tuple[int, int]] = []
    for a in phys:
        if runs and runs[-1][1] == a:
            runs[-1] = (runs[-1][0], a + 1)
        else:
            runs.append((a, a + 1))
    if any(_overlaps(used, lo, hi) for lo, hi in runs):
        return False
    used.append((v - 0x80, v + 0x20))
    used.extend(runs)
    return True


def _plain_s(st: S.Stream, rt: bool, pages: Tuple[int, ...]) -> Tuple[int, str]:
    if st.chance(1, 4):
        pg = (st.choice(pages) + 1) if rt else 1 + st.below(14)
        return (pg << 16) + st.below(6), "S:cross-page"  # frames cross a 64 KiB boundary
    if not rt:
        return 0x1000 + st.below(0xFD000), "S:interior"
    if st.chance(1, 3):
        return 0xB8100 + st.below(0x7E00), "S:interior"
    return (st.choice(pages) << 16) + 0x1000 + st.below(0xE000), "S:interior"


def _edge_s(st: S.Stream, lo: int, hi: int) -> Tuple[int, str]:
    """S relative to a region [lo, hi]: frames straddle its end / its start / lie inside."""
    sel = st.below(8)
    if sel < 4:
        return hi + 1 + st.below(8), "end"
    if sel < 6 or hi - lo < 0xC0:
        return lo + st.below(8), "start"
    return lo + 0x60 + st.below(hi - lo - 0x80), "inside"


def _place_stack(st: S.Stream, rt: bool, pages: Tuple[int, ...], used: List[Tuple[int, int]], depth: int,
                 uses_ir: bool) -> Optional[Tuple[int, List[str], Optional[Dict[str, Any]], Optional[str],
                                                  Optional[int]]]:
    """-> (S, labels, memory-map configuration or None, stack-location kind or None, control S or None)."""
    sel = st.below(16)
    kind = None
    if rt:
        kind = (None, "ovl", "host", "mirror", "wrap")[0 if sel < 6 else 1 if sel < 9 else 2 if sel < 12
                                                        else 3 if sel < 15 else 4]
    elif sel < 2:
        kind = "wrap"
    if kind == "wrap":
        # S so small that frames wrap through address 0 to the top of the 20-bit space; with a software
        # interrupt in the program the deepest byte must stay above the vector at 0xFFFFA-0xFFFFC
        lo_s = max(1, depth - 3) if uses_ir else 1
        if depth < 2 or lo_s > depth - 1 or _overlaps(used, 0, 0x60) \
                or (not uses_ir and _overlaps(used, 0xFFF80, 0x100000)):
            kind = None
        else:
            v = lo_s + st.below(depth - lo_s)
            used.append((0, 0x60))
            used.append((0xFFF80, 0x100000))
            ctrl = _ctrl_s(st, rt, pages, used)
            return (v, ["S:wrap", "stack:wrap"], None, "wrap", ctrl) if ctrl is not None else None
    for _ in range(16):
        if kind is None:
            v, cls = _plain_s(st, rt, pages)
            if _reserve_stack(used, v):
                return v, [cls, "stack:plain"], None, None, None
            continue
        smap: Dict[str, Any] = {}
        if kind == "mirror":
            msel = st.below(8)
            if msel < 4:
                v, sub = MIRROR_LO + 0x8000 * (1 + st.below(6)) + st.below(8), "32k"
            elif msel == 4:
                v, sub = MIRROR_LO + st.below(8), "start"
            elif msel == 5:
                v, sub = MIRROR_ID + st.below(8), "identity"
            elif msel == 6:
                v, sub = MIRROR_HI + st.below(8), "end"
            else:
                v, sub = MIRROR_LO + 0x100 + st.below(MIRROR_ID - MIRROR_LO - 0x200), "inside"
            region: Optional[Tuple[int, int]] = None
        else:
            if kind == "ovl" and st.chance(1, 4):
                size = st.choice(CARD_SIZES)
                lo, sub0 = CARD_BASE, "card"
                smap["card"] = size
            else:
                size = st.choice(REGION_SIZES) + st.below(16)
                lo, sub0 = (st.choice(pages) << 16) + 0x1000 + st.below(0xC000), kind
            hi = lo + size - 1
            if kind == "host":
                smap["host"] = [[lo, hi]]
            elif "card" not in smap:
                smap["overlays"] = [[lo, size, "vh_c05_ram"]]
            v, edge = _edge_s(st, lo, hi)
            sub = f"{sub0}-{edge}" if sub0 == "card" else edge
            region = (lo - 0x100, hi + 0x101)
        trial = list(used)
        if region is not None:
            if not _free(trial, region[0], region[1]):
                continue
            trial.append(region)
            if not _reserve_stack_in(trial, v):
                continue
        elif not _reserve_stack(trial, v):
            continue
        if st.chance(1, 4):
            # an unrelated region elsewhere in the map (never touched by the program)
            dlo = (st.choice(pages) << 16) + 0x1000 + st.below(0xC000)
            dsz = st.choice(REGION_SIZES) + st.below(16)
            if _free(trial, dlo - 0x100, dlo + dsz + 0x100):
                trial.append((dlo - 0x100, dlo + dsz + 0x100))
                if st.chance(1, 2):
                    smap.setdefault("host", []).append([dlo, dlo + dsz - 1])
                else:
                    smap.setdefault("overlays", []).append([dlo, dsz, "vh_c05_decoy"])
        ctrl = _ctrl_s(st, rt, pages, trial)
        if ctrl is None:
            continue
        used[:] = trial
        return v, [f"S:{kind}-{sub}", f"stack:{kind}"], (smap or None), kind, ctrl
    return None


def _reserve_stack_in(used: List[Tuple[int, int]], v: int) -> bool:
    """The stack neighbourhood lies inside / next to a region already reserved as a whole: only the part outside
    the region's reservation has to be free; nothing else is ever placed inside the region."""
    lo, hi = v - 0x80, v + 0x20
    reg = used[-1]
    for a, b in used[:-1]:
        if lo < b and a < hi:
            return False
    if lo < 0x40 or hi > 0x100000:
        return False
    if not (reg[0] <= lo and hi <= reg[1]):
        used.append((lo, hi))
    return True


def _ctrl_s(st: S.Stream, rt: bool, pages: Tuple[int, ...], used: List[Tuple[int, int]]) -> Optional[int]:
    """A plain interior stack location for the control run (same program, ordinary RAM stack)."""
    for _ in range(16):
        v = (st.choice(pages) << 16) + 0x1000 + st.below(0xE000) if rt else 0x1000 + st.below(0xFD000)
        if _free(used, v - 0x80, v + 0x20):
            used.append((v - 0x80, v + 0x20))
            return v
    return None


def gen_program(st: S.Stream, thorough: bool = False, profile: str = "full") -> Optional[Dict[str, Any]]:
    """profile "full": any page 1..14, every placement class (run on "py" and "rs");
    profile "rt": plainly mapped memory of the machine runtime, SIO stub on (with hle callees) or off."""
    rt = profile == "rt"
    sio = rt and st.chance(2, 3)
    chain = st.chance(1, 3)
    pages = RT_PAGES if rt else FULL_PAGES
    g = _Gen(st, thorough, chain=chain, hle=sio)
    flavor = st.choice(("CALL", "CALL", "CALLF", "CALLF", "IR"))
    if chain:
        depth = st.choice((2, 3, 3, 4) if thorough else (2, 2, 3))
    else:
        depth = st.choice((0, 1, 1, 2, 3 if thorough else 2))
    g.routines.append({"addr": None, "ins": [], "flavor": "site"})
    top = g.call_item(flavor, depth, False)
    g.routines[0]["ins"] = [top]
    routines = g.routines
    uses_ir = g.handler is not None
    used: List[Tuple[int, int]] = []
    if uses_ir:
        used.append((0xFFFE0, 0x100000))
    if sio:
        used.append((0xEB000, 0xEB400))
    # stacks
    regs: Dict[str, int] = {"BA": st.word(), "I": st.word(), "X": st.pointer()[0], "Y": st.pointer()[0],
                            "F": st.u32() & 0xFF}
    labels: List[str] = ["shape:chain" if chain else "shape:tree"]
    placed = _place_stack(st, rt, pages, used, _stack_depth(routines), uses_ir)
    if placed is None:
        return None
    regs["S"], s_labels, smap, sloc, ctrl_s = placed
    labels += s_labels
    if sloc is not None and not st.chance(1, 4):
        # `MV [--S],BA` / `MV [--S],X` of a computed jump are multi-byte stores: in byte-granular memory they are
        # C11's subject (such programs end unjudged as cj-astray); keep them in 1/4 of the special-stack programs
        for r in routines:
            r["ins"] = [{"k": "plain", "b": "00", "fl": True, "im": True} if it["k"] == "cj" else it
                        for it in r["ins"]]
        labels.append("cj-replaced-by-nop")
    for _ in range(16):
        if not rt:
            v = 0x1000 + st.below(0xFD000)
        elif st.chance(1, 3):
            v = 0xB8100 + st.below(0x7E00)
        else:
            v = (st.choice(pages) << 16) + 0x1000 + st.below(0xE000)
        if _free(used, v - 0x80, v + 0x20):
            used.append((v - 0x80, v + 0x20))
            regs["U"] = v
            break
    else:
        return None
    # call site
    site_classes = ["interior", "interior", "interior", "site-ends-at-page-end", "site-straddle", "page-start",
                    "site-page-end"]
    forced = _forced_page(routines, 0)
    if not uses_ir and not rt and forced is None and sloc != "wrap":
        site_classes.append("site-top")
    p = _place_routine(st, routine_size(routines[0]), used, forced, tuple(site_classes), pages)
    if p is None:
        return None
    routines[0]["addr"] = p[0]
    # callees, depth first
    stack = [0]
    while stack:
        ridx = stack.pop()
        r = routines[ridx]
        a = r["addr"]
        for it in r["ins"]:
            if it["k"] == "call":
                c = routines[it["callee"]]
                if c["addr"] is None:
                    near = it["flavor"] == "CALL"
                    forced = _forced_page(routines, it["callee"])
                    classes = ("interior", "interior", "interior", "ret-at-page-end", "ret-at-page-end",
                               "page-start") + (() if near or forced is not None else ("straddle",))
                    page = ((a & M20) >> 16) if near else forced
                    if near and forced is not None and forced != page:
                        return None
                    q = _place_routine(st, routine_size(c), used, page, classes, pages)
                    if q is None:
                        return None
                    c["addr"] = q[0]
                    stack.append(it["callee"])
                elif c.get("hle") and it["flavor"] == "CALL" and ((a & M20) >> 16) != (int(c["addr"]) >> 16):
                    return None
            a += item_len(it)
    # a near computed jump whose RET and continuation lie in different pages cannot work: make it a far one
    for r in routines:
        a = r["addr"]
        for it in r["ins"]:
            if it["k"] == "cj" and not it.get("far"):
                if ((a + CJ_LEN - 1) & M20) >> 16 != ((a + item_len(it)) & M20) >> 16 or a + item_len(it) > M20:
                    it["far"] = True
            a += item_len(it)
    regs["PC"] = routines[0]["addr"] & M20
    case = {"kind": "pair", "regs": regs, "seed": st.u32(), "imr": st.byte(),
            "imem": [[S.BP, st.byte()], [S.PX, st.byte()], [S.PY, st.byte()]],
            "routines": [{k: v for k, v in (("addr", r["addr"]), ("ins", r["ins"]), ("hle", r.get("hle"))) if
                          v is not None} for r in routines], "gen_labels": labels}
    if sloc is not None:
        case["sloc"] = sloc
        case["ctrl_S"] = ctrl_s
        if smap is not None:
            case["map"] = smap
        if sloc == "wrap" and not rt:
            case["cores"] = ["rs"]  # Python core: push and pop of a frame wrapping through 0 address different
            #                         cells of the harness memory model (notes, "False alarms met") - not judged
    if rt:
        case["core"] = "rt"
        case["sio"] = bool(sio)
        if st.chance(1, 4):
            case["reject"] = st.choice(REJECTS)
        if st.chance(1, 3):
            case["bulk"] = sorted(st.below(1000) for _ in range(st.below(3)))
    return case


# ------------------------------------------------------------------------------------------------
# memory image + execution
# ------------------------------------------------------------------------------------------------

def layout_of(case: Dict[str, Any]) -> Tuple[List[List[int]], List[List[Tuple[int, int, Dict[str, Any]]]]]:
    routines = case["routines"]
    mem: List[List[int]] = [[IMR_ADDR, case.get("imr", 0) & 0xFF]]
    for off, v in case.get("imem", []):
        mem.append([0x100000 + (off & 0xFF), v & 0xFF])
    lay: List[List[Tuple[int, int, Dict[str, Any]]]] = []
    for r in routines:
        a = int(r["addr"])
        items: List[Tuple[int, int, Dict[str, Any]]] = []
        if r.get("hle"):
            lay.append(items)
            continue
        for it in r["ins"]:
            if it["k"] == "call":
                op, nop = CALL_OP[it["flavor"]]
                dest = int(routines[it["callee"]]["addr"]) & M20
                b = (bytes([it["pre"]]) if it.get("pre") is not None else b"") + bytes([op])
                if it["flavor"] == "CALL":
                    b += bytes([dest & 0xFF, (dest >> 8) & 0xFF])
                elif it["flavor"] == "CALLF":
                    b += bytes([dest & 0xFF, (dest >> 8) & 0xFF, ((dest >> 16) & 0x0F) | ((it.get("hi", 0) & 0xF) << 4)])
                else:
                    for i, v in enumerate((dest & 0xFF, (dest >> 8) & 0xFF,
                                           ((dest >> 16) & 0x0F) | ((it.get("hi", 0) & 0xF) << 4))):
                        mem.append([VECTOR + i, v])
            elif it["k"] == "cj":
                b = cj_bytes(it, a)
            else:
                b = bytes.fromhex(it["b"])
            for i, v in enumerate(b):
                mem.append([a + i, v])
            items.append((a, len(b), it))
            a += len(b)
        for i in range(8):
            mem.append([a + i, 0x00])
        lay.append(items)
    return mem, lay


def _neutral(case: Dict[str, Any], idx: int, field: str, seen: Optional[set] = None) -> bool:
    seen = seen or set()
    if idx in seen:
        return True
    seen.add(idx)
    r = case["routines"][idx]
    if r.get("hle"):
        return field == "im"  # the serviced routine reports through the carry flag; it does not touch IMR
    for it in r["ins"]:
        if it["k"] == "plain" and not it.get(field, False):
            return False
        if it["k"] == "call" and it["flavor"] != "IR" and not _neutral(case, it["callee"], field, seen):
            return False
    return True


def expected_steps(case: Dict[str, Any], idx: int = 0, budget: Optional[List[int]] = None) -> int:
    """Number of instructions the program executes on its intended path (trace cores run exactly that many)."""
    budget = budget if budget is not None else [4000]
    r = case["routines"][idx]
    if r.get("hle"):
        return 1
    n = 0
    for it in r["ins"]:
        n += item_steps(it)
        if it["k"] == "call":
            budget[0] -= 1
            if budget[0] < 0:
                raise HarnessError("C05 pair program too long")
            n += expected_steps(case, it["callee"], budget)
    return n


class _Abort(Exception):
    pass


def _page_cls(addr: int, length: int) -> str:
    return "same-page" if ((addr & M20) >> 16) == (((addr + length) & M20) >> 16) else "next-page"


# --- executors ------------------------------------------------------------------------------------

class _PyMachine:
    def __init__(self, case: Dict[str, Any], memlist: List[List[int]]) -> None:
        from sc62015.pysc62015.emulator import RegisterName

        self.R = RegisterName
        self.emu, self.mem = pycore.make_emulator({"regs": case["regs"], "seed": case.get("seed", 0),
                                                   "mem": memlist})

    def step(self) -> Optional[str]:
        return pycore.step(self.emu, self.mem).get("err")

    def pc(self) -> int:
        return int(self.emu.regs.get(self.R.PC)) & M20

    def s(self) -> int:
        return int(self.emu.regs.get(self.R.S))

    def f(self) -> int:
        return int(self.emu.regs.get(self.R.F))

    def imr(self) -> int:
        return self.mem.peek(IMR_ADDR)


class _TraceMachine:
    """Replays a precomputed list of per-step (pc, s, f, imr) tuples (or an error string ending the trace)."""

    def __init__(self, case: Dict[str, Any], trace: List[Any]) -> None:
        regs = case["regs"]
        self.cur = (int(regs["PC"]) & M20, int(regs["S"]), int(regs.get("F", 0)) & 0xFF, case.get("imr", 0) & 0xFF)
        self.trace = trace
        self.i = 0

    def step(self) -> Optional[str]:
        if self.i >= len(self.trace):
            return "trace exhausted"
        t = self.trace[self.i]
        self.i += 1
        if isinstance(t, str):
            return t
        self.cur = t
        return None

    def pc(self) -> int:
        return self.cur[0] & M20

    def s(self) -> int:
        return self.cur[1]

    def f(self) -> int:
        return self.cur[2]

    def imr(self) -> int:
        return self.cur[3]


def _rs_trace(case: Dict[str, Any], memlist: List[List[int]], n: int) -> List[Any]:
    regs = {k: int(v) for k, v in case["regs"].items()}
    regs["IMR"] = case.get("imr", 0) & 0xFF
    first = {"sess": "c05", "regs": regs, "seed": int(case.get("seed", 0)), "mem": memlist, "steps": 1,
             "peek": [IMR_ADDR]}
    cont = {"sess": "c05", "keep": True, "steps": 1, "peek": [IMR_ADDR]}
    results = rsclient.shared().cpu_batch([first] + [cont] * (n - 1))
    out: List[Any] = []
    for r in results:
        steps = r.get("steps") or []
        if not steps:
            out.append("no step executed (halted)")
            break
        s0 = steps[0]
        if "err" in s0:
            out.append(str(s0["err"]))
            break
        rg = s0["regs"]
        out.append((int(rg["PC"]) & M20, int(rg["S"]), int(rg["F"]) & 0xFF, int(r["peek"][0])))
    return out


BIN_RT = os.path.join(rsclient.RUST_DIR, "target", "release", "vh_c05")
_rt_proc: List[Any] = [None, None]


def _rt_call(cases: List[Dict[str, Any]]) -> List[Dict[str, Any]]:
    if _rt_proc[0] is None or _rt_proc[1] != os.getpid() or _rt_proc[0].poll() is not None:
        if not os.path.exists(BIN_RT):
            rsclient.build(force=True)
        if not os.path.exists(BIN_RT):
            raise HarnessError(f"{BIN_RT} was not built")
        _rt_proc[0] = subprocess.Popen([BIN_RT], stdin=subprocess.PIPE, stdout=subprocess.PIPE, bufsize=1 << 16)
        _rt_proc[1] = os.getpid()
        atexit.register(rt_close)
    proc = _rt_proc[0]
    try:
        proc.stdin.write((json.dumps({"cases": cases}, separators=(",", ":")) + "\n").encode())
        proc.stdin.flush()
        line = proc.stdout.readline()
    except (BrokenPipeError, OSError) as exc:
        raise HarnessError(f"vh_c05 pipe failed: {exc!r}")
    if not line:
        raise HarnessError(f"vh_c05 died (rc={proc.poll()})")
    resp = json.loads(line)
    if not resp.get("ok"):
        raise HarnessError(f"vh_c05 failed: {resp}")
    return resp["results"]


def _rt_trace(case: Dict[str, Any], memlist: List[List[int]], n: int, chunks: Optional[List[int]] = None,
              info: Optional[Dict[str, Any]] = None) -> List[Any]:
    req: Dict[str, Any] = {"sio": bool(case.get("sio")), "regs": {k: int(v) for k, v in case["regs"].items()},
                           "mem": memlist, "steps": n}
    if case.get("map"):
        req["map"] = case["map"]
    if case.get("reject"):
        req["reject"] = case["reject"]
    if chunks is not None:
        req["chunks"] = chunks
    r = _rt_call([req])[0]
    if info is not None:
        info.update(host_rw=r.get("host_rw"), ovl_rw=r.get("ovl_rw"), rejected=r.get("rejected"))
    if case.get("reject") and r.get("rejected") is not True:
        # the operation was not rejected/ignored as assumed: a different machine, nothing is judged
        return [f"pre-program operation {case['reject']!r} was not rejected"]
    out: List[Any] = [(int(t[0]) & M20, int(t[1]), int(t[2]) & 0xFF, int(t[3])) for t in r["trace"]]
    if r.get("err"):
        out.append(str(r["err"]))
    return out


def bulk_chunks(case: Dict[str, Any], n: int) -> List[int]:
    """Split n steps at the case's per-mille cut points into 1-3 step(k) calls (k >= 1)."""
    cuts = sorted({max(1, min(n - 1, (n * int(c)) // 1000)) for c in case.get("bulk") or []}) if n > 1 else []
    out, prev = [], 0
    for c in cuts + [n]:
        out.append(c - prev)
        prev = c
    return out


def control_case(case: Dict[str, Any]) -> Dict[str, Any]:
    """The same program with its stack in ordinary RAM (attribution only, never decides what is a violation)."""
    c = {k: v for k, v in case.items() if k not in ("map", "sloc", "ctrl_S")}
    c["regs"] = {**case["regs"], "S": int(case["ctrl_S"])}
    return c


def rt_close() -> None:
    if _rt_proc[0] is not None and _rt_proc[1] == os.getpid():
        try:
            _rt_proc[0].stdin.close()
            _rt_proc[0].wait(timeout=5)
        except Exception:
            _rt_proc[0].kill()
    _rt_proc[0] = None


def rt_self_test() -> None:
    """The three fixed addresses are serviced by the runtime iff the SIO stub is enabled (else: the NOP there runs)."""
    cases = []
    for a in HLE_ADDRS:
        for sio in (False, True):
            cases.append({"sio": sio, "regs": {"PC": a, "S": 0xBF000, "U": 0xBE000}, "mem": [[a, 0]], "steps": 1})
    res = _rt_call(cases)
    for c, r in zip(cases, res):
        if r.get("err") or len(r["trace"]) != 1:
            raise HarnessError(f"C05 rt self-test failed to step at {c['regs']['PC']:#x}: {r}")
        nxt = int(r["trace"][0][0])
        if (nxt == c["regs"]["PC"] + 1) == c["sio"]:
            raise HarnessError(f"C05 rt self-test: address {c['regs']['PC']:#x} sio={c['sio']} went to {nxt:#x}; "
                               "the SIO stub's serviced addresses are not what the generator assumes")
    rt_close()


def exec_program(case: Dict[str, Any]) -> Dict[str, Any]:
    """Run + judge one program.  If it violates the law with its stack in special memory, the same program is run
    once more with an ordinary RAM stack: a fingerprint that persists there keeps its plain `where`, otherwise the
    stack-location kind is appended (one fingerprint per root cause; the control never decides about a violation)."""
    res = _exec_program(case)
    if res["viol"] and case.get("sloc") and case.get("ctrl_S") is not None:
        try:
            ckeys = {v.key() for v in _exec_program(control_case(case))["viol"]}
        except HarnessError:
            ckeys = set()
        for v in res["viol"]:
            if v.key() not in ckeys:
                v.where += f" stack:{case['sloc']}"
                res["labels"].append("violation-needs-stack-location")
    return res


def _exec_program(case: Dict[str, Any]) -> Dict[str, Any]:
    core = case.get("core", "py")
    tag = CORE_TAG[core]
    memlist, lay = layout_of(case)
    rt_info: Dict[str, Any] = {}
    if core == "py":
        m: Any = _PyMachine(case, memlist)
    else:
        n = expected_steps(case)
        m = _TraceMachine(case, _rs_trace(case, memlist, n) if core == "rs"
                          else _rt_trace(case, memlist, n, info=rt_info))
    res: Dict[str, Any] = {"viol": [], "labels": list(case.get("gen_labels", [])) + [f"core:{core}"], "steps": 0,
                           "pairs": 0, "top": "", "key": ""}
    if core == "rt":
        res["labels"].append("sio:on" if case.get("sio") else "sio:off")
        if case.get("reject"):
            res["labels"].append(f"after-rejected:{case['reject']}")
        if (rt_info.get("host_rw") or [0, 0])[1]:
            res["labels"].append("stack-io:host-written")
        if (rt_info.get("host_rw") or [0, 0])[0]:
            res["labels"].append("stack-io:host-read")
        if (rt_info.get("ovl_rw") or [0, 0])[1]:
            res["labels"].append("stack-io:overlay-written")
    top_law: Dict[str, Any] = {}
    routines = case["routines"]
    pc = m.pc
    open_calls: List[str] = []

    def do_step() -> None:
        err = m.step()
        res["steps"] += 1
        if err is not None:
            res["err"] = err
            raise _Abort()

    def ret_info(idx: int) -> Tuple[int, int, str]:
        if routines[idx].get("hle"):
            return int(routines[idx]["addr"]), 1, "stub-return"
        a, ln, it = lay[idx][-1]
        return a, ln, it.get("name", "?")

    def run_routine(idx: int, depth: int) -> None:
        for a, ln, it in lay[idx]:
            if pc() != (a & M20):
                raise HarnessError(f"C05 pair executor lost the path at routine {idx} (pc={pc():#x}, want {a:#x}, "
                                   f"core {core})")
            if it["k"] == "cj":
                for _ in range(item_steps(it)):
                    do_step()
                res["labels"].append("cj:far" if it.get("far") else "cj:near")
                if open_calls:
                    res["labels"].append("cj-inside:" + open_calls[-1])
                if pc() != ((a + ln) & M20):
                    # no statement covers a return in isolation: not judged, the program ends here
                    res["labels"].append("cj-astray")
                    res["astray"] = True
                    raise _Abort()
                continue
            if it["k"] != "call":
                do_step()
                if it["k"] == "plain" and pc() != ((a + ln) & M20):
                    tk = TP.tokens(bytes.fromhex(it["b"]) + G.NOP_PAD, a)
                    mn = TP.mnemonic(tk[0]) if tk else "?"
                    res["viol"].append(Violation("pair:body", f"{tag}{mn} in callee body",
                                                 "body instruction reporting no branch left addr+len", case,
                                                 f"{it['b']} at {a:#x}: reached {pc():#x}"))
                    raise _Abort()
                continue
            flavor = it["flavor"]
            callee = it["callee"]
            hle = bool(routines[callee].get("hle"))
            ra, rl, rname = ret_info(callee)
            site = _page_cls(a, ln)
            retc = "hle" if hle else ("inside" if _page_cls(ra, rl) == "same-page" else "page-cross")
            where = (f"{tag}{flavor}..{rname}" + (" pre-call" if it.get("pre") is not None else "")
                     + (" pre-ret" if rl > 1 else "") + f" site:{site} ret:{retc}")
            s0 = m.s()
            f0 = m.f()
            imr0 = m.imr()
            res["labels"] += [f"pair:{flavor}", f"site:{addr_class(a, ln)}", f"site-ret-addr:{site}",
                              f"ret:{retc}", f"retaddr:{addr_class(ra, rl)}", f"depth:{depth}"]
            if case.get("sloc"):
                fr = frame_class(case, s0, FRAME[flavor])
                res["labels"].append(f"frame:{flavor}:{case['sloc']}:{fr}")
            kinds = "".join({"CALL": "n", "CALLF": "f", "IR": "i"}[k] for k in open_calls)
            if "n" in kinds and "f" in kinds:
                res["labels"].append("open:near+far")
            if flavor == "CALL" and "n" in kinds and "f" in kinds[kinds.index("n"):]:
                res["labels"].append("near-under-far-under-near")
            if hle:
                res["labels"].append(f"hle:{flavor}:open-" + ("mixed" if "n" in kinds and "f" in kinds else
                                                              "near" if "n" in kinds else "far" if "f" in kinds
                                                              else "none"))
            if it.get("pre") is not None:
                res["labels"].append("pre-call")
            if rl > 1:
                res["labels"].append("pre-ret")
            if it.get("hi"):
                res["labels"].append("far-target-high-nibble")
            if not hle and len(lay[callee]) == 1:
                res["labels"].append("body:empty")
            do_step()
            dest = int(routines[callee]["addr"]) & M20
            if pc() != dest:
                res["viol"].append(Violation("pair:entry", where, diffclass(dest, pc(), a + ln), case,
                                             f"{flavor} at {a:#x}: callee at {dest:#x}, PC after the call {pc():#x}"))
                raise _Abort()
            open_calls.append(flavor)
            if hle:
                do_step()  # the runtime services the routine and performs its return
            else:
                run_routine(callee, depth + 1)
            open_calls.pop()
            res["pairs"] += 1
            exp = (a + ln) & M20
            detail = (f"[{core}] {flavor} at {a:#x} (len {ln}) -> {dest:#x}, {rname} at {ra:#x}: resumed at "
                      f"{pc():#x} (expected {exp:#x}); S {s0:#x}->{m.s():#x}; "
                      f"F {f0:#04x}->{m.f():#04x}; IMR {imr0:#04x}->{m.imr():#04x}; open calls "
                      f"{'/'.join(open_calls) or '-'}")
            if pc() != exp:
                d = diffclass(exp, pc())
                res["viol"].append(Violation("pair:resume", where, "resume address: " + d, case, detail))
                raise _Abort()
            s1 = m.s()
            if s1 != s0:
                d = s20(s1 - s0)
                res["viol"].append(Violation("pair:S", where, f"S after return = S before call{d:+d}"
                                             if abs(d) <= 8 else "S not restored (unrelated)", case, detail))
                raise _Abort()
            check_f = flavor == "IR" or _neutral(case, callee, "fl")
            check_i = flavor == "IR" or _neutral(case, callee, "im")
            if check_f:
                res["labels"].append("F-compared")
                f1 = m.f()
                if f1 != f0:
                    bits = [n for n, mk in (("C", 1), ("Z", 2), ("high", 0xFC)) if (f0 ^ f1) & mk]
                    res["viol"].append(Violation("pair:F", where, "F not restored: " + "+".join(bits), case, detail))
                    raise _Abort()
            if check_i:
                res["labels"].append("IMR-compared")
                i1 = m.imr()
                if i1 != imr0:
                    sym = "IMR not restored: only bit 7 (IRM) differs" if (i1 ^ imr0) == 0x80 else "IMR not restored"
                    res["viol"].append(Violation("pair:IMR", where, sym, case, detail))
                    raise _Abort()
            if depth == 0:
                top_law.update(where=where, pc=exp, s=s0, f=f0 if check_f else None, imr=imr0 if check_i else None,
                               what=f"[{core}] {flavor} at {a:#x} (len {ln}) -> {dest:#x}, {rname} at {ra:#x}")

    top = lay[0][0][2]
    res["top"] = top["flavor"]
    body_hash = jhash([[it.get("b"), it.get("flavor"), it.get("pre"), it.get("far"), it.get("gap"),
                        r.get("hle") and r.get("addr")] for r in routines for it in (r["ins"] or [{}])], 8)
    a0, l0, _ = lay[0][0]
    ra0, rl0, _ = ret_info(top["callee"])
    res["key"] = (f"{core}{'+sio' if case.get('sio') else ''}:{top['flavor']}:{addr_class(a0, l0)}:"
                  f"{addr_class(ra0, rl0)}:{'x' if 'S:cross-page' in res['labels'] else case.get('sloc') or 'i'}:"
                  f"{body_hash}")
    try:
        run_routine(0, 0)
    except _Abort:
        pass
    if "err" in res:
        res["labels"].append("python-exception" if core == "py" else f"{core}-error")
    if core == "rt" and case.get("bulk") is not None and top_law and not res["viol"] and "err" not in res \
            and not res.get("astray"):
        _judge_bulk(case, memlist, top_law, res)
    return res


def _judge_bulk(case: Dict[str, Any], memlist: List[List[int]], law: Dict[str, Any], res: Dict[str, Any]) -> None:
    """The same program through bulk CoreRuntime::step(k) calls: the state after the last chunk is the state
    after the top-level call's matching return, so the pair law applies to it as it stands."""
    n = expected_steps(case)
    chunks = bulk_chunks(case, n)
    tr = _rt_trace(case, memlist, n, chunks=chunks)
    res["labels"].append(f"bulk:chunks-{len(chunks)}")
    if len(tr) != len(chunks) or isinstance(tr[-1], str):
        res["labels"].append("rt-bulk-error")
        return
    pc, s1, f1, i1 = tr[-1]
    where = law["where"] + " [bulk step(n)]"
    detail = (f"{law['what']}: after step({'+'.join(map(str, chunks))}) PC {pc:#x} (expected {law['pc']:#x}); "
              f"S {law['s']:#x}->{s1:#x}; F ->{f1:#04x}; IMR ->{i1:#04x}")
    if pc != law["pc"]:
        res["viol"].append(Violation("pair:resume", where, "resume address: " + diffclass(law["pc"], pc), case, detail))
    elif s1 != law["s"]:
        d = s20(s1 - law["s"])
        res["viol"].append(Violation("pair:S", where, f"S after return = S before call{d:+d}" if abs(d) <= 8
                                     else "S not restored (unrelated)", case, detail))
    elif law["f"] is not None and f1 != law["f"]:
        bits = [nm for nm, mk in (("C", 1), ("Z", 2), ("high", 0xFC)) if (law["f"] ^ f1) & mk]
        res["viol"].append(Violation("pair:F", where, "F not restored: " + "+".join(bits), case, detail))
    elif law["imr"] is not None and i1 != law["imr"]:
        sym = "IMR not restored: only bit 7 (IRM) differs" if (i1 ^ law["imr"]) == 0x80 else "IMR not restored"
        res["viol"].append(Violation("pair:IMR", where, sym, case, detail))


def frame_class(case: Dict[str, Any], s0: int, size: int) -> str:
    """How the frame [s0-size, s0) lies relative to the boundaries of the special memory the stack lives in."""
    cells = [(s0 - 1 - i) & M20 for i in range(size)]
    kind = case.get("sloc")
    if kind == "wrap":
        return "wraps" if min(cells) < 0x100 and max(cells) > M20 - 0x100 else "no-wrap"
    if kind == "mirror":
        inside = [MIRROR_LO <= c < MIRROR_ID for c in cells]
        if len({c >> 15 for c in cells}) > 1:
            return "straddles-32k" if all(MIRROR_LO <= c < MIRROR_HI for c in cells) else "straddles-window-edge"
        return "alias" if all(inside) else "outside-alias"
    mp = case.get("map") or {}
    if kind == "host":
        lo, hi = mp["host"][0]
    elif mp.get("card"):
        lo, hi = CARD_BASE, CARD_BASE + int(mp["card"]) - 1
    else:
        lo, hi = int(mp["overlays"][0][0]), int(mp["overlays"][0][0]) + int(mp["overlays"][0][1]) - 1
    ins = [lo <= c <= hi for c in cells]
    return "inside" if all(ins) else "outside" if not any(ins) else "straddles"


# ------------------------------------------------------------------------------------------------
# shrinking: delete body items (brackets as a unit), keep the return instruction's address fixed
# ------------------------------------------------------------------------------------------------

def _same(case: Dict[str, Any], key: str) -> Optional[Violation]:
    try:
        for v in exec_program(case)["viol"]:
            if v.key() == key:
                return v
    except HarnessError:
        return None
    return None


def shrink(v: Violation) -> Violation:
    import copy

    key = v.key()
    cur = copy.deepcopy(v.case)
    best = v
    budget = 400
    changed = True
    while changed and budget > 0:
        changed = False
        for ri in range(1, len(cur["routines"])):
            r = cur["routines"][ri]
            if r.get("hle"):
                continue
            groups: List[List[int]] = []
            seen_w: Dict[int, List[int]] = {}
            for i, it in enumerate(r["ins"]):
                if it["k"] == "call":
                    groups.append([i])  # dropping a nested call keeps the body stack-neutral
                    continue
                if it["k"] == "cj":
                    groups.append([i])  # a computed jump to the next item is stack-neutral on its own
                    continue
                if it["k"] != "plain":
                    continue
                if "w" in it:
                    seen_w.setdefault(it["w"], []).append(i)
                else:
                    groups.append([i])
            groups += [g for g in seen_w.values() if len(g) == 2]
            for g in groups:
                budget -= 1
                removed = sum(item_len(r["ins"][i]) for i in g)
                for shift in (removed, 0):
                    trial = copy.deepcopy(cur)
                    tr = trial["routines"][ri]
                    tr["ins"] = [it for i, it in enumerate(tr["ins"]) if i not in g]
                    tr["addr"] = int(tr["addr"]) + shift
                    nv = _same(trial, key)
                    if nv is not None:
                        cur, best, changed = trial, nv, True
                        break
                if changed:
                    break
            if changed:
                break
    for rname in ("BA", "I", "X", "Y"):
        trial = copy.deepcopy(cur)
        trial["regs"][rname] = 0
        nv = _same(trial, key)
        if nv is not None:
            cur, best = trial, nv
    return best
