"""C11 -- the memory bus behaves like memory: separate spaces, immutable ROM, little-endian words.

Four implementations-under-test, one reference model (vp_harness/c11_model.py, written from the documentation):
  py      pce500.memory.PCE500Memory (stand-alone)                      read_bytes/write_bytes + typed accessors
  py-emu  PCE500Emulator().memory (keyboard + LCD overlays installed)   devices excluded from value checks
  rs      sc62015_core::memory::MemoryImage::load/store                 (Rust harness, module c11.rs)
  rs-cpu  CoreRuntime::step on one-instruction programs (RuntimeBus)    observed through MemoryImage loads
For every generated (configuration, history) each operation is executed on the implementation and on the model;
after EVERY operation the returned value, a per-machine sentinel set and the access's own neighbourhood
(targets, documented aliases, cross-space twins, neighbours, linearly-addressed cells) are read back as bytes and
compared with the model.  A machine stops at its first violating operation (later state would be tainted).

Configuration ORDER is generated (cfg["seq"]: card-slot calls and overlay registrations in any order; "the later call
wins").  Overlays may OVERLAP each other, the card window and the Python ROM image: precedence between overlays is
undocumented, so an overlap cell must behave, consistently, like one of the overlays covering it (class "ovlp" of
the model) -- which is exactly what "a byte written is what is next read / no other location changes" needs.
Round 4: overlays are also registered INSIDE the internal window and removed again (remove_overlay); configuration
calls that are REJECTED or name no location (c11_gen.gen_rej) occur in the configuration sequence and between
accesses and must leave no trace (Checker._step_rej); the bulk view of the internal memory is compared with the bus at
the end of a machine (bulk_check).
Round 5: PORT-SIZED overlays (1-3 bytes, narrower than a wide access; 1 configuration in 3) and an address class that
places accesses at every alignment around any region of 1-3 bytes -- half of them ENCLOSING it (first and last byte
outside, the region strictly inside); Rust ROM images also through the system-image entry point
(load_pce500_system_image / .._into_memory + map) with generated image lengths (full 1 MiB, longer, window-sized,
in between), situation flag "sysimg".  Both dimensions draw from a stream of their own (c11_gen.gen_case: st2).
rs-cpu additionally runs a model-free composition twin (see run_twin_batch) for wide accesses inside the internal
memory window, observed through CPU byte loads, so that the device register block at 0xF0.. is covered by
"multi-byte accesses equal the composition of byte accesses" without modelling the devices.
"""

from __future__ import annotations

import copy
from typing import Any, Dict, List, Optional, Tuple

from ..core import Ctx, HarnessError, Report, Violation, jhash, mix32
from .. import c11_model as M
from .. import c11_gen as G
from .. import rsclient

PROPERTY = "C11"
RULE = ("machines = (memory configuration, history of 8/16/24-bit loads and stores at 32-bit addresses) per model "
        "(py, py-emu, rs, rs-cpu); configuration: RAM fill, ROM image (load_rom / load slice / PC-E500 window+map), "
        "memory card size/writable/absent as an ORDERED sequence of 0-3 card-slot calls interleaved with the overlay "
        "registrations, 0-3 RAM/ROM overlays (30 % of configurations: overlapping each other / the card window / the "
        "Python ROM image), read-only ranges, mirror on/off; addresses from overlap spans and their edges, "
        "region interiors, region boundaries +-2, internal window, previously written cells and their "
        "neighbours, documented aliases (2^24 wrap, mod 1 MiB / mod 256, mirror window), wild 32-bit values; "
        "1 configuration in 5 registers overlays INSIDE the 256-byte internal window; overlays may be removed again "
        "(remove_overlay) anywhere in the sequence; REJECTED / empty configuration calls (load_memory_card with an "
        "empty / unsupported-size image, zero-sized overlays, removal of an unknown name, copy_external_from with a "
        "wrong length, slice outside the backing store) are generated both in the configuration sequence and between "
        "accesses and must leave every sentinel and the latest stores unchanged; stored values include landmark "
        "values (zero / 0xFF bytes); at the end of a machine the bulk view of the internal memory "
        "(get_internal_memory_bytes / internal_slice) must agree with the bus. "
        "Round 5: 1 configuration in 3 adds 1-3 port-sized overlays (1-3 bytes, some adjacent to / one byte away from "
        "another overlay); in edge/mixed histories 1 access in 6 of a configuration with a region of 1-3 bytes is "
        "placed at a generated alignment around it, half of the wide ones enclosing it (labels "
        "op:<ld|st>24/<api>-enclosing-narrow-region = executed and checked); 1 Rust configuration in 4 loads the ROM "
        "image through load_pce500_system_image (rs-cpu) / load_pce500_system_image_into_memory + "
        "configure_pce500_memory_map (rs) with an image of 1 MiB / 1 MiB + 256 / 256 KiB / 256 KiB + 1 / 512 KiB / "
        "1 MiB - 1 bytes (labels cfg:sysimg=*, op:st-into-readonly-window-of-full-system-image). "
        "Non-trivial = the history contains a store whose cells are later loaded through a different raw address "
        "(alias or overlapping neighbour access), or a store into a read-only/absent cell; distinct = "
        "hash(configuration, history). rs-cpu: every 16/24-bit access lying inside the internal window is also run as "
        "its byte accesses on a twin machine and compared through CPU byte loads and all probes.")

INT = M.INT
KINDS = ("py", "py-emu", "rs", "rs-cpu")


# ------------------------------------------------------------------------------------------ executors
def _cfg_steps_rs(cfg: Dict[str, Any]) -> List[List[Any]]:
    steps: List[List[Any]] = []
    steps.append(["mirror", bool(cfg.get("mirror", cfg["model"] == "rs-cpu"))])
    if cfg.get("fill") is not None:
        steps.append(["fill", cfg["fill"]])
    rom = cfg.get("rom")
    mapped = bool(cfg.get("map"))
    if rom is not None:
        if rom["api"] == "slice":
            steps.append(["slice", M.ROM_LO, 0x40000, rom["k"]])
        elif rom["api"] == "window":
            steps.append(["rom_window", 0x40000, rom["k"]])
            mapped = True
        elif rom["api"] == "sysimg":
            steps.append(["sys_image", rom["len"], rom["k"]])
            mapped = True
    if cfg.get("map"):
        steps.append(["pce500_map"])
    ro = [list(r) for r in cfg.get("ro") or []]
    if ro:
        if mapped:  # set_readonly_ranges replaces the list: keep the PC-E500 map ranges in it
            ro = [[0x00000, 0x3FFFF], [M.ROM_LO, M.ROM_HI]] + ro
        steps.append(["ro", ro])
    ovl = cfg.get("ovl") or []
    for stp in M.steps(cfg):  # card-slot calls and overlay registrations in the configured order
        if stp[0] == "card":
            steps.append(["card", stp[1]["size"], stp[1]["k"]])
        elif stp[0] == "rej":
            steps.append(rej_step_rs(stp))
        elif stp[0] == "rm":
            steps.append(["remove_ovl", f"x{stp[1]}"])
        elif stp[0] == "slot":
            steps.append(["slot", bool(stp[1])])
        else:
            i = stp[1]
            o = ovl[i]
            if o["kind"] == "ram":
                steps.append(["ram_ovl", o["start"], o["size"], f"x{i}"])
            else:
                steps.append(["rom_ovl", o["start"], o["size"], o["k"], f"x{i}"])
    return steps


REJ_K = 15  # pattern index of the data handed to rejected calls (differs from every generated image)


def rej_step_rs(op: List[Any]) -> List[Any]:
    """Harness step for a rejected / empty configuration call (c11_gen.gen_rej)."""
    kind, a, b = op[1], op[2], op[3]
    if kind == "card-empty":
        return ["card_raw", 0, REJ_K]
    if kind == "card-badsize":
        return ["card_raw", a, REJ_K]
    if kind == "ram-ovl-empty":
        return ["ram_ovl", a, 0, "z"]
    if kind == "rom-ovl-empty":
        return ["rom_ovl", a, 0, REJ_K, "z"]
    if kind == "remove-unknown":
        return ["remove_ovl", "no-such-overlay"]
    if kind == "copy-ext-badlen":
        return ["copy_ext", a, REJ_K]
    if kind == "slice-out-of-range":
        return ["slice", a, b, REJ_K]
    raise HarnessError(f"C11: unknown rejected-call kind {kind!r}")


def rej_py(mem: Any, op: List[Any]) -> None:
    """Perform a rejected / empty configuration call on a PCE500Memory; the refusal itself is not judged."""
    kind, a, b = op[1], op[2], op[3]
    try:
        if kind == "card-badsize":
            data = M.pat_bytes(REJ_K, M.CARD_LO, b & ~1)
            emu = getattr(mem, "_c11_keepalive", None)
            if emu is not None and not (b & 1):
                emu.load_memory_card(data, a)  # machine-level entry point
            else:
                mem.load_memory_card(data, a, writable=bool(b & 1))
        elif kind == "ram-ovl-empty":
            mem.add_ram(a, 0, "z")
        elif kind == "rom-ovl-empty":
            mem.add_rom(a, b"", "z")
        elif kind == "remove-unknown":
            mem.remove_overlay("no-such-overlay")
        else:
            raise HarnessError(f"C11: unknown rejected-call kind {kind!r} for Python")
    except HarnessError:
        raise
    except Exception:
        pass  # refused: exactly what is expected


def rej_probes(m: M.Model, ops: List[List[Any]], idx: int) -> List[Tuple[int, str]]:
    """Probes read after a rejected call: the cells of the last three stores before it (next to the sentinels)."""
    out: List[Tuple[int, str]] = []
    seen = set()
    taken = 0
    for op in reversed(ops[:idx]):
        if op[0] != "st":
            continue
        for c in m.cells(op[1], op[2] // 8):
            if c not in seen and m.info(c)[1] != "dev":
                seen.add(c)
                out.append((c, "earlier-store"))
        taken += 1
        if taken == 3:
            break
    return out


CPU_ST = {("lmn", 8): (0xA8, "A"), ("lmn", 16): (0xAA, "BA"), ("lmn", 24): (0xAC, "X"),
          ("imem", 8): (0xA0, "A"), ("imem", 16): (0xA2, "BA"), ("imem", 24): (0xA4, "X")}
CPU_LD = {("lmn", 8): (0x88, "A"), ("lmn", 16): (0x8A, "BA"), ("lmn", 24): (0x8C, "X"),
          ("imem", 8): (0x80, "A"), ("imem", 16): (0x82, "BA"), ("imem", 24): (0x84, "X")}


def cpu_code(op: List[Any]) -> Tuple[List[int], Dict[str, int], Optional[str]]:
    """One-instruction program for an abstract op (encodings checked against the Python decoder in selftest)."""
    kind, addr, bits = op[0], op[1], op[2]
    via = op[-1]
    table = CPU_ST if kind == "st" else CPU_LD
    opc, reg = table[(via, bits)]
    if via == "lmn":
        code = [opc, addr & 0xFF, (addr >> 8) & 0xFF, (addr >> 16) & 0xFF]
    else:
        code = [0x32, opc, (addr - INT) & 0xFF]
    if kind == "st":
        return code, {reg: op[3]}, None
    return code, {reg: 0}, reg


def _ops_rs(case: Dict[str, Any], m: M.Model, probes: List[List[int]]) -> List[List[Any]]:
    out: List[List[Any]] = []
    cpu = case["cfg"]["model"] == "rs-cpu"
    for op, pr in zip(case["ops"], probes):
        if op[0] == "rej":
            out.append(["cfg", rej_step_rs(op), pr])
        elif cpu:
            code, regs, ret = cpu_code(op)
            out.append(["x", M.CODE_LO, code, regs, ret, pr])
        elif op[0] == "st":
            out.append(["st", op[1], op[2], op[3], pr])
        else:
            out.append(["ld", op[1], op[2], pr])
    return out


def plan(case: Dict[str, Any]) -> Tuple[M.Model, List[int], List[List[Tuple[int, str]]]]:
    """Model + sentinel addresses + tagged probe list per op (pure function of the case)."""
    m = M.Model(case["cfg"])
    sent = M.sentinels(m, case.get("sent_seed", 0))
    level = {"plain": 0, "edge": 0, "alias": 1, "mixed": 2}.get(case.get("profile", "mixed"), 2)
    ops = case["ops"]
    pl = [rej_probes(m, ops, i) if op[0] == "rej" else M.op_probes(m, op[1], op[2] // 8, level)
          for i, op in enumerate(ops)]
    return m, sent, pl


def run_rs_batch(cases: List[Dict[str, Any]]) -> List[Any]:
    reqs = []
    for case in cases:
        m, sent, pl = plan(case)
        reqs.append({"mode": "cpu" if case["cfg"]["model"] == "rs-cpu" else "direct",
                     "cfg": _cfg_steps_rs(case["cfg"]), "sent": sent,
                     "ops": _ops_rs(case, m, [[a for a, _ in p] for p in pl]) + [["imem"]]})
    req = {"cmd": "c11.run", "cases": reqs}
    try:
        resp = rsclient.shared().call(req)
    except HarnessError:
        # the harness subprocess was killed from outside (shared machine): one retry on a fresh process
        resp = rsclient.shared().call(req)
    if not resp.get("ok"):
        raise HarnessError(f"c11.run failed: {str(resp)[:300]}")
    return resp["results"]


_FILL_CACHE: Dict[int, bytes] = {}


def make_py(cfg: Dict[str, Any]):
    from pce500.memory import PCE500Memory

    if cfg["model"] == "py-emu":
        from pce500.emulator import PCE500Emulator

        emu = PCE500Emulator(save_lcd_on_exit=False)
        mem = emu.memory
        mem._c11_keepalive = emu
    else:
        mem = PCE500Memory()
    if cfg.get("fill") is not None:
        k = cfg["fill"]
        blob = _FILL_CACHE.get(k)
        if blob is None:
            blob = M.pat_bytes(k, 0, 0xFFF00)
            _FILL_CACHE[k] = blob
        mem.external_memory[0:0xFFF00] = blob  # RAM power-on content; the last 256 bytes are left alone
    rom = cfg.get("rom")
    if rom is not None:
        mem.load_rom(M.pat_bytes(rom["k"], M.ROM_LO, 0x40000))
    ovl = cfg.get("ovl") or []
    for stp in M.steps(cfg):  # card-slot calls and overlay registrations in the configured order
        if stp[0] == "card":
            card = stp[1]
            mem.load_memory_card(M.pat_bytes(card["k"], M.CARD_LO, card["size"]), card["size"],
                                 writable=card.get("writable", True))
        elif stp[0] == "rej":
            rej_py(mem, stp)
        elif stp[0] == "rm":
            mem.remove_overlay(f"x{stp[1]}")
        elif stp[0] == "slot":
            mem.set_memory_card_present(bool(stp[1]))
        else:
            i = stp[1]
            o = ovl[i]
            if o["kind"] == "ram":
                mem.add_ram(o["start"], o["size"], f"x{i}")
            else:
                mem.add_rom(o["start"], M.pat_bytes(o["k"], o["start"], o["size"]), f"x{i}")
    return mem


def py_exec(mem: Any, op: List[Any]) -> int:
    if op[0] == "rej":
        rej_py(mem, op)
        return 0
    kind, addr, bits = op[0], op[1], op[2]
    typed = op[-1] == "t"
    if kind == "st":
        v = op[3]
        if not typed:
            mem.write_bytes(bits // 8, addr, v)
        elif bits == 8:
            mem.write_byte(addr, v)
        elif bits == 16:
            mem.write_word(addr, v)
        else:
            mem.write_long(addr, v)
        return 0
    if not typed:
        return int(mem.read_bytes(addr, bits // 8))
    if bits == 8:
        return int(mem.read_byte(addr))
    if bits == 16:
        return int(mem.read_word(addr))
    return int(mem.read_long(addr))


# ------------------------------------------------------------------------------------------ verdicts
def _where(m: M.Model, op: List[Any]) -> str:
    if op[0] == "rej":
        return f"{m.kind} rej/{op[1]}"
    regions, flags = M.describe(m, op[1], op[2] // 8)
    via = op[-1]
    return f"{m.kind} {op[0]}{op[2]}/{via} [{','.join(flags)}] {regions}"


TAINT_FLAGS = {"hi-mapped", "ovl-edge", "ro-edge", "int-end", "ext-top", "mir-split"}


class Checker:
    """Steps the reference model alongside the observations of one machine."""

    def __init__(self, case: Dict[str, Any]) -> None:
        self.case = case
        self.m, self.sent, self.plan = plan(case)
        self.idx = 0
        self.stop = False  # set when the machine must end although no violation was found (see step)

    def step(self, ret: int, pv: List[int]) -> Optional[Violation]:
        m = self.m
        op = self.case["ops"][self.idx]
        probes = self.plan[self.idx]
        self.idx += 1
        if op[0] == "rej":
            return self._step_rej(op, probes, ret, pv)
        kind, addr, bits = op[0], op[1], op[2]
        n = bits // 8
        cells = m.cells(addr, n)
        tagged = [(a, "sentinel") for a in self.sent] + list(probes)
        if len(pv) != len(tagged):
            raise HarnessError(f"probe count mismatch: {len(pv)} values for {len(tagged)} probes")
        before = {m.canon(a): m.get(m.canon(a)) for a, _ in tagged}
        for c in cells:
            before.setdefault(c, m.get(c))
        written: List[int] = []
        if kind == "st":
            written = [(op[3] >> (8 * i)) & 0xFF for i in range(n)]
            m.store(addr, n, op[3])
        where = _where(m, op)
        if not m.py and m.ovlp_spans and any(m.info(c)[1] == "ovlp" for c in cells):
            # Rust models: an access in one of the multi-byte / high-alias situations of the known findings that
            # touches overlap cells cannot be judged reliably by the "behaves like ONE of the covering overlays"
            # oracle (a store the implementation loses looks like a read-only overlay winning).  It is still
            # checked, but the machine ends here so that a wrongly dropped candidate cannot taint later verdicts.
            if set(M.describe(m, addr, n)[1]) & TAINT_FLAGS:
                self.stop = True
        shown = {"cfg": self.case["cfg"], "ops": self.case["ops"][: self.idx],
                 "sent_seed": self.case.get("sent_seed", 0), "profile": self.case.get("profile", "mixed")}
        if ret < 0:
            what = "api returned None" if ret == -1 else "CoreRuntime.step returned Err"
            return Violation("api", where, what, shown, f"op #{self.idx - 1} {op}: {what}")
        syms: List[str] = []
        det: List[str] = []
        ret_bad = False
        tgt_bad = False
        other_tags: List[str] = []
        canon_seen: Dict[int, int] = {}
        reported = set()
        ns = len(self.sent)
        # canonical-address probes first (op-related before sentinels): they are compared with the model.  A probe
        # through a non-canonical address is then compared with what the canonical address of the same cell just
        # read ("all aliases of a location read the same value" -- model-free), or with the model when the
        # canonical address was not read.
        canon_first = [k for k in range(ns, len(tagged)) if m.canon(tagged[k][0]) == tagged[k][0]]
        cf = set(canon_first)
        order = canon_first + list(range(ns)) + [k for k in range(ns, len(tagged)) if k not in cf]
        for k in order:
            (a, tag), v = tagged[k], pv[k]
            c = m.canon(a)
            if v < 0:
                syms.append(f"{tag}:probe-none")
                det.append(f"probe {a:#x} returned None")
                other_tags.append(tag)
                continue
            if a != c and c in canon_seen:
                if v != canon_seen[c]:
                    syms.append(f"{tag}:differs-from-canonical")
                    det.append(f"{tag} probe {a:#x} reads {v:#04x} but canonical {c:#x} ({m.info(c)[0]}) reads "
                               f"{canon_seen[c]:#04x}")
                    other_tags.append(tag)
                continue
            if a == c:
                if c in canon_seen:
                    continue
                canon_seen[c] = v
            if m.observe(c, v):
                continue
            if c in reported:
                continue
            reported.add(c)
            old = before.get(c)
            cls = m.info(c)[1]
            if cls == "ovlp":
                # overlap of overlays that are all RAM / all read-only: the usual vocabulary applies
                kinds = m.ovlp_classes(c)
                if kinds == {"ram"}:
                    cls = "ram"
                elif kinds <= {"ro", "absent"}:
                    cls = "ro"
            if tag == "target":
                tgt_bad = True
                if cls == "ovlp":
                    # overlays of different kinds: name the outcome in the usual vocabulary where it is determined
                    olds = old if isinstance(old, tuple) else (old,)
                    if kind == "st" and v in olds:
                        what = "lost"          # unchanged although a RAM overlay is among the candidates
                    elif kind == "st" and v in written:
                        what = "ro-written"    # changed although only read-only candidates are left
                    else:
                        what = "fits-no-overlay"
                elif kind == "st" and cls == "ram":
                    olds = old if isinstance(old, tuple) else (old,)
                    what = "lost" if v in olds else "wrong"
                elif kind == "st":
                    what = "ro-written" if v in written else "ro-changed"
                else:
                    what = "differs"
            else:
                other_tags.append(tag)
                if tag == "sentinel":
                    tag = f"sentinel({m.info(c)[0]})"
                if cls == "ovlp":
                    what = "fits-no-overlay"
                elif kind == "st":
                    what = "got-written-byte" if v in written else "changed"
                else:
                    what = "differs"
            syms.append(f"{tag}:{what}")
            det.append(f"{tag} probe {a:#x} (cell {c:#x}, {m.info(c)[0]}) reads {v:#04x}, model {m.get(c)!r}"
                       f" (before op: {old!r})")
        if kind == "ld":
            # after the byte probes, so that cells whose content the model does not know are adopted from byte
            # reads (loads have no effect on memory, so the order of the comparisons is free)
            for i, c in enumerate(cells):
                b = (ret >> (8 * i)) & 0xFF
                if m.cpu and bits == 24 and i == 2:
                    # MV X,[lmn] keeps 20 bits: only the low nibble of the third byte is observable
                    cur = m.get(c)
                    ok = True
                    if m.info(c)[1] != "dev" and cur is not None:
                        allowed = cur if isinstance(cur, tuple) else (cur,)
                        ok = any((x & 0x0F) == (b & 0x0F) for x in allowed)
                else:
                    ok = m.observe(c, b)
                if not ok:
                    ret_bad = True
                    syms.append(f"ret:byte{i}")
                    det.append(f"returned byte{i}={b:#04x} but cell {c:#x} holds {m.get(c)!r}")
        if kind == "ld":
            # model-free: the multi-byte load must equal the composition of byte loads at the same addresses
            byaddr = {tagged[k][0]: pv[k] for k in range(len(tagged))}
            parts = [byaddr.get((addr + i) & 0xFFFFFFFF) for i in range(n)]
            if all(p is not None and p >= 0 for p in parts) and not any(m.info(c)[1] == "dev" for c in cells):
                comp = sum(p << (8 * i) for i, p in enumerate(parts))
                mask = 0xFFFFF if (m.cpu and bits == 24) else (1 << bits) - 1
                if (comp ^ ret) & mask:
                    syms.append("compose:load!=bytes")
                    det.append(f"load{bits} returned {ret:#x} but byte loads at the same addresses compose to {comp:#x}")
        if not syms:
            return None
        if ret_bad or "compose:load!=bytes" in syms:
            sub = "load-value"
        elif tgt_bad:
            sub = "store-effect" if kind == "st" else "stale-cell"
        elif all(t.startswith("alias") for t in other_tags):
            sub = "alias-read"
        else:
            sub = "frame"
        symptom = ";".join(sorted(set(syms)))
        return Violation(sub, where, symptom, shown,
                         f"op #{self.idx - 1} {op[0]}{bits} @{addr:#x}"
                         + (f" value {op[3]:#x}" if kind == "st" else f" -> {ret:#x}") + ": " + "; ".join(det[:6]))


    def _step_rej(self, op: List[Any], probes: List[Tuple[int, str]], ret: int, pv: List[int]) -> Optional[Violation]:
        """A rejected / empty configuration call: the model does nothing, so every sentinel and the cells of the
        latest stores must read what they read before (statement: no location changes without a store to it; what
        was written to a RAM location is what is next read)."""
        m = self.m
        tagged = [(a, "sentinel") for a in self.sent] + list(probes)
        if len(pv) != len(tagged):
            raise HarnessError(f"probe count mismatch: {len(pv)} values for {len(tagged)} probes")
        syms: List[str] = []
        det: List[str] = []
        seen = set()
        for (a, tag), v in zip(tagged, pv):
            c = m.canon(a)
            if c in seen:
                continue
            seen.add(c)
            if tag == "sentinel":
                tag = f"sentinel({m.info(c)[0]})"
            if v < 0:
                syms.append(f"{tag}:probe-none")
                det.append(f"probe {a:#x} returned None")
                continue
            old = m.get(c)
            if m.observe(c, v):
                continue
            syms.append(f"{tag}:changed")
            det.append(f"{tag} probe {a:#x} (cell {c:#x}, {m.info(c)[0]}) reads {v:#04x}, before the call {old!r}")
        if not syms:
            return None
        shown = {"cfg": self.case["cfg"], "ops": self.case["ops"][: self.idx],
                 "sent_seed": self.case.get("sent_seed", 0), "profile": self.case.get("profile", "mixed")}
        return Violation("frame", _where(m, op), ";".join(sorted(set(syms))), shown,
                         f"op #{self.idx - 1} rejected/empty configuration call {op[1:]}: " + "; ".join(det[:6]))


# ------------------------------------------------------------------------------------------ composition twin
# rs-cpu only.  The reference model never value-checks device registers, so for wide accesses inside the internal
# memory window (which holds the KOL/KOH/KIL, E-port and SIO register block at 0xF0-0xFA) the statement's "multi-byte
# loads and stores equal the little-endian composition of byte accesses" is checked model-free: the same machine
# is run twice through CoreRuntime::step -- once with the history as generated, once with every such wide access
# replaced by its byte accesses in ascending address order -- and after each of them the two runs must agree on
# (a) the loaded value, (b) what CPU byte loads (MV A,(n)) of the access's own bytes return, i.e. the registers
# as the program sees them, not the backing array, and (c) every memory probe.  Grounding: property statement;
# the RuntimeBus comment "Split multi-byte accesses so the keyboard handler sees both bytes".
def twin_applies(op: List[Any]) -> bool:
    if op[0] == "rej":
        return False
    n = op[2] // 8
    a = op[1] & 0xFFFFFF
    return n > 1 and INT <= a and a + n - 1 <= INT + 0xFA


def _twin_requests(case: Dict[str, Any]) -> Tuple[Dict[str, Any], Dict[str, Any], List[Tuple[int, int, int]]]:
    m, sent, pl = plan(case)
    A: List[List[Any]] = []
    B: List[List[Any]] = []
    marks: List[Tuple[int, int, int]] = []
    for k, (op, pr) in enumerate(zip(case["ops"], pl)):
        if op[0] == "rej":
            A.append(["cfg", rej_step_rs(op), []])
            B.append(["cfg", rej_step_rs(op), []])
            continue
        code, regs, ret = cpu_code(op)
        if not twin_applies(op):
            A.append(["x", M.CODE_LO, code, regs, ret, []])
            B.append(["x", M.CODE_LO, code, regs, ret, []])
            continue
        n = op[2] // 8
        raw = [(op[1] + i) & 0xFFFFFF for i in range(n)]
        probes = list(sent) + [a for a, _ in pr] + raw
        obs = [["x", M.CODE_LO, [0x32, 0x80, (a - INT) & 0xFF], {"A": 0}, "A", []] for a in raw]
        marks.append((k, len(A), len(B)))
        A.append(["x", M.CODE_LO, code, regs, ret, probes])
        A += obs
        for i, a in enumerate(raw):
            bop = [op[0], a, 8] + ([(op[3] >> (8 * i)) & 0xFF] if op[0] == "st" else []) + [op[-1]]
            bcode, bregs, bret = cpu_code(bop)
            B.append(["x", M.CODE_LO, bcode, bregs, bret, probes if i == n - 1 else []])
        B += obs
    cfg = _cfg_steps_rs(case["cfg"])
    return ({"mode": "cpu", "cfg": cfg, "sent": [], "ops": A}, {"mode": "cpu", "cfg": cfg, "sent": [], "ops": B},
            marks)


def run_twin_batch(cases: List[Dict[str, Any]]) -> List[Tuple[Optional[Violation], int]]:
    """Composition-twin verdicts for rs-cpu cases: (first violation or None, number of wide accesses compared)."""
    reqs: List[Dict[str, Any]] = []
    marks_of: List[List[Tuple[int, int, int]]] = []
    for case in cases:
        a, b, marks = _twin_requests(case)
        marks_of.append(marks)
        if marks:
            reqs += [a, b]
    results: List[Any] = []
    if reqs:
        req = {"cmd": "c11.run", "cases": reqs}
        try:
            resp = rsclient.shared().call(req)
        except HarnessError:
            resp = rsclient.shared().call(req)  # see run_rs_batch
        if not resp.get("ok"):
            raise HarnessError(f"c11.run (twin) failed: {str(resp)[:300]}")
        results = resp["results"]
    out: List[Tuple[Optional[Violation], int]] = []
    pos = 0
    for case, marks in zip(cases, marks_of):
        if not marks:
            out.append((None, 0))
            continue
        ra, rb = results[pos], results[pos + 1]
        pos += 2
        out.append(_twin_verdict(case, marks, ra, rb))
    return out


def _twin_verdict(case: Dict[str, Any], marks: List[Tuple[int, int, int]], ra: Any, rb: Any
                  ) -> Tuple[Optional[Violation], int]:
    for r in (ra, rb):
        if "ops" not in r:
            msg = r.get("panic") or r.get("error") or "?"
            if "panic" in r:
                return Violation("api", "rs-cpu machine", "panic", dict(case, twin=True), str(msg)[:300]), 0
            raise HarnessError(f"c11 rust harness (twin): {msg}")
    m, sent, pl = plan(case)
    oa, ob = ra["ops"], rb["ops"]
    done = 0
    for k, ia, ib in marks:
        op = case["ops"][k]
        n = op[2] // 8
        tagged = [(a, "sentinel") for a in sent] + list(pl[k]) + [((op[1] + i) & 0xFFFFFF, "own-byte") for i in range(n)]
        syms: List[str] = []
        det: List[str] = []
        ret_a = oa[ia][0]
        rets_b = [ob[ib + i][0] for i in range(n)]
        obs_a = [oa[ia + 1 + i][0] for i in range(n)]
        obs_b = [ob[ib + n + i][0] for i in range(n)]
        if ret_a < 0 or min(rets_b + obs_a + obs_b) < 0:
            shown = {"cfg": case["cfg"], "ops": case["ops"][: k + 1], "sent_seed": case.get("sent_seed", 0),
                     "profile": case.get("profile", "mixed"), "twin": True}
            return Violation("api", _where(m, op), "CoreRuntime.step returned Err", shown, f"op #{k} {op}"), done
        if op[0] == "ld":
            comp = sum((b & 0xFF) << (8 * i) for i, b in enumerate(rets_b))
            mask = 0xFFFFF if op[2] == 24 else (1 << op[2]) - 1
            if (comp ^ ret_a) & mask:
                syms.append("twin:load!=byte-loads")
                det.append(f"load{op[2]} returned {ret_a:#x}, its byte loads compose to {comp:#x}")
        for i in range(n):
            if obs_a[i] != obs_b[i]:
                c = m.canon((op[1] + i) & 0xFFFFFF)
                syms.append(f"twin:cpu-readback({m.info(c)[0]})")
                det.append(f"after the wide access a CPU byte load of {(op[1] + i) & 0xFFFFFF:#x} gives "
                           f"{obs_a[i]:#04x}, after the byte accesses {obs_b[i]:#04x}")
        pa, pb = oa[ia][1], ob[ib + n - 1][1]
        if len(pa) != len(tagged) or len(pb) != len(tagged):
            raise HarnessError("twin probe count mismatch")
        for (a, tag), va, vb in zip(tagged, pa, pb):
            if va != vb:
                if tag == "sentinel":
                    tag = f"sentinel({m.info(m.canon(a))[0]})"
                syms.append(f"twin:{tag}")
                det.append(f"{tag} probe {a:#x} reads {va:#04x} after the wide access, {vb:#04x} after the byte "
                           "accesses")
        done += 1
        if syms:
            shown = {"cfg": case["cfg"], "ops": case["ops"][: k + 1], "sent_seed": case.get("sent_seed", 0),
                     "profile": case.get("profile", "mixed"), "twin": True}
            return Violation("compose", _where(m, op), ";".join(sorted(set(syms))), shown,
                             f"op #{k} {op[0]}{op[2]} @{op[1]:#x}"
                             + (f" value {op[3]:#x}" if op[0] == "st" else "") + ": " + "; ".join(det[:6])), done
    return None, done


def bulk_check(ck: Checker, blob: List[int], api: str) -> Optional[Violation]:
    """End of a machine that ran to completion: the bulk view of the internal memory (Python
    get_internal_memory_bytes(), Rust internal_slice()) must show, for every plain internal RAM byte, what the bus
    reads there -- i.e. the model's value (statement: a byte written to a RAM location is what is next read from it;
    the bulk accessors are documented as "internal memory (256 bytes) as raw bytes").  Device registers and bytes
    covered by an overlay inside the internal window are skipped."""
    m = ck.m
    if len(blob) != 256:
        return Violation("api", f"{m.kind} {api}", "not 256 bytes", ck.case, f"{len(blob)} bytes")
    bad: List[str] = []
    for off in range(256):
        c = INT + off
        if m.info(c)[1] != "ram":
            continue
        cur = m.get(c)
        if isinstance(cur, int) and blob[off] != cur:
            bad.append(f"offset {off:#04x}: bulk view {blob[off]:#04x}, bus/model {cur:#04x}")
    if not bad:
        return None
    return Violation("bulk-view", f"{m.kind} {api}", "int:differs-from-bus", ck.case, "; ".join(bad[:6]))


def run_case(case: Dict[str, Any], rs_result: Any = None) -> Tuple[Optional[Violation], int]:
    """Execute + check one machine. Returns (first violation or None, number of ops checked)."""
    if case.get("twin"):
        return run_twin_batch([case])[0]
    ck = Checker(case)
    kind = case["cfg"]["model"]
    if kind.startswith("py"):
        try:
            mem = make_py(case["cfg"])
        except Exception as exc:  # configuration API refused a documented configuration
            return Violation("api", f"{kind} configure", f"raises {type(exc).__name__}", case, repr(exc)), 0
        for i, op in enumerate(case["ops"]):
            try:
                ret = py_exec(mem, op)
                pv = [int(mem.read_byte(a)) for a in ck.sent] + [int(mem.read_byte(a)) for a, _ in ck.plan[i]]
            except Exception as exc:
                shown = {"cfg": case["cfg"], "ops": case["ops"][: i + 1], "sent_seed": case.get("sent_seed", 0),
                         "profile": case.get("profile", "mixed")}
                return Violation("api", _where(ck.m, op), f"raises {type(exc).__name__}", shown, repr(exc)), i
            v = ck.step(ret, pv)
            if v is not None:
                return v, i + 1
            if ck.stop:
                return None, i + 1
        try:
            blob = list(mem.get_internal_memory_bytes())
        except Exception as exc:
            return Violation("api", f"{kind} get_internal_memory_bytes", f"raises {type(exc).__name__}", case,
                             repr(exc)), len(case["ops"])
        return bulk_check(ck, blob, "get_internal_memory_bytes"), len(case["ops"])
    if rs_result is None:
        rs_result = run_rs_batch([case])[0]
    if "ops" not in rs_result:
        msg = rs_result.get("panic") or rs_result.get("error") or "?"
        if "panic" in rs_result:
            return Violation("api", f"{kind} machine", "panic", case, str(msg)[:300]), 0
        raise HarnessError(f"c11 rust harness: {msg}")
    nops = len(case["ops"])
    for i, (ret, pv) in enumerate(rs_result["ops"][:nops]):
        v = ck.step(ret, pv)
        if v is not None:
            return v, i + 1
        if ck.stop:
            return None, i + 1
    if len(rs_result["ops"]) > nops:
        return bulk_check(ck, rs_result["ops"][nops][1], "internal_slice"), nops
    return None, nops


# ------------------------------------------------------------------------------------------ non-triviality
def nontrivial(case: Dict[str, Any]) -> bool:
    m = M.Model(case["cfg"])
    stored: Dict[int, set] = {}
    for op in case["ops"]:
        if op[0] == "rej":
            continue
        n = op[2] // 8
        cells = m.cells(op[1], n)
        if op[0] == "st":
            for i, c in enumerate(cells):
                if m.info(c)[1] in ("ro", "absent"):
                    return True
                stored.setdefault(c, set()).add((op[1] + i) & 0xFFFFFFFF)
        else:
            for i, c in enumerate(cells):
                raws = stored.get(c)
                if raws and ((op[1] + i) & 0xFFFFFFFF) not in raws:
                    return True
                if raws and n > 1:
                    return True
    return False


# ------------------------------------------------------------------------------------------ exploration
def _shard(task: Tuple[int, int, str, int, int]) -> Report:
    shard, seed, kind, count, nops = task
    rep = Report()
    cases: List[Tuple[Dict[str, Any], List[str]]] = []
    for j in range(count):
        case, labels = G.gen_case(seed, shard, j, kind, nops)
        cases.append((case, labels))
    results: List[Any] = [None] * len(cases)
    if kind.startswith("rs"):
        B = 24
        for i in range(0, len(cases), B):
            chunk = [c for c, _ in cases[i:i + B]]
            results[i:i + B] = run_rs_batch(chunk)
    twins: List[Tuple[Optional[Violation], int]] = [(None, 0)] * len(cases)
    if kind == "rs-cpu":
        B = 24
        for i in range(0, len(cases), B):
            twins[i:i + B] = run_twin_batch([c for c, _ in cases[i:i + B]])
    for (case, labels), res, (tv, tn) in zip(cases, results, twins):
        v, checked = run_case(case, res)
        lab = [f"model:{kind}", f"profile:{case['profile']}"] + sorted(set(labels))
        if tn or tv is not None:
            lab.append("twin:wide-imem-access-compared")
            rep.extra["twin_compared"] = rep.extra.get("twin_compared", 0) + tn
            for op in case["ops"]:
                if twin_applies(op):
                    lo = (op[1] & 0xFFFFFF) - INT
                    hi = lo + op[2] // 8 - 1
                    if lo < 0xF0 <= hi:
                        lab.append("twin:" + op[0] + "-reaching-into-device-block")
                    elif lo <= 0xF2 < hi:
                        lab.append("twin:" + op[0] + "-running-out-of-keyboard-block")
                    elif lo >= 0xF0:
                        lab.append("twin:" + op[0] + "-inside-device-block")
        if tv is not None:
            rep.violate(tv)
            lab.append("twin:violation")
        cfg = case["cfg"]
        lab.append("cfg:rom=" + (cfg["rom"]["api"] if cfg.get("rom") else "none"))
        oc = M.card_outcome(cfg)
        lab.append("cfg:card=" + ("reseat" if oc["reseat"] else
                                  ("absent" if oc["absent"] and not oc["card"] else
                                   (str(oc["card"]["size"] // 1024) + "K" if oc["card"] else "default"))))
        cs = [x[0] + ("" if x[0] == "card" else ("+" if x[1] else "-")) for x in M.steps(cfg) if x[0] != "ovl"]
        lab.append("cfg:card-seq=" + (">".join(cs) if cs else "none"))
        if cfg.get("ovl"):
            lab.append("cfg:overlays")
            kinds = [x[0] for x in M.steps(cfg)]
            if "ovl" in kinds and any(k != "ovl" for k in kinds[kinds.index("ovl"):]):
                lab.append("cfg:overlay-before-card-call")
        if cfg.get("rom") and cfg["rom"]["api"] == "sysimg":
            ln = cfg["rom"]["len"]
            lab.append("cfg:sysimg=" + ("full-1MiB" if ln == 0x100000 else ("longer" if ln > 0x100000 else
                                        ("window-sized" if ln == 0x40000 else "short"))))
        if cfg.get("ro"):
            lab.append("cfg:ro-ranges")
        if cfg.get("mirror"):
            lab.append("cfg:mirror")
        m = M.Model(cfg)
        if m.ovlp_spans:
            lab.append("cfg:overlapping-overlays")
        if any(o["start"] >= INT for o in cfg.get("ovl") or []):
            lab.append("cfg:overlay-inside-internal-window")
        for x in M.steps(cfg):
            if x[0] == "rej":
                lab.append("cfg:rejected-call:" + x[1])
        if any(x[0] == "rm" for x in M.steps(cfg)):
            lab.append("cfg:overlay-removed-again" if len(M.live_overlays(cfg)) < len(cfg.get("ovl") or [])
                       else "cfg:remove-before-registration")
        narrow = G.narrow_regions(m)
        if narrow:
            lab.append("cfg:narrow-region(1-3 bytes)")
        sysfull = bool(cfg.get("rom")) and cfg["rom"]["api"] == "sysimg" and cfg["rom"]["len"] >= 0x100000
        after_rej = False
        for op in case["ops"][:checked]:
            if op[0] == "rej":
                lab.append("op:rej:" + op[1])
                after_rej = True
                continue
            regions, flags = M.describe(m, op[1], op[2] // 8)
            if after_rej and ("card" in regions or "ovlp" in regions or "oram" in regions):
                lab.append("op:" + op[0] + "-in-overlay-after-rejected-call")
            if narrow and op[2] > 8:
                cs = m.cells(op[1], op[2] // 8)
                for lo, hi in narrow:
                    if cs[0] < lo and hi < cs[-1] and cs[-1] - cs[0] == len(cs) - 1:
                        lab.append(f"op:{op[0]}{op[2]}/{op[-1]}-enclosing-narrow-region")
                        rep.extra["enclosing_accesses"] = rep.extra.get("enclosing_accesses", 0) + 1
                    elif cs[0] <= hi and lo <= cs[-1] and cs[-1] - cs[0] == len(cs) - 1:
                        lab.append(f"op:{op[0]}-across-narrow-region-edge")
            if sysfull and op[0] == "st" and any(r in ("ro", "rom") for r in regions.split("|")):
                lab.append("op:st-into-readonly-window-of-full-system-image")
                rep.extra["sysimg_ro_stores"] = rep.extra.get("sysimg_ro_stores", 0) + 1
            if "int-ovlp" in regions:
                lab.append("op:" + op[0] + "-in-internal-overlay")
            if "ovlp" in regions:
                lab.append("op:" + op[0] + "-in-overlap")
            lab.append(f"op:{op[0]}{op[2]}")
            for f in flags:
                lab.append(f"flag:{f}")
            if "|" in regions:
                lab.append("flag:straddle")
        if v is not None:
            rep.violate(v)
            lab.append("stopped-at-violation")
        elif checked < len(case["ops"]):
            lab.append("stopped-at-unjudgeable-overlap-access")
        rep.extra["ops_checked"] = rep.extra.get("ops_checked", 0) + checked
        nt = nontrivial({"cfg": cfg, "ops": case["ops"][:checked]})
        sample = None
        if len(rep.samples) < 2:
            sample = {"cfg": cfg, "profile": case["profile"], "ops": case["ops"][:6], "n_ops": len(case["ops"])}
        rep.case(jhash([cfg, case["ops"][:checked]]) if nt else None, sorted(set(lab)), sample)
    return rep


def selftest() -> None:
    """Trusted-base checks: CPU encodings decode to the intended instructions; pattern data agrees with Rust."""
    from .. import textparse as TP

    want = {(0xA8, "lmn"): "MV[n],A", (0xAA, "lmn"): "MV[n],BA", (0xAC, "lmn"): "MV[n],X",
            (0x88, "lmn"): "MVA,[n]", (0x8A, "lmn"): "MVBA,[n]", (0x8C, "lmn"): "MVX,[n]",
            (0xA0, "imem"): "MV(n),A", (0xA2, "imem"): "MV(n),BA", (0xA4, "imem"): "MV(n),X",
            (0x80, "imem"): "MVA,(n)", (0x82, "imem"): "MVBA,(n)", (0x84, "imem"): "MVX,(n)"}
    for (opc, via), shape in want.items():
        code = bytes([opc, 0x34, 0x12, 0x05]) if via == "lmn" else bytes([0x32, opc, 0x34])
        r = TP.tokens(code + bytes(8))
        got = TP.shape(r[0]).replace(" ", "") if r else None
        if got != shape or r[1] != len(code):
            raise HarnessError(f"C11 selftest: encoding {code.hex()} decodes to {got!r}, expected {shape!r}")
    idx = [0, 1, 255, 256, 0x3FFFF, 0xC0000, 0xFFFFF, 0x12345]
    resp = rsclient.shared().call({"cmd": "c11.pat", "k": 5, "idx": idx})
    if resp.get("values") != [M.pat(5, i) for i in idx]:
        raise HarnessError("C11 selftest: pattern generator differs between Python and Rust")
    if M.pat_bytes(5, 0xBFFF0, 0x30) != bytes(M.pat(5, 0xBFFF0 + i) for i in range(0x30)):
        raise HarnessError("C11 selftest: pat_bytes != pat")


def run(ctx: Ctx) -> Report:
    rsclient.build()
    selftest()
    per_kind = {"py": ctx.pick(480, 7200), "py-emu": ctx.pick(160, 1600),
                "rs": ctx.pick(480, 7200), "rs-cpu": ctx.pick(320, 4000)}
    nops = ctx.pick(40, 60)
    tasks = []
    shard = 0
    for kind in KINDS:
        nsh = ctx.pick(4, 16)
        for s in range(nsh):
            tasks.append((shard, ctx.seed, kind, per_kind[kind] // nsh, nops))
            shard += 1
    reports = ctx.pmap(_shard, tasks)
    rep = ctx.merge_reports(reports)
    rep.rule = RULE
    rep.assumptions = [
        "canonical forms are per model, from the documentation: Python = 24-bit wrap, every address >= 0x100000 is "
        "internal modulo 256; Rust = 24-bit wrap, internal window 0x100000-0x1000FF only, everything else modulo "
        "1 MiB, then (mirror on) 0x80000-0xBFFFF -> 0xB8000 + (a mod 0x8000)",
        "a Python/Rust disagreement is not a verdict (each model is checked against its own documented map)",
        "cells whose writability is undocumented (card slot beyond the card's size; CoreRuntime::load_rom without a "
        "read-only map) may behave as RAM or as ROM, but must behave as memory",
        "precedence between overlapping overlays is undocumented: a cell covered by several overlays (user overlays, "
        "card window, Python ROM image) must behave consistently like ONE of them (candidates are dropped as "
        "observations contradict them); Rust machines end after an access that is in one of the known multi-byte / "
        "high-alias situations AND touches overlap cells (a lost store would look like a read-only overlay winning)",
        "card-slot calls: the later call wins (a card loaded after the slot was declared absent is present; absent "
        "after load = absent; Python present-after-absent brings the card back; Rust present-after-absent-after-load: "
        "window content unspecified but memory-like); beyond a small card's end: unspecified but memory-like",
        "overlays inside the Rust mirror window and read-only ranges over non-canonical mirror aliases are not "
        "generated (lookup order undocumented)",
        "rs-cpu composition twin: wide accesses inside internal memory 0x00-0xFA only (keyboard/E-port/SIO register "
        "block included, LCD port windows excluded: their address-decoded command/data ports are C15's subject); byte "
        "accesses in ascending address order; observation = MV A,(n) of the access's own bytes + all memory probes",
        "device cells (py-emu: IMEM 0xF0-0xF2, LCD 0x2000-0x2FFF and 0xA000-0xAFFF; rs-cpu: IMEM 0xF0-0xFF, LCD "
        "0x2000-0x2FFF and 0xA000-0xAFFF) are never value-checked; rs-cpu never targets IMEM 0xFB-0xFF",
        "RAM power-on content is injected through the backing store (external_memory slice / load_external)",
        "rs-cpu 24-bit accesses use MV [lmn],X / MV X,[lmn]: 20 significant bits",
        "overlays registered inside the internal window 0x100000-0x1000FF: whether the internal memory consults the "
        "overlay table is undocumented (Rust never does; Python only inside the key-port block) -> a covered byte "
        "must behave consistently like the plain internal byte or like the overlay; every internal byte NOT covered "
        "stays plain internal RAM.  Python: generated only next to a ROM image (the ROM-less top-256 aliasing is a "
        "known finding of its own); py-emu / rs-cpu: never over the device registers 0xF0-0xFF",
        "an overlay removed again before the first access counts as never registered (overlay data is separate "
        "from the base array in both implementations' documented constructors)",
        "rejected / empty configuration calls are no-ops of the model; whether the call reports its refusal "
        "(Err / exception) is not judged, only that no location changes.  Python add_ram(start, 0) / add_rom(start, "
        "b'') are generated for external start addresses only",
        "bulk view (end of machine, only when no violation occurred): plain internal RAM bytes only; device "
        "registers and bytes under an internal overlay are skipped",
        "a machine stops at its first violating operation",
    ]
    return rep


def replay(ctx: Ctx, case: Dict[str, Any]) -> List[Violation]:
    if not case["cfg"]["model"].startswith("py"):
        rsclient.build()
    v, _ = run_case(case)
    return [v] if v is not None else []


# ------------------------------------------------------------------------------------------ shrinking
def shrink(ctx: Ctx, v: Violation) -> Violation:
    """Greedy minimisation preserving the fingerprint: drop ops, drop configuration items, simplify values."""
    key = v.key()
    best = v
    budget = [120]

    def attempt(case: Dict[str, Any]) -> Optional[Violation]:
        if budget[0] <= 0:
            return None
        budget[0] -= 1
        try:
            M.Model(case["cfg"])
            w, _ = run_case(case)
        except Exception:
            return None
        if w is not None and w.key() == key:
            return w
        return None

    case = copy.deepcopy(best.case)
    # 1. drop earlier operations (the last one is the violating one)
    i = 0
    while i < len(case["ops"]) - 1:
        trial = copy.deepcopy(case)
        del trial["ops"][i]
        w = attempt(trial)
        if w is not None:
            case, best = copy.deepcopy(w.case), w
        else:
            i += 1
    # 2. drop configuration items
    def drop_cfg(trial: Dict[str, Any], k: str, j: Optional[int]) -> None:
        """Remove cfg[k] (or its j-th item), keeping the overlay indices inside cfg["seq"] consistent."""
        cfg = trial["cfg"]
        if j is None:
            del cfg[k]
        else:
            del cfg[k][j]
        if k == "ovl" and cfg.get("seq") is not None:
            seq = []
            for x in cfg["seq"]:
                if x[0] not in ("ovl", "rm"):
                    seq.append(x)
                elif j is not None and x[1] != j:
                    seq.append([x[0], x[1] - (1 if x[1] > j else 0)])
            cfg["seq"] = seq

    for k in ("ovl", "ro", "card", "slot", "rom", "map", "fill"):
        if k in case["cfg"] and case["cfg"][k] not in (None, False):
            trial = copy.deepcopy(case)
            drop_cfg(trial, k, None)
            w = attempt(trial)
            if w is not None:
                case, best = copy.deepcopy(w.case), w
    for k in ("ovl", "ro", "seq"):
        items = case["cfg"].get(k) or []
        j = 0
        while j < len(items) and (len(items) > 1 or k == "seq"):
            if k == "seq" and items[j][0] == "ovl":
                j += 1
                continue
            trial = copy.deepcopy(case)
            drop_cfg(trial, k, j)
            w = attempt(trial)
            if w is not None:
                case, best = copy.deepcopy(w.case), w
                items = case["cfg"].get(k) or []
            else:
                j += 1
    if case["cfg"].get("mirror"):
        trial = copy.deepcopy(case)
        trial["cfg"]["mirror"] = False
        w = attempt(trial)
        if w is not None:
            case, best = copy.deepcopy(w.case), w
    # 3. strip alias bits that do not matter
    for j, op in enumerate(case["ops"]):
        if op[0] == "rej":
            continue
        for cand in (op[1] & 0xFFFFFF, op[1] & 0xFFFFF):
            if cand != op[1]:
                trial = copy.deepcopy(case)
                trial["ops"][j][1] = cand
                w = attempt(trial)
                if w is not None:
                    case, best = copy.deepcopy(w.case), w
                    break
    return best
