"""C09 helper: the FIRST use of the assembler in a process, under a harness-owned schedule.

Phases 1-3 of c09.py run in worker processes that construct thousands of Assembler objects one after the other; whatever
the assembler builds lazily at module level (tables shared by all Assembler objects) is complete after the first few
microseconds of such a worker and stays so.  The statement quantifies over every accepted byte string, not over
"every byte string, provided the process is warm and single-threaded": a plugin start-up, a worker pool or a test
runner with a timeout all hand disassembler text to an Assembler that is the second one of the process while the
first one is still being constructed, or after the first construction was abandoned.

Every case therefore runs in PRISTINE processes: a zygote (a brand-new interpreter started by `Zygote()`, which imports
the assembler but never constructs or calls anything) forks one child per run, so the child's Assembler is the first
of its process by construction, whatever the calling harness process did before.

  activity   ["assemble", text, org]: Assembler() + assemble(".ORG org\\n" + text)      ["construct"]: Assembler() only
  alone      the activity, nothing else (reference: "the unscheduled run"); A's run is line-traced to learn n, the
             number of line events executed in repository frames
  preempt    thread A performs its activity under the line tracer; at its k-th traced line (k = kfrac * n / 10000,
             kfrac generated) A is parked and thread B performs its activity to completion, then A continues
             (the schedule of vp_harness/props/c01_sched.py; if B blocks on a lock held by A, A is resumed after a
             timeout and B joined afterwards, so a lock-protected implementation is not reported)
  interrupt  at its k-th traced line A's activity is abandoned by an asynchronous BaseException (what Ctrl-C or a
             signal-based timeout does); the same thread then performs B's activity
  verdict    A's result (preempt) and B's result equal the results of the unscheduled runs.

No semantics of its own: results are the bytes the repository's assembler returns, or the class of what it raises.
"""

from __future__ import annotations

import json
import os
import re
import select
import subprocess
import sys
import threading
from typing import Any, Callable, Dict, List, Optional, Tuple

REPO_MARK = "/sc62015/"
CHILD_TIMEOUT = 60.0


class _Abandon(BaseException):
    """Asynchronous interruption of an activity (not an Exception: the code under test must not swallow it)."""


# --------------------------------------------------------------------------------------------------- in the child
def _perform(activity: List[Any]) -> List[Any]:
    from sc62015.pysc62015.sc_asm import Assembler

    try:
        asm = Assembler()
        if activity[0] == "construct":
            return ["constructed"]
        _, text, org = activity
        return ["bytes", bytes(asm.assemble(f".ORG 0x{org:05X}\n{text}\n").as_binary()).hex()]
    except Exception as exc:  # noqa: BLE001 - a rejection is a result
        return ["rejected", type(exc).__name__, str(exc).split("\n")[0][:200]]


def _traced(fn_a: Callable[[], Any], k: int, on_k: Optional[Callable[[], None]]) -> Tuple[Any, int, Optional[str]]:
    """Run fn_a under a line tracer restricted to repository frames; at the k-th traced line call on_k (which may
    raise).  Returns (result of fn_a or ['abandoned'], traced lines, 'file:function' of the k-th line)."""
    st: Dict[str, Any] = {"n": 0, "fired": False, "at": None}

    def local(frame: Any, event: str, arg: Any) -> Any:
        if event == "line":
            if on_k is not None and not st["fired"] and st["n"] == k:
                st["fired"] = True
                st["at"] = os.path.basename(frame.f_code.co_filename) + ":" + frame.f_code.co_name
                st["n"] += 1
                on_k()
                return local
            st["n"] += 1
        return local

    def glob(frame: Any, event: str, arg: Any) -> Any:
        if REPO_MARK in frame.f_code.co_filename:
            return local
        return None

    old = sys.gettrace()
    sys.settrace(glob)
    try:
        res = fn_a()
    except _Abandon:
        res = ["abandoned"]
    finally:
        sys.settrace(old)
    return res, st["n"], st["at"]


def child_run(req: Dict[str, Any]) -> Dict[str, Any]:
    mode = req["mode"]
    if mode == "alone":
        if req.get("trace"):
            res, n, _ = _traced(lambda: _perform(req["a"]), -1, None)
            return {"res": res, "lines": n}
        return {"res": _perform(req["a"])}
    k = int(req["k"])
    if mode == "preempt":
        box: Dict[str, Any] = {"res_b": ["not-run"], "thread": None}

        def fire() -> None:
            def body() -> None:
                box["res_b"] = _perform(req["b"])

            th = threading.Thread(target=body, daemon=True)
            box["thread"] = th
            th.start()
            th.join(5.0)

        res_a, n, at = _traced(lambda: _perform(req["a"]), k, fire)
        th = box["thread"]
        if th is not None and th.is_alive():
            th.join(30.0)
            if th.is_alive():
                box["res_b"] = ["blocked"]
        return {"res_a": res_a, "res_b": box["res_b"], "lines": n, "at": at}
    if mode == "interrupt":
        def abandon() -> None:
            raise _Abandon()

        res_a, n, at = _traced(lambda: _perform(req["a"]), k, abandon)
        return {"res_a": res_a, "res_b": _perform(req["b"]) if at is not None else ["not-run"], "lines": n, "at": at}
    return {"error": f"unknown mode {mode}"}


# --------------------------------------------------------------------------------------------------- the zygote
def _zygote_main() -> int:
    """stdin: one JSON request per line; stdout: one JSON answer per line.  Every request is answered by a forked child;
    this process imports the code under test but never calls it."""
    proto_out = os.dup(1)
    devnull = os.open(os.devnull, os.O_WRONLY)
    os.dup2(devnull, 1)       # whatever the code under test prints must not reach the protocol channel
    from binja_test_mocks import binja_api  # noqa: F401
    import sc62015.pysc62015.sc_asm  # noqa: F401  (imported, nothing constructed)

    out = os.fdopen(proto_out, "w")
    out.write(json.dumps({"ready": True}) + "\n")
    out.flush()
    for line in sys.stdin:
        line = line.strip()
        if not line:
            continue
        req = json.loads(line)
        r, w = os.pipe()
        pid = os.fork()
        if pid == 0:
            code = 0
            try:
                os.close(r)
                ans = child_run(req)
                data = json.dumps(ans).encode()
                while data:
                    data = data[os.write(w, data):]
            except BaseException as exc:  # noqa: BLE001
                try:
                    os.write(w, json.dumps({"error": f"child crashed: {type(exc).__name__}: {exc}"[:300]}).encode())
                except OSError:
                    pass
                code = 1
            finally:
                os._exit(code)
        os.close(w)
        buf = b""
        timed_out = False
        while True:
            ready, _, _ = select.select([r], [], [], CHILD_TIMEOUT)
            if not ready:
                timed_out = True
                break
            chunk = os.read(r, 65536)
            if not chunk:
                break
            buf += chunk
        os.close(r)
        if timed_out:
            try:
                os.kill(pid, 9)
            except OSError:
                pass
        os.waitpid(pid, 0)
        if timed_out or not buf:
            ans = {"error": "child timed out" if timed_out else "child died without an answer"}
        else:
            ans = json.loads(buf.decode())
        out.write(json.dumps(ans) + "\n")
        out.flush()
    return 0


class Zygote:
    """Client side: a brand-new interpreter (pristine whatever this process has done) serving forked children."""

    def __init__(self) -> None:
        self.proc = subprocess.Popen([sys.executable, "-m", "vp_harness.props.c09_startup"], stdin=subprocess.PIPE,
                                     stdout=subprocess.PIPE, text=True, bufsize=1)
        hello = self.proc.stdout.readline()  # type: ignore[union-attr]
        if not hello or not json.loads(hello).get("ready"):
            raise RuntimeError("pristine-process server did not start")

    def ask(self, req: Dict[str, Any]) -> Dict[str, Any]:
        self.proc.stdin.write(json.dumps(req) + "\n")  # type: ignore[union-attr]
        self.proc.stdin.flush()  # type: ignore[union-attr]
        line = self.proc.stdout.readline()  # type: ignore[union-attr]
        if not line:
            raise RuntimeError("pristine-process server died")
        return json.loads(line)

    def close(self) -> None:
        try:
            self.proc.stdin.close()  # type: ignore[union-attr]
            self.proc.wait(timeout=30)
        except Exception:  # noqa: BLE001
            self.proc.kill()
            self.proc.wait()


# --------------------------------------------------------------------------------------------------- verdict
def norm_rejection(res: List[Any]) -> str:
    """Value-free class of a rejection: exception type + message with numbers, mnemonics and operand reprs removed."""
    msg = str(res[2]) if len(res) > 2 else ""
    msg = re.sub(r"^on line \d+: ", "", msg)
    msg = re.sub(r"(mnemonic:?|opcode for) [A-Z]+", r"\1 <mnemonic>", msg)
    msg = re.sub(r"0x[0-9A-Fa-f]+|\b\d+\b", "N", msg)
    msg = re.sub(r"\[.*", "[..]", msg)
    msg = re.sub(r"'[^']*'", "'..'", msg)
    return f"{res[1]}: " + re.sub(r"\s+", " ", msg).strip()[:80]


def describe(res: List[Any]) -> str:
    if res[0] == "bytes":
        return res[1]
    return " ".join(str(x) for x in res)


def startup_outcome(case: Dict[str, Any], zyg: Zygote) -> Dict[str, Any]:
    """Runs the reference runs and the scheduled run of one case in pristine processes.  Pure data (no Violation
    objects): c09.py turns it into verdicts."""
    ra = zyg.ask({"mode": "alone", "a": case["a"], "trace": True})
    rb = zyg.ask({"mode": "alone", "a": case["b"]})
    if "error" in ra or "error" in rb:
        return {"error": ra.get("error") or rb.get("error")}
    n = int(ra["lines"])
    if n <= 0:
        return {"error": "no repository line traced"}
    k = min(n - 1, (int(case["kfrac"]) * n) // 10000)
    rs = zyg.ask({"mode": case["mode"], "a": case["a"], "b": case["b"], "k": k})
    if "error" in rs:
        return {"error": rs["error"]}
    return {"want_a": ra["res"], "want_b": rb["res"], "got_a": rs["res_a"], "got_b": rs["res_b"], "lines": n, "k": k,
            "at": rs.get("at")}


if __name__ == "__main__":
    sys.exit(_zygote_main())
