"""C07 witness shrinking: greedy field-wise reduction that keeps the fingerprint (bounded work)."""

from __future__ import annotations

import copy
import time
from typing import Any, Callable, Dict, List

from ..core import Ctx, Violation


def _same(ctx: Ctx, replay: Callable[[Ctx, Dict[str, Any]], List[Violation]], case: Dict[str, Any], key: str):
    try:
        for v in replay(ctx, case):
            if v.key() == key:
                return v
    except Exception:
        return None
    return None


def shrink(ctx: Ctx, v: Violation, replay: Callable[[Ctx, Dict[str, Any]], List[Violation]]) -> Violation:
    t_end = time.time() + 45
    key = v.key()
    best = v
    case = copy.deepcopy(v.case)

    def attempt(cand: Dict[str, Any]) -> bool:
        nonlocal best, case
        if time.time() > t_end:
            return False
        r = _same(ctx, replay, cand, key)
        if r is not None:
            best = r
            case = copy.deepcopy(cand)
            return True
        return False

    if case.get("kind") == "split":
        n = case["splits"][0]
        k = int(case["prog"]["steps"])
        for steps in sorted({n + 1, n + 2, n + 3, n + 5, n + 8, n + 13}):
            if steps < k:
                c = copy.deepcopy(case)
                c["prog"]["steps"] = steps
                if attempt(c):
                    break
        return best

    focus = case.get("focus") or {}
    r = int(focus.get("round", 0))
    # 1. the failing round alone
    if len(case["rounds"]) > 1:
        c = copy.deepcopy(case)
        c["rounds"] = [c["rounds"][r]]
        c["focus"] = dict(focus, round=0)
        if not attempt(c) and r + 1 < len(case["rounds"]):
            c = copy.deepcopy(case)
            c["rounds"] = c["rounds"][: r + 1]
            attempt(c)
    r = int((case.get("focus") or {}).get("round", 0))
    # 2. shorter history
    steps = int(case["rounds"][r]["hist"].get("steps", 0))
    for s in [0, 1, 2, 3] + [steps // 8, steps // 4, steps // 2]:
        if 0 <= s < int(case["rounds"][r]["hist"].get("steps", 0)):
            c = copy.deepcopy(case)
            c["rounds"][r]["hist"]["steps"] = s
            if attempt(c):
                break
    # 3. junk parts
    for k in list(case["rounds"][r].get("junk", {}).keys()):
        c = copy.deepcopy(case)
        del c["rounds"][r]["junk"][k]
        attempt(c)
    temps = list((case["rounds"][r].get("junk", {}).get("temps") or {}).keys())
    for t in temps:
        c = copy.deepcopy(case)
        del c["rounds"][r]["junk"]["temps"][t]
        attempt(c)
    return best
