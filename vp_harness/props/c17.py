"""C17 -- every copy of the architecture's tables and constants says the same thing.

Finite and complete: every *item* (one opcode row, one register, one IMEM register, one vector, one
address-space constant, one PRE prefix, one view) is compared across all of its copies:

  Python decoder      sc62015/pysc62015/instr/opcode_table.py, opcodes.py, instructions.py
  Binary Ninja        sc62015/arch.py (SC62015.regs), sc62015/view.py (SEGMENTS)
  Python emulator     sc62015/pysc62015/emulator.py, constants.py, intrinsics.py (+ pce500 copies)
  Snapshot format     pce500/emulator.py _SNAPSHOT_REGISTER_LAYOUT vs snapshot.rs SNAPSHOT_REGISTER_LAYOUT: position
                      and width of every register inside registers.bin, declared and observed, blobs crossed
  Private width tables instructions.REG3_20BIT_REGS, RegPair._regpair_is_20bit, eval.rs reg3_bits / regpair_is_20bit:
                      INC/DEC/ADD/SUB/MV/EX on every register at the boundary of every candidate width, both cores
  Key-port window     KOL..KIL in IMEMRegisters, memory.rs, keyboard.rs, pce500 keyboard handler / overlay and the
                      bus of CoreRuntime::step (byte and wide accesses at every start offset, with / without keyboard)
  Opcode classes      literals / ranges that classify opcodes outside the table: emulator.CALL_STACK_EFFECTS and the
                      WAIT fast path, loop_detector.rs (conditional jumps, RETI), lib.rs CoreRuntime::step (WAIT, RESET,
                      IR, RETI): the set of opcodes each copy puts into the class, observed over all 256 opcodes
  Trace records       pce500/emulator.py's own arithmetic for A/B/IL/IH/FC/FZ in the instruction-trace register
                      record, on a grid of boundary register values, tracing switched off and on (both switches)
  Rust core           llama/opcodes.rs, llama/state.rs, memory.rs, pce500.rs, lib.rs, snapshot.rs (pub items
                      dumped by rust/harness/src/c17.rs) and, for the private copies in llama/eval.rs and
                      lib.rs, behavioural probes (execute IR / RESET / power_on_reset / an interrupt / one
                      instruction and look at what the core actually did).

Comparison is on *normalised* descriptions (my own mapping from class / variant names to shape + width),
never on source text.  A violation's case is {"item": <id>}; replay re-collects everything and re-judges
that one item.
"""

from __future__ import annotations

from collections import Counter
from typing import Any, Callable, Dict, List, Optional, Sequence, Tuple

from ..core import Ctx, HarnessError, Report, Violation, mix32
from .. import pycore, rsclient
from ..gen_state import Stream

PROPERTY = "C17"
RULE = ("finite, complete: one case per duplicated item -- 256 opcode rows (normalised Python row vs Rust row), "
        "one canonical encoding per non-prefix opcode (table-derived length vs Python core vs Rust core), every "
        "register (storage width, effective mask, sub-register layout, r3 / pointer / register-pair selector code), "
        "every register of the serialised register table (position and width inside registers.bin, as declared and "
        "as observed on every pack/unpack route of both languages; each side's blob read back by the other), "
        "every register x instruction family that keeps a private idea of register widths (INC/DEC r3, ADD/SUB/MV/EX "
        "r,r': width observed on both cores at the boundary of every candidate width, against the register files; "
        "the set of 20-bit address registers copy by copy), "
        "every opcode class that some module decides with its own literals or ranges (conditional jumps, call level "
        "up / down, WAIT, IR, RETI, RESET): the set of opcodes in the class as the two tables give it, as declared "
        "(CALL_STACK_EFFECTS) and as observed over all 256 opcodes on the Python core, CoreRuntime::step and the "
        "LoopDetector (direct and fed by the runtime, single steps and one step(n) call), "
        "every register and sub-register name as *reported by name* by the machine emulator (trace-record collectors, "
        "get_cpu_state, the instruction-trace record of the step loop with tracing switched on either way) against "
        "both register files and the declared layouts on a grid of boundary base-register values, "
        "every IMEM register named on "
        "both sides (+ BP/PX/PY as actually used by both cores), the key-port window KOL..KIL in every copy "
        "(constants, predicates, keyboard handlers of both languages, and the CoreRuntime bus observed per direction "
        "x access width at every start offset, keyboard attached vs detached), interrupt and reset vector (constants + "
        "behavioural probes), address-space constants, the 15 PRE prefixes (table vs both cores), and "
        "disjoint / inside / internal-RAM placement per Binary Ninja view -- as declared (SEGMENTS) and as registered "
        "by init() through add_auto_segment / add_auto_section for parent files of generated length (one item per view "
        "x length class: tiny, shorter, one byte short, nominal, one byte long, trailer, landmark = a file-following "
        "segment would end at another segment's edge or the end of the address space, much longer; the lengths inside "
        "a class come from the seeded stream). The sub-register layout is additionally read back after generated write "
        "histories on one register file (one item per family x order class alias-then-whole / whole-then-alias / "
        "interleaved; declared layout applied to the writes vs Python Registers vs Rust LlamaState; for F also executed "
        "programs of flag writers and POPU F / POPS F on both cores, with the last whole-register write alone on a "
        "fresh state as a further copy). The item list is complete; the inputs inside these generated items are a "
        "seeded sample. Non-trivial = an opcode row with "
        ">= 1 operand, or an item with >= 2 independent copies (view-init: a length other than the nominal one with "
        ">= 2 segments registered; write histories: an alias written before a whole-register write that disagrees with "
        "it, or an alias write that changes the parent; executed programs: both kinds of writer on one state); distinct = item id.")

IMEM_BASE_EXPECTED_LEN = 0x100


# --------------------------------------------------------------------------------------------------
# helpers
# --------------------------------------------------------------------------------------------------

class Item:
    """One compared item: id, whether it is non-trivial by RULE, labels, sample, violations."""

    def __init__(self, iid: str, nontrivial: bool, labels: Sequence[str], sample: Any = None) -> None:
        self.id = iid
        self.nontrivial = nontrivial
        self.labels = list(labels)
        self.sample = sample
        self.violations: List[Violation] = []
        self.counts: Dict[str, int] = {}   # inner generated cases of the item (added to the evidence label counts)

    def violate(self, subcheck: str, where: str, symptom: str, detail: str) -> None:
        self.violations.append(Violation(subcheck, where, symptom, {"item": self.id}, detail))


def _hex(v: Any) -> str:
    if isinstance(v, bool) or v is None:
        return str(v)
    if isinstance(v, int):
        return hex(v)
    if isinstance(v, (list, tuple)):
        return "[" + ", ".join(_hex(x) for x in v) + "]"
    return str(v)


def majority(sources: Sequence[Tuple[str, Any]]) -> Any:
    """Most common value; ties are broken by first appearance (deterministic)."""
    cnt: Counter = Counter()
    first: Dict[Any, int] = {}
    for i, (_, v) in enumerate(sources):
        k = _key(v)
        cnt[k] += 1
        first.setdefault(k, i)
    best = sorted(cnt, key=lambda k: (-cnt[k], first[k]))[0]
    for _, v in sources:
        if _key(v) == best:
            return v
    return None


def _key(v: Any) -> Any:
    if isinstance(v, list):
        return tuple(_key(x) for x in v)
    if isinstance(v, dict):
        return tuple(sorted((k, _key(x)) for k, x in v.items()))
    return v


def group_check(item: Item, subcheck: str, sources: Sequence[Tuple[str, Any]],
                symptom_of: Optional[Callable[[Any, Any], str]] = None, topic: Optional[str] = None) -> None:
    """All copies of one fact must be equal.

    With a strict plurality, where = each copy that deviates from it (one fingerprint per deviating copy);
    without one (e.g. two copies that disagree) nobody can be blamed: one verdict, where = the topic."""
    if len(sources) < 2:
        return
    cnt: Counter = Counter(_key(v) for _, v in sources)
    if len(cnt) == 1:
        return
    listing = "; ".join(f"{lb}={_hex(v)}" for lb, v in sources)
    ranked = cnt.most_common()
    if ranked[0][1] == ranked[1][1]:
        item.violate(subcheck, topic or item.id, "the copies disagree and none is in the majority", f"{item.id}: {listing}")
        return
    maj = majority(sources)
    for lb, v in sources:
        if _key(v) != _key(maj):
            sym = symptom_of(v, maj) if symptom_of else "differs from the other copies"
            item.violate(subcheck, lb, sym, f"{item.id}: {listing}")


# --------------------------------------------------------------------------------------------------
# raw (non-canonicalising) memory for Python-side behavioural probes
# --------------------------------------------------------------------------------------------------

class RawMem:
    """Dict-backed memory that logs *raw* addresses (pycore.HashMemory canonicalises, which would hide the
    base address the lifter uses for internal memory)."""

    def __init__(self, init: Optional[Dict[int, int]] = None) -> None:
        self.m: Dict[int, int] = dict(init or {})
        self.reads: List[int] = []
        self.writes: List[Tuple[int, int]] = []

    def read_byte(self, address: int) -> int:
        self.reads.append(address)
        return self.m.get(address, 0)

    def write_byte(self, address: int, value: int) -> None:
        self.writes.append((address, value & 0xFF))
        self.m[address] = value & 0xFF

    def read_bytes(self, address: int, size: int) -> int:
        v = 0
        for i in range(size):
            v |= self.read_byte(address + i) << (8 * i)
        return v

    def write_bytes(self, size: int, address: int, value: int) -> None:
        for i in range(size):
            self.write_byte(address + i, (value >> (8 * i)) & 0xFF)

    def wait_cycles(self, n: int) -> None:
        pass


def py_run(code: bytes, regs: Dict[str, int], mem: Dict[int, int], pc: int = 0x1000) -> Dict[str, Any]:
    """Execute one instruction on the Python emulator over RawMem. Never raises."""
    from sc62015.pysc62015.emulator import Emulator, RegisterName

    init = dict(mem)
    for i, b in enumerate(code):
        init[pc + i] = b
    rm = RawMem(init)
    emu = Emulator(rm, reset_on_init=False)  # type: ignore[arg-type]
    for k, v in regs.items():
        emu.regs.set(RegisterName[k], v)
    emu.regs.set(RegisterName.PC, pc)
    out: Dict[str, Any] = {}
    try:
        info = emu.execute_instruction(pc)
        out["len"] = int(info.instruction_info.length)
    except BaseException as exc:  # noqa: BLE001
        out["err"] = f"{type(exc).__name__}: {str(exc)[:100]}"
    out["pc"] = int(emu.regs.get(RegisterName.PC))
    out["regs"] = {n: int(emu.regs.get(RegisterName[n])) for n in ("BA", "I", "X", "Y", "U", "S", "F")}
    out["reads"] = [a for a in rm.reads if not (pc <= a < pc + 16)]
    out["writes"] = list(rm.writes)
    return out


def rs_run(rust: Any, code: bytes, regs: Dict[str, int], mem: Dict[int, int], pc: int = 0x1000) -> Dict[str, Any]:
    """Execute one instruction on the Rust LlamaExecutor (harness hash bus, seed 0, explicit overrides)."""
    pairs = [[a, v] for a, v in sorted(mem.items())] + [[pc + i, b] for i, b in enumerate(code)]
    # pad with NOPs so that both cores see the same bytes after the instruction
    pairs += [[pc + len(code) + i, 0] for i in range(8)]
    r = dict(regs)
    r["PC"] = pc
    resp = rust.call({"cmd": "cpu.run", "regs": r, "seed": 0, "mem": pairs, "steps": 1, "want_reads": True})
    if not resp.get("ok"):
        return {"err": str(resp.get("error") or resp.get("panic") or resp)[:100]}
    steps = resp.get("steps") or []
    if not steps:
        return {"err": "no step"}
    s = steps[0]
    out: Dict[str, Any] = {}
    if "err" in s:
        out["err"] = s["err"]
    if "len" in s:
        out["len"] = int(s["len"])
    out["pc"] = int(s["regs"]["PC"])
    out["regs"] = {n: int(s["regs"][n]) for n in ("BA", "I", "X", "Y", "U", "S", "F")}
    out["reads"] = [a for a in s.get("reads", []) if not (pc <= a < pc + 16)]
    out["writes"] = [(int(a), int(v)) for a, v in s.get("writes", [])]
    return out


BASE_REGS = {"BA": 0x1234, "I": 0x0001, "X": 0x40000, "Y": 0x41000, "U": 0x50000, "S": 0x51000, "F": 0}


# --------------------------------------------------------------------------------------------------
# A. opcode table
# --------------------------------------------------------------------------------------------------

_IMM_BITS = {"Imm8": 8, "Imm16": 16, "Imm20": 20}
_IMEM_BITS = {"IMem8": 8, "IMem16": 16, "IMem20": 20}


def _modes(op: Any) -> Optional[str]:
    am = getattr(op, "allowed_modes", None)
    if not am:
        return None
    return "|".join(sorted(getattr(m, "name", str(m)) for m in am))


def py_operand(op: Any) -> Dict[str, Any]:
    """Normalised description of a Python operand prototype (by class name)."""
    n = type(op).__name__
    if n == "Reg":
        return {"cls": "Reg", "reg": str(op.reg), "bits": 8 * int(op.width())}
    if n in ("RegIL", "RegB", "RegF", "RegIMR"):
        return {"cls": n}
    if n == "Reg3":
        return {"cls": "Reg3"}
    if n == "RegPair":
        return {"cls": "RegPair", "bytes": op.size}
    if n in _IMM_BITS:
        return {"cls": "Imm", "bits": _IMM_BITS[n]}
    if n == "ImmOffset":
        return {"cls": "ImmOffset", "sign": op.sign}
    if n in _IMEM_BITS:
        return {"cls": "IMem", "bits": _IMEM_BITS[n]}
    if n == "EMemAddr":
        return {"cls": "EMemAddr", "bytes": int(op.width())}
    if n == "EMemReg":
        return {"cls": "EMemReg", "bytes": int(op.width), "modes": _modes(op)}
    if n == "EMemIMem":
        return {"cls": "EMemIMem", "bytes": int(op._width)}
    if n == "RegIMemOffset":
        return {"cls": "RegIMemOffset", "order": op.order.name, "modes": _modes(op)}
    if n == "EMemIMemOffset":
        return {"cls": "EMemIMemOffset", "order": op.order.name}
    return {"cls": "py-only:" + n}


_RS_ORDER = {"DestImem": "DEST_IMEM", "DestRegOffset": "DEST_REG_OFFSET"}


def rs_operand(o: Dict[str, Any]) -> Dict[str, Any]:
    """Normalised description of a Rust OperandKind (by variant name). Fields the Rust variant cannot
    express are absent (and then not compared)."""
    k = o.get("k")
    if k == "Reg":
        return {"cls": "Reg", "reg": o["reg"], "bits": o["n"]}
    if k in ("RegIL", "RegB", "RegF", "RegIMR", "Reg3"):
        return {"cls": k}
    if k == "RegPair":
        return {"cls": "RegPair", "bytes": o["n"]}
    if k == "Imm":
        return {"cls": "Imm", "bits": o["n"]}
    if k == "ImmOffset":
        return {"cls": "ImmOffset"}
    if k == "IMem":
        return {"cls": "IMem", "bits": o["n"]}
    if k == "IMemWidth":
        return {"cls": "IMem", "bits": {1: 8, 2: 16, 3: 20}.get(o["n"], o["n"])}
    if k == "EMemAddrWidth":
        return {"cls": "EMemAddr", "bytes": o["n"]}
    if k == "EMemRegWidth":
        return {"cls": "EMemReg", "bytes": o["n"], "modes": None}
    if k == "EMemRegModePostPre":
        return {"cls": "EMemReg", "modes": "POST_INC|PRE_DEC"}
    if k == "EMemIMemWidth":
        return {"cls": "EMemIMem", "bytes": o["n"]}
    if k == "RegIMemOffset":
        return {"cls": "RegIMemOffset", "order": _RS_ORDER.get(o.get("order"), o.get("order"))}
    if k == "EMemImemOffsetDestIntMem":
        return {"cls": "EMemIMemOffset", "order": "DEST_INT_MEM"}
    if k == "EMemImemOffsetDestExtMem":
        return {"cls": "EMemIMemOffset", "order": "DEST_EXT_MEM"}
    return {"cls": "rust-only:" + str(k), "n": o.get("n")}


# Instruction class (or Opts.name override) -> Rust InstrKind, lower-cased.  Everything not listed maps to
# its own name with '_' removed (JP_Abs -> jpabs, MVW -> mvw, ...).  The merges are the ones the
# repository's generator script (scripts/generate_llama_opcodes.py: kind_map) documents.
_KIND_MERGE = {"jpf": "jpabs", "callf": "call", "adcl": "adc", "exw": "ex", "exp": "ex",
               "unknowninstruction": "unknown"}


def py_row(entry: Any) -> Dict[str, Any]:
    if isinstance(entry, tuple):
        cls, opts = entry
        ops = list(opts.ops or [])
        eff = opts.name or cls.__name__
        return {"cls": cls.__name__, "name": eff, "cond": opts.cond, "rev": bool(opts.ops_reversed),
                "operands": [py_operand(o) for o in ops]}
    return {"cls": entry.__name__, "name": entry.__name__, "cond": None, "rev": False, "operands": []}


def expected_kind(row: Dict[str, Any]) -> str:
    k = row["name"].replace("_", "").lower()
    return _KIND_MERGE.get(k, k)


def short_name(n: str) -> str:
    return n.split("_")[0].upper()


def check_opcode_rows(py_table: Dict[int, Any], rs_rows: List[Dict[str, Any]]) -> List[Item]:
    items: List[Item] = []
    it = Item("opcode-table:shape", True, ["table"], {"python_rows": len(py_table), "rust_rows": len(rs_rows)})
    if sorted(py_table) != list(range(256)):
        it.violate("opcode-table", "python OPCODES", "does not define exactly the 256 opcodes",
                   f"keys: {len(py_table)}")
    if len(rs_rows) != 256:
        it.violate("opcode-table", "rust OPCODES", "does not define exactly the 256 opcodes", f"rows: {len(rs_rows)}")
    items.append(it)
    for op in range(256):
        if op not in py_table or op >= len(rs_rows):
            continue
        p = py_row(py_table[op])
        r = rs_rows[op]
        rops = [rs_operand(o) for o in r["operands"]]
        where = f"opcode {op:02X} {short_name(p['name'])}"
        shape = "+".join(o["cls"] for o in p["operands"]) or "none"
        it = Item(f"opcode:{op:02X}", bool(p["operands"]) or bool(rops),
                  ["row:" + ("operands" if p["operands"] else "no-operands"), "shape:" + shape],
                  {"opcode": f"{op:02X}", "python": p, "rust": {"kind": r["kind"], "name": r["name"],
                                                                  "cond": r["cond"], "rev": r["ops_reversed"],
                                                                  "operands": rops}})
        det = f"python={p} rust={r}"
        if r["opcode"] != op or r["index"] != op:
            it.violate("opcode-row", where, "rust row is stored at the wrong index", det)
        if short_name(r["name"]) != short_name(p["name"]):
            it.violate("opcode-row", where, "mnemonic differs", det)
        if r["kind"].lower() != expected_kind(p):
            it.violate("opcode-row", where, "rust instruction kind does not correspond to the python class", det)
        if (r["cond"] or None) != (p["cond"] or None):
            it.violate("opcode-row", where, "condition differs", det)
        if bool(r["ops_reversed"]) != p["rev"]:
            it.violate("opcode-row", where, "ops_reversed differs", det)
        if len(rops) != len(p["operands"]):
            it.violate("opcode-row", where, "operand count differs", det)
        else:
            for i, (a, b) in enumerate(zip(p["operands"], rops)):
                if a["cls"] != b["cls"]:
                    it.violate("opcode-row", where, f"operand {i} class differs", det)
                    continue
                for fld in ("reg", "bits", "bytes", "order", "modes"):
                    if fld in b and a.get(fld) != b.get(fld):
                        sym = {"reg": "register", "bits": "width", "bytes": "width", "order": "order",
                               "modes": "allowed addressing modes"}[fld]
                        it.violate("opcode-row", where, f"operand {i} {sym} differs", det)
        items.append(it)
    return items


# ---- canonical encodings: the encoded length is a function of operand shapes + widths -------------

def canonical_operand_bytes(o: Dict[str, Any], idx: int) -> bytes:
    c = o["cls"]
    if c in ("Reg", "RegIL", "RegB", "RegF", "RegIMR"):
        return b""
    if c == "Reg3":
        return bytes([0x04])
    if c == "RegPair":
        return bytes([{1: 0x01, 2: 0x23, 3: 0x45}.get(o.get("bytes"), 0x45)])
    if c == "Imm":
        return bytes([0x10, 0x20, 0x03][: (o["bits"] + 7) // 8])
    if c == "ImmOffset":
        return bytes([0x02])
    if c == "IMem":
        return bytes([0x10 + 0x10 * idx])
    if c == "EMemAddr":
        return bytes([0x00, 0x20, 0x04])
    if c == "EMemReg":
        if o.get("modes") and "SIMPLE" not in o["modes"]:
            if "POST_INC" in o["modes"]:
                return bytes([0x24])
            return bytes([0x84, 0x02])
        return bytes([0x04])
    if c == "EMemIMem":
        return bytes([0x00, 0x30])
    if c == "RegIMemOffset":
        if o.get("modes") and "SIMPLE" not in o["modes"]:
            return bytes([0x84, 0x30, 0x02])
        return bytes([0x04, 0x30])
    if c == "EMemIMemOffset":
        return bytes([0x00, 0x30, 0x38])
    raise KeyError(c)


def check_lengths(py_table: Dict[int, Any], rust: Any) -> List[Item]:
    from ..gen_enc import PRE_OPCODES

    items: List[Item] = []
    for op in range(256):
        if op not in py_table:
            continue
        p = py_row(py_table[op])
        where = f"opcode {op:02X} {short_name(p['name'])}"
        ops = list(p["operands"])
        coding = list(reversed(list(enumerate(ops)))) if p["rev"] else list(enumerate(ops))
        try:
            tail = b"".join(canonical_operand_bytes(o, i) for i, o in coding)
        except KeyError:
            items.append(Item(f"len:{op:02X}", False, ["len:unmapped-operand-class"]))
            continue
        code = bytes([op]) + tail
        if op in PRE_OPCODES:
            code = bytes([op, 0x00])  # a prefix is only meaningful in front of an instruction: PRE + NOP
        exp = len(code)
        mem = {0x100000 + 0xEC: 0x00, 0x100000 + 0xED: 0x00, 0x100000 + 0xEE: 0x00,
               0x100030: 0x00, 0x100031: 0x30, 0x100032: 0x04, 0x100038: 0x00, 0x100039: 0x38, 0x10003A: 0x04}
        py = py_run(code, BASE_REGS, mem)
        rs = rs_run(rust, code, BASE_REGS, mem)
        labels = ["len:" + ("pre-row" if op in PRE_OPCODES else "operands" if ops else "no-operands")]
        it = Item(f"len:{op:02X}", bool(ops), labels, {"code": code.hex(), "table_len": exp,
                                                        "py": py.get("len", py.get("err")),
                                                        "rs": rs.get("len", rs.get("err"))})
        srcs: List[Tuple[str, Any]] = [("length implied by the table row", exp)]
        if "len" in py:
            srcs.append(("python core", py["len"]))
        else:
            it.labels.append("len:python-error")
        if "len" in rs:
            srcs.append(("rust core", rs["len"]))
        else:
            it.labels.append("len:rust-error")
        maj = majority(srcs)
        for lb, v in srcs:
            if v != maj:
                it.violate("encoded-length", where, f"{lb} disagrees with the other two",
                           f"code {code.hex()}: " + "; ".join(f"{a}={b}" for a, b in srcs))
        items.append(it)
    return items


_COND_F = {None: 0x00, "Z": 0x02, "NZ": 0x00, "C": 0x01, "NC": 0x00}


def check_rel_sign(py_table: Dict[int, Any], rust: Any) -> List[Item]:
    """The sign of a relative jump lives in the Python operand prototype (ImmOffset('+'/'-')); the Rust
    OperandKind::ImmOffset cannot express it, so the Rust copy is observed: JR +05 / -05 with the row's
    condition satisfied (README: Z/NZ/C/NC test the Z and C flags)."""
    items: List[Item] = []
    for op in sorted(py_table):
        p = py_row(py_table[op])
        signs = [o.get("sign") for o in p["operands"] if o["cls"] == "ImmOffset"]
        if len(signs) != 1 or p["cond"] not in _COND_F:
            continue
        regs = dict(BASE_REGS)
        regs["F"] = _COND_F[p["cond"]]
        code = bytes([op, 0x05])

        def seen(res: Dict[str, Any]) -> Any:
            if "err" in res or "pc" not in res:
                return f"error {res.get('err')}"
            d = res["pc"] - (0x1000 + 2)
            return {5: "+", -5: "-", 0: "not taken"}.get(d, "unrecognised displacement")

        srcs = [(f"opcode_table ImmOffset sign [opcode {op:02X}]", signs[0]),
                (f"python core [opcode {op:02X}]", seen(py_run(code, regs, {}))),
                (f"rust core [opcode {op:02X}]", seen(rs_run(rust, code, regs, {})))]
        it = Item(f"rel-sign:{op:02X}", True, ["rel-sign"], {"opcode": f"{op:02X}", "cond": p["cond"],
                                                             "copies": {k: v for k, v in srcs}})
        group_check(it, "relative-jump-sign", srcs, topic=f"opcode {op:02X}")
        items.append(it)
    return items


# --------------------------------------------------------------------------------------------------
# A2. opcode classes kept outside the table
# --------------------------------------------------------------------------------------------------
# Code that asks "is this opcode a conditional jump / a call / a return / WAIT / IR / RETI / RESET" with its own
# literals or ranges keeps a private copy of the opcode table: sc62015 emulator.py CALL_STACK_EFFECTS and the
# WAIT fast path, Rust loop_detector.rs (conditional jumps, RETI), lib.rs CoreRuntime::step (WAIT, RESET, IR,
# RETI).  Each such copy is reduced to the *set of opcodes* it puts into the class -- read where it is declared,
# observed over all 256 opcodes where it is private -- and compared with the set the two opcode tables give.

_CLASS_PC = 0x10100
_CLASS_MEM = {0x100000 + 0xEC: 0x00, 0x100000 + 0xED: 0x00, 0x100000 + 0xEE: 0x00,
              0x100030: 0x00, 0x100031: 0x30, 0x100032: 0x04, 0x100038: 0x00, 0x100039: 0x38, 0x10003A: 0x04}
_JP_BACK = [0x02, _CLASS_PC & 0xFF, (_CLASS_PC >> 8) & 0xFF]       # JP mn back to the head of the probe loop
_LEVEL0 = 2                                                           # call level the probes start from


def _ops(v: Any) -> List[str]:
    return [f"{int(o):02X}" for o in sorted(set(v))]


def canonical_code(op: int, p: Dict[str, Any]) -> Optional[bytes]:
    """The one canonical encoding of the row that check_lengths uses (None: unmapped operand class)."""
    from ..gen_enc import PRE_OPCODES

    if op in PRE_OPCODES:
        return bytes([op, 0x00])
    ops = list(p["operands"])
    coding = list(reversed(list(enumerate(ops)))) if p["rev"] else list(enumerate(ops))
    try:
        return bytes([op]) + b"".join(canonical_operand_bytes(o, i) for i, o in coding)
    except KeyError:
        return None


def _py_class_run(code: bytes, regs: Dict[str, int]) -> Dict[str, Any]:
    """One instruction on the Python core: call level afterwards and what the WAIT hook was handed."""
    from sc62015.pysc62015.emulator import Emulator, RegisterName

    init = dict(_CLASS_MEM)
    for i, b in enumerate(bytes(code) + bytes(8)):
        init[_CLASS_PC + i] = b
    rm = RawMem(init)
    waits: List[int] = []
    rm.wait_cycles = lambda n: waits.append(int(n))  # type: ignore[method-assign]
    emu = Emulator(rm, reset_on_init=False)  # type: ignore[arg-type]
    for k, v in regs.items():
        emu.regs.set(RegisterName[k], v)
    emu.regs.set(RegisterName.PC, _CLASS_PC)
    emu.regs.call_sub_level = _LEVEL0
    out: Dict[str, Any] = {}
    try:
        emu.execute_instruction(_CLASS_PC)
    except BaseException as exc:  # noqa: BLE001
        out["err"] = type(exc).__name__
    out["level"] = int(emu.regs.call_sub_level)
    out["waits"] = waits
    return out


def _loop_entries(report: Any, pc: int) -> List[Dict[str, Any]]:
    if not isinstance(report, dict):
        return []
    return [e for e in (report.get("trace") or []) if e.get("pc_before") == pc]


def check_opcode_classes(py_table: Dict[int, Any], rust: Any, dump: Dict[str, Any]) -> List[Item]:
    from sc62015.pysc62015 import emulator as E

    rs_rows = dump["opcodes"]
    prow = {op: py_row(py_table[op]) for op in sorted(py_table)}
    py_name = {op: short_name(r["name"]) for op, r in prow.items()}
    rs_name = {int(r["opcode"]): short_name(r["name"]) for r in rs_rows}
    rs_kind = {int(r["opcode"]): str(r["kind"]).lower() for r in rs_rows}

    def named(names: Sequence[str]) -> List[Tuple[str, Any]]:
        want = set(names)
        return [("python opcode table, rows named " + "/".join(names), _ops(o for o, n in py_name.items() if n in want)),
                ("rust OPCODES, rows named " + "/".join(names), _ops(o for o, n in rs_name.items() if n in want))]

    # ---- what the Rust runtime does with each of the 256 opcodes (one step each) --------------------
    def rt_runs(i_val: int, irq: bool) -> List[Dict[str, Any]]:
        runs = []
        for op in range(256):
            code = canonical_code(op, prow[op]) if op in prow else None
            regs = dict(BASE_REGS)
            regs["I"] = i_val
            runs.append({"code": list((code or bytes([op])) + bytes(8)), "pc": _CLASS_PC, "regs": regs,
                         "mem": [[a, v] for a, v in sorted(_CLASS_MEM.items())], "steps": 1,
                         "call_level": _LEVEL0, "in_interrupt": irq})
        return runs

    def rt_call(runs: List[Dict[str, Any]]) -> List[Dict[str, Any]]:
        resp = rust.call({"cmd": "c17.runtime_trace", "runs": runs})
        if not resp.get("ok"):
            raise HarnessError(f"c17.runtime_trace failed: {str(resp)[:300]}")
        return list(resp["runs"])

    ra, rb, rc = rt_call(rt_runs(5, False)), rt_call(rt_runs(9, False)), rt_call(rt_runs(5, True))

    def last(run: Dict[str, Any]) -> Optional[List[Any]]:
        tr = run.get("trace") or []
        return tr[-1] if (len(tr) == 2 and not run.get("err")) else None

    rs_up, rs_down, rs_reset, rs_wait, rs_enter, rs_leave = [], [], [], [], [], []
    for op in range(256):
        a, b, c = last(ra[op]), last(rb[op]), last(rc[op])
        if a is not None:
            lvl = int(a[3])
            if lvl == _LEVEL0 + 1:
                rs_up.append(op)
            elif lvl == _LEVEL0 - 1:
                rs_down.append(op)
            if lvl == 0 and int(a[2]) == 0:
                rs_reset.append(op)
            if bool(a[4]):
                rs_enter.append(op)
            if b is not None:
                c0a, c0b = int(ra[op]["trace"][0][1]), int(rb[op]["trace"][0][1])
                if (int(a[1]) - c0a) != (int(b[1]) - c0b):
                    rs_wait.append(op)
        if c is not None and not bool(c[4]) and int(c[3]) != 0:
            rs_leave.append(op)

    # ---- what the Python core does -------------------------------------------------------------------
    py_up, py_down, py_wait = [], [], []
    for op in range(256):
        code = canonical_code(op, prow[op]) if op in prow else None
        regs = dict(BASE_REGS)
        regs["I"] = 5
        r5 = _py_class_run(code or bytes([op]), regs)
        if r5["level"] == _LEVEL0 + 1:
            py_up.append(op)
        elif r5["level"] == _LEVEL0 - 1:
            py_down.append(op)
        if r5["waits"]:
            regs["I"] = 9
            r9 = _py_class_run(code or bytes([op]), regs)
            if r9["waits"] != r5["waits"]:
                py_wait.append(op)

    # ---- the loop detector: synthetic never-taken loop per opcode through its public API --------------
    P = _CLASS_PC
    feeds = []
    for op in range(256):
        steps: List[List[int]] = []
        for _ in range(4):
            steps += [[P, P + 1, 0x00, 1], [P + 1, P + 3, op, 2], [P + 3, P, 0x02, 3]]
        feeds.append({"steps": steps})
    resp = rust.call({"cmd": "c17.loop_feed", "runs": feeds})
    if not resp.get("ok"):
        raise HarnessError(f"c17.loop_feed failed: {str(resp)[:300]}")
    ld_cond, ld_offline, ld_silent = [], [], []
    for op, report in enumerate(resp["reports"]):
        ents = _loop_entries(report, P + 1)
        if not isinstance(report, dict):
            ld_silent.append(op)
            continue
        if ents and all((e.get("branch") or {}).get("kind") == "not_taken" for e in ents):
            ld_cond.append(op)
        if not ents or all(e.get("mainline_index") is None for e in ents):
            ld_offline.append(op)

    # ---- the loop detector as fed by CoreRuntime::step: every jump row really executed, never taken ----
    jump_rows = sorted(op for op in range(256)
                       if rs_kind.get(op) in ("jpabs", "jprel") or py_name.get(op) in ("JP", "JR", "JPF")
                       or op in ld_cond)
    rt_cond: List[int] = []
    rt_seen: List[int] = []
    runs = []
    for op in jump_rows:
        code = canonical_code(op, prow[op]) if op in prow else None
        code = bytes(code or bytes([op, 0x10]))
        # relative rows get a displacement that clears the probe; absolute rows a target inside the page
        if len(code) == 2:
            code = bytes([op, 0x10])
        elif len(code) == 3:
            code = bytes([op, (P + 0x40) & 0xFF, ((P + 0x40) >> 8) & 0xFF])
        for f in (0x00, 0x03):
            regs = dict(BASE_REGS)
            regs["F"] = f
            mem = [[a, v] for a, v in sorted(_CLASS_MEM.items())]
            for land in (P + len(code), P + 2 + 0x10, P + 2 - 0x10, P + 0x40):
                mem += [[land + i, b] for i, b in enumerate(_JP_BACK)]
            for bulk in (False, True):
                runs.append({"code": list(code), "pc": P, "regs": regs, "mem": mem, "steps": 10,
                             "loop_detector": True, "bulk": bulk})
    rr = rt_call(runs) if runs else []
    rt_cond_bulk: List[int] = []
    for k, op in enumerate(jump_rows):
        for j, run in enumerate(rr[4 * k: 4 * k + 4]):
            ents = _loop_entries(run.get("report"), P)
            if ents:
                rt_seen.append(op)
                if all((e.get("branch") or {}).get("kind") == "not_taken" for e in ents):
                    (rt_cond_bulk if j % 2 else rt_cond).append(op)

    # ---- the cores themselves: an opcode is a conditional jump when where it goes depends on F ----------
    def rt_flag_runs(f: int) -> List[Dict[str, Any]]:
        runs_f = rt_runs(5, False)
        for r in runs_f:
            r["regs"]["F"] = f
        return runs_f

    rf0, rf3 = rt_call(rt_flag_runs(0x00)), rt_call(rt_flag_runs(0x03))
    rs_flagdep = [op for op in range(256)
                  if last(rf0[op]) is not None and last(rf3[op]) is not None
                  and int(last(rf0[op])[0]) != int(last(rf3[op])[0])]  # type: ignore[index]
    py_flagdep = []
    for op in range(256):
        code = canonical_code(op, prow[op]) if op in prow else None
        pcs = []
        for f in (0x00, 0x03):
            regs = dict(BASE_REGS)
            regs["F"] = f
            res = py_run(code or bytes([op]), regs, _CLASS_MEM, pc=_CLASS_PC)
            pcs.append(None if "err" in res else res.get("pc"))
        if None not in pcs and pcs[0] != pcs[1]:
            py_flagdep.append(op)

    items: List[Item] = []

    def emit(iid: str, topic: str, srcs: List[Tuple[str, Any]], extra: Optional[Dict[str, Any]] = None) -> None:
        sample = {"class": topic, "copies": {lb: v for lb, v in srcs}}
        sample.update(extra or {})
        it = Item(iid, len(srcs) >= 2, ["opclass", f"opclass:copies={len(srcs)}"], sample)
        group_check(it, "opcode-class", srcs, topic=topic)
        items.append(it)

    py_cond = _ops(o for o, r in prow.items() if r["cond"] and py_name[o] in ("JP", "JR", "JPF"))
    rs_cond = _ops(int(r["opcode"]) for r in rs_rows if r["cond"] and str(r["kind"]).lower() in ("jpabs", "jprel"))
    emit("opclass:conditional-jump", "conditional jumps",
         [("python opcode table, JP/JR rows with a condition", py_cond),
          ("rust OPCODES, JpAbs/JpRel rows with a condition", rs_cond),
          ("python core, next PC depends on F (observed, 256 opcodes)", _ops(py_flagdep)),
          ("rust CoreRuntime, next PC depends on F (observed, 256 opcodes)", _ops(rs_flagdep)),
          ("rust LoopDetector, never-taken step reported as a not-taken branch (observed, 256 opcodes)", _ops(ld_cond)),
          ("rust CoreRuntime + loop detector, never-taken jump reported as a not-taken branch (observed, jump rows)",
           _ops(rt_cond)),
          ("rust CoreRuntime + loop detector, one step(n) call, never-taken jump reported as a not-taken branch "
           "(observed, jump rows)", _ops(rt_cond_bulk))],
         {"jump_rows_executed": _ops(jump_rows), "jump_rows_seen_in_a_report": _ops(rt_seen),
          "opcodes_without_report": _ops(ld_silent)})
    cse = getattr(E, "CALL_STACK_EFFECTS", None)
    up = named(["CALL", "CALLF", "IR"])
    down = named(["RET", "RETF", "RETI"])
    if isinstance(cse, dict):
        up.append(("emulator.CALL_STACK_EFFECTS, entries +1", _ops(o for o, d in cse.items() if d == 1)))
        down.append(("emulator.CALL_STACK_EFFECTS, entries -1", _ops(o for o, d in cse.items() if d == -1)))
    up += [("python core, call level raised by one (observed, 256 opcodes)", _ops(py_up)),
           ("rust CoreRuntime, call level raised by one (observed, 256 opcodes)", _ops(rs_up))]
    down += [("python core, call level lowered by one (observed, 256 opcodes)", _ops(py_down)),
             ("rust CoreRuntime, call level lowered by one (observed, 256 opcodes)", _ops(rs_down))]
    emit("opclass:call-level-up", "opcodes that open a call level", up)
    emit("opclass:call-level-down", "opcodes that close a call level", down)
    emit("opclass:wait", "WAIT",
         named(["WAIT"]) + [("python core, memory.wait_cycles hook driven by I (observed, 256 opcodes)", _ops(py_wait)),
                            ("rust CoreRuntime, cycle count driven by I (observed, 256 opcodes)", _ops(rs_wait))])
    emit("opclass:interrupt-entry", "IR",
         named(["IR"]) + [("rust CoreRuntime, timer.in_interrupt raised (observed, 256 opcodes)", _ops(rs_enter))])
    emit("opclass:interrupt-return", "RETI",
         named(["RETI"]) + [("rust CoreRuntime, timer.in_interrupt dropped with the call metrics kept (observed, 256 opcodes)",
                             _ops(rs_leave)),
                            ("rust LoopDetector, step kept out of the mainline (observed, 256 opcodes)", _ops(ld_offline))])
    emit("opclass:reset", "RESET",
         named(["RESET"]) + [("rust CoreRuntime, call metrics cleared (observed, 256 opcodes)", _ops(rs_reset))])
    return items


# --------------------------------------------------------------------------------------------------
# B. registers
# --------------------------------------------------------------------------------------------------

CORE_REGS = ("A", "B", "BA", "IL", "IH", "I", "X", "Y", "U", "S", "PC")
ALL_REGS = CORE_REGS + ("F", "FC", "FZ")
SUBREGS = {"A": "BA", "B": "BA", "IL": "I", "IH": "I", "FC": "F", "FZ": "F"}


def _bytes_for_mask(mask: int) -> int:
    return (mask.bit_length() + 7) // 8


def py_reg_mask(name: str) -> int:
    from sc62015.pysc62015.emulator import Registers, RegisterName

    r = Registers()
    r.set(RegisterName[name], 0xFFFFFFFF)
    return int(r.get(RegisterName[name]))


def py_sub_layout(sub: str, base: str) -> Tuple[int, int]:
    """(image of writing all-ones to `sub` into a zero `base`, value of `sub` when `base` is all ones)."""
    from sc62015.pysc62015.emulator import Registers, RegisterName

    r = Registers()
    r.set(RegisterName[base], 0)
    r.set(RegisterName[sub], 0xFFFFFFFF)
    img = int(r.get(RegisterName[base]))
    r2 = Registers()
    r2.set(RegisterName[base], 0xFFFFFFFF)
    return img, int(r2.get(RegisterName[sub]))


def check_registers(rust: Any, dump: Dict[str, Any]) -> List[Item]:
    from sc62015.arch import SC62015
    from sc62015.pysc62015.instr import opcodes as O
    from sc62015.pysc62015.instr import instructions as INS
    from sc62015.pysc62015 import constants as K
    from sc62015.pysc62015 import emulator as E

    items: List[Item] = []
    arch_regs = SC62015.regs
    reg_size = {k.name: int(v) for k, v in E.REGISTER_SIZE.items()}
    enum_names = {m.name for m in E.RegisterName}
    rs_mask = dump["mask_for"]
    rs_width = dump["register_width"]
    rs_layout = {n: int(b) for n, b in dump["snapshot_register_layout"]}
    try:
        import pce500.emulator as PE

        py_layout = {n.upper(): int(b) for n, b in PE._SNAPSHOT_REGISTER_LAYOUT}
    except Exception:  # pce500 package is optional for this check
        py_layout = {}

    # behavioural masks / layouts of the Rust register file
    ops: List[List[Any]] = []
    for n in ALL_REGS:
        ops += [["new"], ["set", n, 0xFFFFFFFF], ["get", n]]
    for sub, base in SUBREGS.items():
        ops += [["new"], ["set", base, 0], ["set", sub, 0xFFFFFFFF], ["get", base],
                ["new"], ["set", base, 0xFFFFFFFF], ["get", sub]]
    resp = rust.call({"cmd": "c17.regscript", "ops": ops})
    if not resp.get("ok"):
        raise HarnessError(f"c17.regscript failed: {resp}")
    vals = list(resp["values"])
    rs_beh_mask = {n: int(vals[i]) for i, n in enumerate(ALL_REGS)}
    off = len(ALL_REGS)
    rs_beh_sub = {}
    for j, sub in enumerate(SUBREGS):
        rs_beh_sub[sub] = (int(vals[off + 2 * j]), int(vals[off + 2 * j + 1]))

    # names: the architectural registers must exist in every register table
    it = Item("reg-names", True, ["reg:names"], {"arch": sorted(arch_regs), "emulator": sorted(n for n in enum_names if not n.startswith("TEMP")),
                                                  "rust": sorted(rs_mask)})
    for n in CORE_REGS:
        for lb, present in (("arch.SC62015.regs", n in arch_regs), ("emulator.RegisterName", n in enum_names),
                            ("emulator.REGISTER_SIZE", n in reg_size), ("rust mask_for/reg_by_name", n in rs_mask)):
            if not present:
                it.violate("register-names", lb, "an architectural register is missing from this table", f"register {n}")
    for n in O.REG_NAMES:
        if str(n) not in arch_regs or str(n) not in enum_names:
            it.violate("register-names", "opcodes.REGISTERS", "names a register unknown to the other tables", f"register {n}")
    items.append(it)

    # flag names
    flag_srcs = [("arch.SC62015.flags", sorted(str(f) for f in SC62015.flags)),
                 ("arch.SC62015.flag_roles", sorted(str(f) for f in SC62015.flag_roles)),
                 ("emulator.FLAG_TO_REGISTER", sorted(E.FLAG_TO_REGISTER)),
                 ("opcodes.CFlag/ZFlag", sorted([str(O.CFlag), str(O.ZFlag)])),
                 ("rust FC/FZ registers", sorted(n[1:] for n in rs_mask if n in ("FC", "FZ")))]
    it = Item("flag-names", True, ["reg:names"], {"copies": {k: v for k, v in flag_srcs}})
    group_check(it, "flag-names", flag_srcs, topic="flag names")
    items.append(it)

    # widths
    for n in ALL_REGS:
        storage: List[Tuple[str, Any]] = []
        if n in arch_regs:
            storage.append(("arch.SC62015.regs", int(arch_regs[n].size)))
        if n in O.REG_SIZES:
            storage.append(("opcodes.REG_SIZES", int(O.REG_SIZES[n])))
        if n in reg_size:
            storage.append(("emulator.REGISTER_SIZE", reg_size[n]))
        if n in rs_width:
            storage.append(("rust register_width", (int(rs_width[n]) + 7) // 8))
        if n in rs_layout:
            storage.append(("rust SNAPSHOT_REGISTER_LAYOUT", rs_layout[n]))
        if n in py_layout:
            storage.append(("pce500 _SNAPSHOT_REGISTER_LAYOUT", py_layout[n]))
        if n == "PC" and hasattr(SC62015, "address_size"):
            storage.append(("arch.SC62015.address_size", int(SC62015.address_size)))
        masks: List[Tuple[str, Any]] = []
        if n in enum_names:
            masks.append(("python Registers (observed)", py_reg_mask(n)))
        if n in rs_mask:
            masks.append(("rust mask_for", int(rs_mask[n])))
        masks.append(("rust LlamaState (observed)", rs_beh_mask[n]))
        if n == "PC":
            masks.append(("constants.PC_MASK", int(K.PC_MASK)))
        if n in ("X", "Y", "U", "S") and hasattr(INS, "REG3_20BIT_MASK"):
            masks.append(("instructions.REG3_20BIT_MASK", int(INS.REG3_20BIT_MASK)))
        if n in rs_width and int(rs_width[n]) % 8 != 0:
            masks.append(("rust register_width (bits)", (1 << int(rs_width[n])) - 1))
        it = Item(f"reg-width:{n}", len(storage) + len(masks) >= 2, ["reg:width"],
                  {"register": n, "storage_bytes": dict(storage), "masks": {k: hex(v) for k, v in masks}})
        group_check(it, "register-storage-width", [(f"{lb} [{n}]", v) for lb, v in storage], topic=f"register {n}")
        group_check(it, "register-mask", [(f"{lb} [{n}]", v) for lb, v in masks], topic=f"register {n}")
        if storage and masks:
            sb = majority(storage)
            mk = majority(masks)
            if _bytes_for_mask(mk) != sb:
                it.violate("register-width", f"register {n}", "effective mask does not fit the declared storage size",
                           f"storage {sb} byte(s), mask {mk:#x}")
        items.append(it)

    # sub-register layout
    for sub, base in SUBREGS.items():
        srcs: List[Tuple[str, Any]] = []
        if sub in arch_regs:
            ri = arch_regs[sub]
            srcs.append(("arch.SC62015.regs", (str(ri.name), ((1 << (8 * int(ri.size))) - 1) << (8 * int(ri.offset)))))
        info = E.Registers._SUBREG_INFO.get(E.RegisterName[sub]) if sub in enum_names else None
        if info is not None:
            b, shift, mask = info
            srcs.append(("emulator.Registers._SUBREG_INFO", (b.name, int(mask) << int(shift))))
        pimg, pread = py_sub_layout(sub, base)
        srcs.append(("python Registers (observed write)", (base, pimg)))
        srcs.append(("rust LlamaState (observed write)", (base, rs_beh_sub[sub][0])))
        it = Item(f"subreg:{sub}", True, ["reg:subreg"], {"sub": sub, "copies": {k: [v[0], hex(v[1])] for k, v in srcs}})
        group_check(it, "subregister-layout", [(f"{lb} [{sub}]", list(v)) for lb, v in srcs], topic=f"sub-register {sub}")
        group_check(it, "subregister-read", [(f"python Registers (observed read) [{sub}]", pread),
                                             (f"rust LlamaState (observed read) [{sub}]", rs_beh_sub[sub][1])],
                    topic=f"sub-register {sub} read back from an all-ones {base}")
        items.append(it)

    # PS exists only in the Binary Ninja table: it must lie inside PC's storage
    if "PS" in arch_regs:
        ps = arch_regs["PS"]
        it = Item("subreg:PS", False, ["reg:subreg"], {"PS": [str(ps.name), int(ps.size), int(ps.offset)]})
        if str(ps.name) != "PC" or int(ps.offset) + int(ps.size) > int(arch_regs["PC"].size):
            it.violate("subregister-layout", "arch.SC62015.regs [PS]", "does not lie inside PC", str(vars(ps)))
        items.append(it)

    # r3 index -> register (INC r3 on both cores)
    for idx in range(8):
        code = bytes([0x6C, idx])
        regs = {"BA": 0x0010, "I": 0x0020, "X": 0x33330, "Y": 0x44440, "U": 0x55550, "S": 0x66660, "F": 0}
        py = py_run(code, regs, {})
        rs = rs_run(rust, code, regs, {})
        name = str(O.REG_NAMES[idx])

        def changed(res: Dict[str, Any]) -> Any:
            if "regs" not in res or "err" in res:
                return "error"
            out = []
            for k in ("BA", "I", "X", "Y", "U", "S"):
                if res["regs"][k] != regs[k]:
                    d = res["regs"][k] - regs[k]
                    out.append(f"{k}{'+1' if d == 1 else ('+0x100' if d == 0x100 else '?')}")
            return ",".join(out)

        table = {"A": "BA+1", "IL": "I+1"}.get(name, name + "+1")
        it = Item(f"reg-index:{idx}", True, ["reg:r3-index"], {"index": idx, "table": name, "py": changed(py), "rs": changed(rs)})
        group_check(it, "register-index", [(f"opcodes.REG_NAMES [index {idx}]", table),
                                           (f"python core INC r [index {idx}]", changed(py)),
                                           (f"rust core INC r [index {idx}]", changed(rs))])
        items.append(it)
    return items


# --------------------------------------------------------------------------------------------------
# B1b. the sub-register layout under generated write histories
# --------------------------------------------------------------------------------------------------
# subreg:* above writes ONE name into a fresh register file and reads the other.  A register file may keep the
# aliases in slots of their own, though, and then the layout it implements depends on what was written before:
# the *order* of alias and whole-register writes on one register file is an input, generated here for every
# family (BA: A,B / I: IL,IH / F: FC,FZ).  After each history every name of the family is read back and the
# copies are compared: the declared layout (Registers._SUBREG_INFO applied to the writes), the Python register
# file, the Rust register file.

SUBREG_FAMILIES = (("BA", ("A", "B")), ("I", ("IL", "IH")), ("F", ("FC", "FZ")))
SUBREG_ORDER_CLASSES = ("alias-then-whole", "whole-then-alias", "interleaved")


def gen_subreg_histories(base: str, subs: Sequence[str], order: str, seed: int, n: int) -> List[List[List[Any]]]:
    st = Stream(seed, 0xC17B, jhash_int(base + ":" + order))
    pmask = py_reg_mask(base)

    def val(name: str) -> int:
        m = pmask if name == base else 0xFF
        k = st.below(4)
        return 0 if k == 0 else (m if k == 1 else (st.u32() & m))

    out: List[List[List[Any]]] = []
    for _ in range(n):
        h: List[List[Any]] = []
        if order == "alias-then-whole":
            for _k in range(1 + st.below(2)):
                nm = st.choice(subs)
                h.append([nm, val(nm)])
            h.append([base, val(base)])
            if st.chance(1, 3):
                h.append([base, val(base)])
        elif order == "whole-then-alias":
            h.append([base, val(base)])
            for _k in range(1 + st.below(2)):
                nm = st.choice(subs)
                h.append([nm, val(nm)])
        else:
            names = (base,) + tuple(subs)
            for _k in range(3 + st.below(4)):
                nm = st.choice(names)
                h.append([nm, val(nm)])
        out.append(h)
    return out


def _declared_history(base: str, subs: Sequence[str], hist: Sequence[Sequence[Any]]) -> Dict[str, int]:
    """Registers._SUBREG_INFO applied to the writes (plus the rule both register files document in a comment:
    writing IL clears IH)."""
    from sc62015.pysc62015 import emulator as E

    pmask = (1 << (8 * int(E.REGISTER_SIZE[E.RegisterName[base]]))) - 1
    info = {sub: E.Registers._SUBREG_INFO[E.RegisterName[sub]] for sub in subs}
    p = 0
    for nm, v in hist:
        if nm == base:
            p = int(v) & pmask
        else:
            b, shift, mask = info[nm]
            if nm == "IL":
                p = int(v) & int(mask)
            else:
                p = (p & ~(int(mask) << int(shift)) & pmask) | ((int(v) & int(mask)) << int(shift))
    out = {base: p}
    for sub in subs:
        b, shift, mask = info[sub]
        out[sub] = (p >> int(shift)) & int(mask)
    return out


def _python_history(base: str, subs: Sequence[str], hist: Sequence[Sequence[Any]]) -> Dict[str, int]:
    from sc62015.pysc62015.emulator import Registers, RegisterName

    r = Registers()
    for nm, v in hist:
        r.set(RegisterName[nm], int(v))
    return {n: int(r.get(RegisterName[n])) for n in (base,) + tuple(subs)}


def check_subreg_histories(rust: Any, seed: int, tier: str, forced: Optional[Dict[str, Any]] = None) -> List[Item]:
    items: List[Item] = []
    n = 12 if tier == "quick" else 64
    for base, subs in SUBREG_FAMILIES:
        names = (base,) + tuple(subs)
        for order in SUBREG_ORDER_CLASSES:
            iid = f"subreg-order:{base}:{order}"
            hists = gen_subreg_histories(base, subs, order, seed, n)
            if forced is not None and forced.get("item") == iid and forced.get("histories"):
                hists = [[[str(a), int(b)] for a, b in h] for h in forced["histories"]]
            ops: List[List[Any]] = []
            for h in hists:
                ops.append(["new"])
                ops += [["set", nm, v] for nm, v in h]
                ops += [["get", nm] for nm in names]
            resp = rust.call({"cmd": "c17.regscript", "ops": ops})
            if not resp.get("ok"):
                raise HarnessError(f"c17.regscript failed: {str(resp)[:200]}")
            vals = [int(x) for x in resp["values"]]
            nontrivial = 0
            it = Item(iid, False, ["subreg-order", f"subreg-order:{order}"],
                      {"family": list(names), "order": order, "histories": len(hists), "first": hists[0] if hists else None})
            seen = set()
            for k, h in enumerate(hists):
                rs = {nm: vals[k * len(names) + j] for j, nm in enumerate(names)}
                dec = _declared_history(base, subs, h)
                py = _python_history(base, subs, h)
                # non-trivial: the last whole-register write disagrees, in some alias field, with an alias write
                # made before it (a stale alias slot would show), or an alias write changes the parent
                stale = False
                last_alias: Dict[str, int] = {}
                for nm, v in h:
                    if nm == base:
                        stale = stale or any(_declared_history(base, subs, [[base, v]])[s_] != last_alias[s_] for s_ in last_alias)
                    else:
                        last_alias[nm] = _declared_history(base, subs, [[nm, v]])[nm]
                if stale or (order != "alias-then-whole" and dec[base] != 0):
                    nontrivial += 1
                for nm in names:
                    tmp = Item(iid, True, [])
                    group_check(tmp, "subregister-layout",
                                [(f"emulator.Registers._SUBREG_INFO (applied to the write history) [{nm}]", dec[nm]),
                                 (f"python Registers (observed after a write history) [{nm}]", py[nm]),
                                 (f"rust LlamaState (observed after a write history) [{nm}]", rs[nm])],
                                topic=f"sub-register family {base}, {nm} read after a write history")
                    for v in tmp.violations:
                        fp = (v.subcheck, v.where, v.symptom)
                        if fp in seen:
                            continue
                        seen.add(fp)
                        it.violations.append(Violation(v.subcheck, v.where, v.symptom, {"item": iid, "histories": [h]},
                                                       f"history {_hex([[a, b] for a, b in h])} -> {v.detail}"))
            it.nontrivial = nontrivial > 0
            it.labels.append(f"subreg-order:nontrivial-histories={'0' if nontrivial == 0 else '>=1'}")
            it.sample["nontrivial_histories"] = nontrivial
            it.counts = {"subreg-order:histories": len(hists), "subreg-order:histories:nontrivial": nontrivial}
            items.append(it)
    return items


# The same dimension through executed instructions: flag-only writers (SC, RC, ALU A,n -- they write the aliases
# FC / FZ) and whole-register writers (POPU F / POPS F from planted stack bytes) in generated orders, on both
# cores.  What is read: F in the register file after the last step and the byte a trailing PUSHU F stores.
# When the last F-affecting instruction is a whole-register write the suffix starting there is also run on a
# fresh state of the same core: a whole-register write defines every alias, whatever was written before.

_F_ALIAS_ATOMS = (("SC", 0x97, False), ("RC", 0x9F, False), ("ADD", 0x40, True), ("SUB", 0x48, True),
                  ("CMP", 0x60, True), ("AND", 0x70, True), ("OR", 0x78, True), ("XOR", 0x68, True))
_F_WHOLE_ATOMS = (("POPU", 0x3E, "U"), ("POPS", 0x5F, "S"))
_F_PROG_PC = 0x1000
_F_PROG_REGS = {"BA": 0x0000, "I": 0x0001, "X": 0x40000, "Y": 0x41000, "U": 0x50000, "S": 0x51000, "F": 0}


def gen_flag_programs(order: str, seed: int, n: int, py_table: Dict[int, Any]) -> List[List[List[Any]]]:
    """A program is a list of atoms [mnemonic, opcode, operand]; for whole-register writers the operand is the
    byte planted on the stack, for ALU atoms the immediate."""
    st = Stream(seed, 0xC17C, jhash_int(order))
    alias = [a for a in _F_ALIAS_ATOMS if short_name(py_row(py_table[a[1]])["name"]).upper().startswith(a[0])]
    whole = [a for a in _F_WHOLE_ATOMS if short_name(py_row(py_table[a[1]])["name"]).upper().startswith(a[0])]
    if not alias or not whole:
        return []

    def alias_atom() -> List[Any]:
        nm, op, has_imm = st.choice(alias)
        return [nm, op, (st.byte() if has_imm else None)]

    def whole_atom() -> List[Any]:
        nm, op, _sp = st.choice(whole)
        k = st.below(4)
        v = st.below(4) if k == 0 else ((0xFC | st.below(4)) if k == 1 else (st.u32() & 0xFF))
        return [nm, op, v]

    out: List[List[List[Any]]] = []
    for _ in range(n):
        if order == "alias-then-whole":
            prog = [alias_atom() for _k in range(1 + st.below(3))] + [whole_atom()]
        elif order == "whole-then-alias":
            prog = [whole_atom()] + [alias_atom() for _k in range(1 + st.below(3))]
        else:
            prog = [(whole_atom() if st.chance(1, 2) else alias_atom()) for _k in range(3 + st.below(4))]
        out.append(prog)
    return out


def _flag_program_image(prog: Sequence[Sequence[Any]]) -> Tuple[bytes, Dict[int, int], int]:
    """(code incl. the trailing PUSHU F, planted stack bytes, number of steps)."""
    code = bytearray()
    mem: Dict[int, int] = {}
    sp = {"U": _F_PROG_REGS["U"], "S": _F_PROG_REGS["S"]}
    for nm, op, arg in prog:
        code.append(int(op))
        w = [a for a in _F_WHOLE_ATOMS if a[1] == op]
        if w:
            mem[sp[w[0][2]]] = int(arg) & 0xFF
            sp[w[0][2]] += 1
        elif arg is not None:
            code.append(int(arg) & 0xFF)
    code.append(0x2E)  # PUSHU F
    return bytes(code), mem, len(prog) + 1


def _f_layout_bits() -> int:
    """The bits of F the sub-register layout names (union of the alias fields of F in Registers._SUBREG_INFO).
    Only these are observed on the instruction route: the Python lifter models F as the two flags (RegF), so the
    upper six bits of F do not survive POPU F there while the Rust core keeps the byte -- instruction semantics
    (C06), not layout."""
    from sc62015.pysc62015 import emulator as E

    m = 0
    for sub, (b, shift, mask) in E.Registers._SUBREG_INFO.items():
        if b is E.RegisterName.F:
            m |= int(mask) << int(shift)
    return m


def _py_flag_run(code: bytes, mem: Dict[int, int], steps: int) -> Any:
    from sc62015.pysc62015.emulator import Emulator, RegisterName

    init = dict(mem)
    for i, b in enumerate(code):
        init[_F_PROG_PC + i] = b
    rm = RawMem(init)
    emu = Emulator(rm, reset_on_init=False)  # type: ignore[arg-type]
    for k, v in _F_PROG_REGS.items():
        emu.regs.set(RegisterName[k], v)
    emu.regs.set(RegisterName.PC, _F_PROG_PC)
    f_before_push = None
    try:
        for i in range(steps):
            if i == steps - 1:
                f_before_push = int(emu.regs.get(RegisterName.F))
                rm.writes.clear()
            emu.execute_instruction(int(emu.regs.get(RegisterName.PC)))
    except BaseException as exc:  # noqa: BLE001
        return f"error: {type(exc).__name__}"
    lm = _f_layout_bits()
    return [None if f_before_push is None else f_before_push & lm, int(emu.regs.get(RegisterName.FC)),
            int(emu.regs.get(RegisterName.FZ)), [v & lm for _, v in rm.writes][:1]]


def _rs_flag_run(rust: Any, code: bytes, mem: Dict[int, int], steps: int) -> Any:
    pairs = [[a, v] for a, v in sorted(mem.items())] + [[_F_PROG_PC + i, b] for i, b in enumerate(code)]
    r = dict(_F_PROG_REGS)
    r["PC"] = _F_PROG_PC
    resp = rust.call({"cmd": "cpu.run", "regs": r, "seed": 0, "mem": pairs, "steps": steps})
    st = resp.get("steps") or []
    if not resp.get("ok") or len(st) != steps or any("err" in x for x in st):
        return "error: " + str(resp.get("error") or resp.get("panic") or [x.get("err") for x in st if "err" in x])[:80]
    lm = _f_layout_bits()
    f = int(st[-2]["regs"]["F"]) if steps >= 2 else None
    fin = int(st[-1]["regs"]["F"])
    # the cpu.run verb reports F only; FC / FZ are taken from the final F (PUSHU F does not write flags)
    return [None if f is None else f & lm, fin & 1, (fin >> 1) & 1, [int(v) & lm for _, v in st[-1].get("writes", [])][:1]]


def check_flag_programs(py_table: Dict[int, Any], rust: Any, seed: int, tier: str,
                        forced: Optional[Dict[str, Any]] = None) -> List[Item]:
    items: List[Item] = []
    n = 10 if tier == "quick" else 48
    whole_ops = {a[1] for a in _F_WHOLE_ATOMS}
    for order in SUBREG_ORDER_CLASSES:
        iid = f"subreg-order:F:executed:{order}"
        progs = gen_flag_programs(order, seed, n, py_table)
        if forced is not None and forced.get("item") == iid and forced.get("programs"):
            progs = [[[str(a), int(b), (None if c is None else int(c))] for a, b, c in pr] for pr in forced["programs"]]
        it = Item(iid, False, ["subreg-order", "subreg-order:executed", f"subreg-order:executed:{order}"],
                  {"order": order, "programs": len(progs), "first": progs[0] if progs else None})
        seen = set()
        nontrivial = 0
        for prog in progs:
            code, mem, steps = _flag_program_image(prog)
            srcs: List[Tuple[str, Any]] = [
                (f"python core, F / FC / FZ / pushed F after executed writes", _py_flag_run(code, mem, steps)),
                (f"rust core, F / FC / FZ / pushed F after executed writes", _rs_flag_run(rust, code, mem, steps))]
            last_f = max((i for i, a in enumerate(prog)), default=-1)
            if prog and prog[last_f][1] in whole_ops and last_f > 0:
                # earlier whole-register writes consumed stack bytes: re-plant for the suffix
                suffix = [prog[last_f]]
                c2, m2, s2 = _flag_program_image(suffix)
                srcs.append(("python core, the last whole-register write alone on a fresh state", _py_flag_run(c2, m2, s2)))
                srcs.append(("rust core, the last whole-register write alone on a fresh state", _rs_flag_run(rust, c2, m2, s2)))
            has_alias_before_whole = any(prog[i][1] not in whole_ops and any(prog[j][1] in whole_ops for j in range(i + 1, len(prog)))
                                         for i in range(len(prog)))
            kinds = {a[1] in whole_ops for a in prog}
            if has_alias_before_whole or kinds == {True, False}:   # both kinds of writer on one state
                nontrivial += 1
            tmp = Item(iid, True, [])
            group_check(tmp, "subregister-layout", srcs, topic="F / FC / FZ after executed writes")
            for v in tmp.violations:
                fp = (v.subcheck, v.where, v.symptom)
                if fp in seen:
                    continue
                seen.add(fp)
                it.violations.append(Violation(v.subcheck, v.where, v.symptom, {"item": iid, "programs": [prog]},
                                               f"program {_hex([list(a) for a in prog])} + PUSHU F -> {v.detail}"))
        it.nontrivial = nontrivial > 0
        it.sample["nontrivial_programs"] = nontrivial
        it.counts = {"subreg-order:programs": len(progs), "subreg-order:programs:nontrivial": nontrivial}
        items.append(it)
    return items


# --------------------------------------------------------------------------------------------------
# B2. the serialised register table (registers.bin of the .pcsnap format)
# --------------------------------------------------------------------------------------------------
# The snapshot register layout (register name, byte width, *position*) exists once per language:
# pce500/emulator.py:_SNAPSHOT_REGISTER_LAYOUT and sc62015/core/src/snapshot.rs:SNAPSHOT_REGISTER_LAYOUT.
# A table of (name, width) rows is an ordered thing: the byte offset of every register inside registers.bin
# is the sum of the widths in front of it.  Each copy is therefore reduced to {register: [offset, width]} and
# compared per register -- as declared and as observed on every pack / unpack route of both languages -- and
# each side's blob is handed to the other side (the table only exists so that this works).

SNAP_REGS = ("PC", "BA", "I", "X", "Y", "U", "S", "F")
# probe values: register number k (1..8), byte j of register k is 0x10*k+1, 0x10*k+2, k -- all 20 bytes are
# distinct and non-zero, every value fits the register's effective mask (20 significant bits in 3 bytes).
_SNAP_ARCH_BYTES = {"PC": 3, "BA": 2, "I": 2, "X": 3, "Y": 3, "U": 3, "S": 3, "F": 1}


def _snap_tag_bytes(name: str) -> List[int]:
    k = SNAP_REGS.index(name) + 1
    return [0x10 * k + 1, 0x10 * k + 2, k][: _SNAP_ARCH_BYTES[name]]


def _snap_tag_value(name: str) -> int:
    return sum(b << (8 * j) for j, b in enumerate(_snap_tag_bytes(name)))


def _snap_ramp(length: int) -> List[int]:
    """Blob whose byte i identifies i: distinct, non-zero, low nibble non-zero (survives the 20-bit mask)."""
    return [i + 1 + i // 15 for i in range(length)]


def _snap_slots_from_table(table: Sequence[Tuple[str, int]]) -> Dict[str, Any]:
    out: Dict[str, Any] = {}
    off = 0
    for n, w in table:
        n = str(n).upper()
        out[n] = "listed more than once" if n in out else [off, int(w)]
        off += int(w)
    return out


def _snap_slots_from_blob(blob: Sequence[int]) -> Dict[str, Any]:
    """Where did a pack route put each register's (self-identifying) bytes?"""
    out: Dict[str, Any] = {}
    for n in SNAP_REGS:
        tags = _snap_tag_bytes(n)
        pos = [i for i, b in enumerate(blob) if b in tags]
        if not pos:
            out[n] = "absent"
        elif pos != list(range(pos[0], pos[0] + len(pos))) or [blob[i] for i in pos] != tags[: len(pos)]:
            out[n] = "bytes not contiguous little-endian"
        else:
            out[n] = [pos[0], len(pos)]
    return out


def _snap_slots_from_values(vals: Dict[str, int], length: int) -> Dict[str, Any]:
    """Which bytes of the ramp blob did an unpack route put into each register?"""
    ramp = _snap_ramp(length)
    out: Dict[str, Any] = {}
    for n in SNAP_REGS:
        if n not in vals:
            out[n] = "absent"
            continue
        v = int(vals[n])
        if (v & 0xFF) not in ramp:
            out[n] = "unrecognised value"
            continue
        out[n] = [ramp.index(v & 0xFF), sum(1 for j in range(4) if (v >> (8 * j)) & 0xFF)]
    return out


def _py_registers_with(values: Dict[str, int]) -> Any:
    from sc62015.pysc62015.emulator import Registers, RegisterName

    r = Registers()
    for n, v in values.items():
        r.set(RegisterName[n], v)
    return r


def _pce500_snapshot_routes(values: Dict[str, int], ramp_len: int) -> Dict[str, Any]:
    """registers.bin as PCE500Emulator.save_snapshot writes it (registers set through the CPU facade) and the
    CPU registers after PCE500Emulator.load_snapshot of the same bundle with registers.bin replaced by the ramp."""
    import os
    import tempfile
    import zipfile

    from sc62015.pysc62015.emulator import RegisterName

    out: Dict[str, Any] = {}
    try:
        emu = _pce500_emulator(_vector_page())
        emu.reset()
    except _Skip:
        return out
    except Exception:
        return out
    with tempfile.TemporaryDirectory(prefix="vh-c17-") as d:
        path = os.path.join(d, "a.pcsnap")
        try:
            for n, v in values.items():
                emu.cpu.regs.set(RegisterName[n], v)
            emu.save_snapshot(path)
            with zipfile.ZipFile(path, "r") as zf:
                names = zf.namelist()
                members = {n: zf.read(n) for n in names}
        except Exception:
            return out
        if "registers.bin" not in members:
            return out
        out["save"] = list(members["registers.bin"])
        members["registers.bin"] = bytes(_snap_ramp(ramp_len))
        path2 = os.path.join(d, "b.pcsnap")
        try:
            with zipfile.ZipFile(path2, "w", compression=zipfile.ZIP_DEFLATED) as zf:
                for n in names:
                    zf.writestr(n, members[n])
            emu.load_snapshot(path2)
            out["load"] = {n: int(emu.cpu.regs.get(RegisterName[n])) for n in SNAP_REGS}
        except Exception as exc:  # noqa: BLE001
            out["load"] = f"error {type(exc).__name__}"
    return out


def check_snapshot_layout(rust: Any, dump: Dict[str, Any]) -> List[Item]:
    try:
        import pce500.emulator as PE
        from sc62015.pysc62015.stepper import CPURegistersSnapshot
    except Exception:  # the pce500 package is optional for this check: nothing is duplicated without it
        return []
    if not hasattr(PE, "_SNAPSHOT_REGISTER_LAYOUT"):
        return []

    items: List[Item] = []
    rs_table = [(str(n), int(w)) for n, w in dump["snapshot_register_layout"]]
    py_table = [(str(n).upper(), int(w)) for n, w in PE._SNAPSHOT_REGISTER_LAYOUT]
    values = {n: _snap_tag_value(n) for n in SNAP_REGS}

    # ---- every route, reduced to {register: [offset, width]} (or a describing string)
    routes: List[Tuple[str, Dict[str, Any]]] = [
        ("rust SNAPSHOT_REGISTER_LAYOUT", _snap_slots_from_table(rs_table)),
        ("pce500 _SNAPSHOT_REGISTER_LAYOUT", _snap_slots_from_table(py_table)),
    ]
    sizes: List[Tuple[str, Any]] = [("rust SNAPSHOT_REGISTER_LAYOUT (sum of widths)", sum(w for _, w in rs_table)),
                                    ("pce500 _SNAPSHOT_REGISTER_LAYOUT (sum of widths)", sum(w for _, w in py_table))]

    resp = rust.call({"cmd": "c17.snapshot_pack", "regs": values})
    if not resp.get("ok"):
        raise HarnessError(f"c17.snapshot_pack failed: {resp}")
    rs_blob = [int(b) for b in resp["direct"]]
    rs_blob_state = [int(b) for b in resp["state"]]
    routes.append(("rust pack_registers (observed)", _snap_slots_from_blob(rs_blob)))
    routes.append(("rust LlamaState -> collect_registers -> pack_registers (observed)", _snap_slots_from_blob(rs_blob_state)))
    sizes.append(("rust pack_registers (observed length)", len(rs_blob)))

    py_blob: Optional[List[int]] = None
    try:
        py_blob = list(PE._pack_register_bytes(CPURegistersSnapshot.from_registers(_py_registers_with(values))))
        routes.append(("pce500 Registers -> CPURegistersSnapshot -> _pack_register_bytes (observed)", _snap_slots_from_blob(py_blob)))
        sizes.append(("pce500 _pack_register_bytes (observed length)", len(py_blob)))
    except Exception as exc:  # noqa: BLE001
        routes.append(("pce500 Registers -> CPURegistersSnapshot -> _pack_register_bytes (observed)",
                       {n: f"error {type(exc).__name__}" for n in SNAP_REGS}))

    ramp_len = majority(sizes)
    ramp = _snap_ramp(int(ramp_len))
    resp = rust.call({"cmd": "c17.snapshot_unpack", "bytes": ramp})
    if not resp.get("ok"):
        raise HarnessError(f"c17.snapshot_unpack failed: {resp}")
    if "error" in resp:
        bad = {n: "rejects a blob of the agreed length" for n in SNAP_REGS}
        routes.append(("rust unpack_registers (observed)", bad))
    else:
        routes.append(("rust unpack_registers (observed)", _snap_slots_from_values(resp["direct"], len(ramp))))
        routes.append(("rust unpack_registers -> apply_registers -> LlamaState (observed)",
                       _snap_slots_from_values(resp["state"], len(ramp))))
    try:
        got = {str(k).upper(): int(v) for k, v in PE._unpack_register_bytes(bytes(ramp)).items()}
        routes.append(("pce500 _unpack_register_bytes (observed)", _snap_slots_from_values(got, len(ramp))))
    except Exception:  # noqa: BLE001
        routes.append(("pce500 _unpack_register_bytes (observed)", {n: "rejects a blob of the agreed length" for n in SNAP_REGS}))

    machine = _pce500_snapshot_routes(values, len(ramp))
    if "save" in machine:
        routes.append(("pce500 PCE500Emulator.save_snapshot, registers.bin (observed)", _snap_slots_from_blob(machine["save"])))
        sizes.append(("pce500 PCE500Emulator.save_snapshot, registers.bin (observed length)", len(machine["save"])))
    if isinstance(machine.get("load"), dict):
        routes.append(("pce500 PCE500Emulator.load_snapshot (observed)", _snap_slots_from_values(machine["load"], len(ramp))))
    elif "load" in machine:
        routes.append(("pce500 PCE500Emulator.load_snapshot (observed)", {n: "rejects a bundle with a blob of the agreed length" for n in SNAP_REGS}))

    # ---- the set of serialised registers and the blob size
    it = Item("snap-layout:registers", True, ["snapshot-layout"],
              {"rust": [[n, w] for n, w in rs_table], "pce500": [[n, w] for n, w in py_table]})
    group_check(it, "snapshot-register-set", [("rust SNAPSHOT_REGISTER_LAYOUT", sorted(n for n, _ in rs_table)),
                                              ("pce500 _SNAPSHOT_REGISTER_LAYOUT", sorted(n for n, _ in py_table))],
                topic="serialised register set")
    items.append(it)
    it = Item("snap-layout:size", True, ["snapshot-layout"], {"copies": {k: v for k, v in sizes}})
    group_check(it, "snapshot-blob-size", sizes, topic="registers.bin size")
    items.append(it)

    # ---- per register: position and width in every copy / on every route
    for n in SNAP_REGS:
        srcs = [(f"{lb} [{n}]", slots.get(n, "absent")) for lb, slots in routes]
        it = Item(f"snap-slot:{n}", True, ["snapshot-layout", "snapshot-slot"],
                  {"register": n, "copies": {k: _hex(v) if not isinstance(v, list) else v for k, v in srcs}})
        group_check(it, "snapshot-register-slot", srcs, topic=f"register {n} inside registers.bin")
        items.append(it)

    # ---- crossing: what one language writes, the other must read back under the same names
    def crossed(label: str, item_id: str, got: Any) -> None:
        it = Item(item_id, True, ["snapshot-layout", "snapshot-cross"],
                  {"route": label, "written": {k: hex(v) for k, v in values.items()},
                   "read": {k: hex(v) for k, v in got.items()} if isinstance(got, dict) else got})
        if not isinstance(got, dict):
            it.violate("snapshot-cross", label, "the reader rejects the writer's register blob", str(got))
        else:
            for n in SNAP_REGS:
                if got.get(n) == values[n]:
                    continue
                src = [m for m in SNAP_REGS if values[m] == got.get(n)]
                sym = (f"register {n} is restored with the value of another register" if src
                       else f"register {n} is not restored with the value that was saved")
                it.violate("snapshot-cross", label, sym,
                           f"{n}: saved {values[n]:#x}, restored {_hex(got.get(n))}" + (f" (= saved {src[0]})" if src else ""))
        items.append(it)

    if py_blob is not None:
        resp = rust.call({"cmd": "c17.snapshot_unpack", "bytes": py_blob})
        if not resp.get("ok"):
            raise HarnessError(f"c17.snapshot_unpack failed: {resp}")
        crossed("registers.bin written by pce500 (_pack_register_bytes), read by the rust core (unpack_registers -> LlamaState)",
                "snap-cross:py-to-rs", resp.get("error") or {k: int(v) for k, v in resp["state"].items()})
    try:
        back = {str(k).upper(): int(v) for k, v in PE._unpack_register_bytes(bytes(rs_blob_state)).items()}
        regs = _py_registers_with({k: v for k, v in back.items() if k in SNAP_REGS})
        from sc62015.pysc62015.emulator import RegisterName

        got_py: Any = {k: int(regs.get(RegisterName[k])) for k in SNAP_REGS if k in back}
    except Exception as exc:  # noqa: BLE001
        got_py = f"error {type(exc).__name__}: {str(exc)[:80]}"
    crossed("registers.bin written by the rust core (LlamaState -> pack_registers), read by pce500 (_unpack_register_bytes -> Registers)",
            "snap-cross:rs-to-py", got_py)
    return items


# --------------------------------------------------------------------------------------------------
# B3. register selector codes inside operand bytes (position in the table = the code)
# --------------------------------------------------------------------------------------------------
# Besides REG_NAMES (r3 of INC/DEC, judged in reg-index:*), the code -> register mapping exists in
# opcodes.RegPair._regpair_name (two variants: MV/EX and the arithmetic rows) and in eval.rs as the private
# regpair_name / reg_from_selector.  The Rust copies are observed: which register changes / which register's
# value is used as the address.

_SEL_REGS = {"BA": 0x1101, "I": 0x2202, "X": 0x33303, "Y": 0x44404, "U": 0x55505, "S": 0x66606, "F": 0}
_FAMILY = {"A": "BA", "IL": "I"}


def _changed(res: Dict[str, Any], regs: Dict[str, int]) -> Optional[List[str]]:
    if "err" in res or "regs" not in res:
        return None
    return [k for k in ("BA", "I", "X", "Y", "U", "S") if res["regs"][k] != regs[k]]


def _pair_effect_mv(res: Dict[str, Any]) -> str:
    """MV r,r' : exactly one register changes; the low 16 bits of its new value name the source."""
    ch = _changed(res, _SEL_REGS)
    if ch is None or len(ch) != 1:
        return f"unrecognised effect (changed: {ch})"
    low = res["regs"][ch[0]] & 0xFFFF
    src = [k for k, v in _SEL_REGS.items() if k != "F" and (v & 0xFFFF) == low]
    return f"{ch[0]} <- {src[0]}" if len(src) == 1 else f"unrecognised effect ({ch[0]} <- ?)"


def _pair_effect_add(res: Dict[str, Any]) -> str:
    """ADD r,r' : exactly one register changes; its low byte grows by the low byte of the source."""
    ch = _changed(res, _SEL_REGS)
    if ch is None or len(ch) != 1:
        return f"unrecognised effect (changed: {ch})"
    delta = (res["regs"][ch[0]] - _SEL_REGS[ch[0]]) & 0xFF
    src = [k for k, v in _SEL_REGS.items() if k != "F" and (v & 0xFF) == delta]
    return f"{ch[0]} <- {src[0]}" if len(src) == 1 else f"unrecognised effect ({ch[0]} <- ?)"


def check_selector_codes(rust: Any) -> List[Item]:
    from sc62015.pysc62015.instr import opcodes as O

    items: List[Item] = []
    namer = getattr(getattr(O, "RegPair", None), "_regpair_name", None)
    for tag, opcode, use_r2, effect in (("mv", 0xFD, True, _pair_effect_mv), ("alu", 0x46, False, _pair_effect_add)):
        for idx in range(8):
            partner = 4 if idx != 4 else 5
            probes = [bytes([opcode, (idx << 4) | partner]), bytes([opcode, (partner << 4) | idx])]
            srcs: List[Tuple[str, Any]] = []
            if callable(namer):
                try:
                    me = str(namer(idx, use_r2))
                    other = str(namer(partner, use_r2))
                    me, other = _FAMILY.get(me, me), _FAMILY.get(other, other)
                    srcs.append((f"opcodes.RegPair._regpair_name [{tag} code {idx}]", [f"{me} <- {other}", f"{other} <- {me}"]))
                except Exception:  # noqa: BLE001
                    pass
            srcs.append((f"python core, opcode {opcode:02X} [{tag} code {idx}]",
                         [effect(py_run(c, _SEL_REGS, {})) for c in probes]))
            srcs.append((f"rust core, opcode {opcode:02X} [{tag} code {idx}]",
                         [effect(rs_run(rust, c, _SEL_REGS, {})) for c in probes]))
            it = Item(f"regpair-index:{tag}:{idx}", True, ["reg:pair-index"],
                      {"mapping": tag, "code": idx, "probes": [c.hex() for c in probes], "copies": {k: v for k, v in srcs}})
            group_check(it, "register-pair-index", srcs, topic=f"{tag} register-pair code {idx}")
            items.append(it)

    # pointer register of [r3]: MV A,[r3] (opcode 90, simple mode) for the documented pointer registers X,Y,U,S
    by_addr = {v: k for k, v in _SEL_REGS.items() if k in ("X", "Y", "U", "S")}
    for idx in range(4, 8):
        code = bytes([0x90, idx])

        def pointer(res: Dict[str, Any]) -> str:
            hit = sorted({by_addr[a] for a in res.get("reads", []) if a in by_addr})
            if "err" in res or len(hit) != 1:
                return f"unrecognised access pattern ({hit} {res.get('err', '')})"
            return hit[0]

        srcs = [(f"opcodes.REG_NAMES [index {idx}]", str(O.REG_NAMES[idx])),
                (f"python core MV A,[r3] [index {idx}]", pointer(py_run(code, _SEL_REGS, {}))),
                (f"rust core MV A,[r3] [index {idx}]", pointer(rs_run(rust, code, _SEL_REGS, {})))]
        it = Item(f"ptr-index:{idx}", True, ["reg:pointer-index"], {"index": idx, "code": code.hex(), "copies": {k: v for k, v in srcs}})
        group_check(it, "register-index", srcs, topic=f"pointer register index {idx}")
        items.append(it)
    return items


# --------------------------------------------------------------------------------------------------
# B4. the register-width table as consulted by instruction families (private copies, probed at the boundary)
# --------------------------------------------------------------------------------------------------
# Besides the register files (judged in reg-width:*), instruction families keep their own idea of how wide a
# register is: instructions.REG3_20BIT_REGS (INC/DEC r3 in the lifter), opcodes.RegPair._regpair_is_20bit
# (register-pair rows), eval.rs reg3_bits / regpair_is_20bit (private).  Two kinds of items:
#   reg-set:20bit          the *set* of 20-bit address registers according to every declared copy
#   op-width:<family>:<R>  the width an instruction family really operates at on register R, observed on both
#                          cores at the boundary of every candidate width (value wrap, Z, C), against the widths
#                          the register files declare.
# The families are taken from the opcode table (rows INC/DEC with a Reg3 operand, ADD/SUB with a RegPair operand
# of R's own size class), never from literal opcode numbers.

_WIDTH_CANDIDATES = (8, 16, 20, 24)
_SUB_FAMILY = {"A": "BA", "IL": "I"}
_ZERO_REGS = {"BA": 0, "I": 0, "X": 0, "Y": 0, "U": 0, "S": 0, "F": 0}


def _reg_value(res: Dict[str, Any], name: str) -> Optional[int]:
    if "err" in res or "regs" not in res:
        return None
    if name in _SUB_FAMILY:  # low byte of the family register (layout judged in subreg:*)
        return int(res["regs"][_SUB_FAMILY[name]]) & 0xFF
    return int(res["regs"][name])


def _bits(k: int) -> str:
    return f"{k} bits"


def _first_width(obs: Sequence[Tuple[int, bool]]) -> Any:
    for k, hit in obs:
        if hit:
            return _bits(k)
    return "never"


def _ones_width(v: Optional[int]) -> Any:
    if v is None:
        return "error"
    if v != 0 and (v & (v + 1)) == 0:
        return _bits(v.bit_length())
    return "unrecognised result"


def check_operation_width(py_table: Dict[int, Any], rust: Any, dump: Dict[str, Any]) -> List[Item]:
    from sc62015.arch import SC62015
    from sc62015.pysc62015.instr import opcodes as O
    from sc62015.pysc62015.instr import instructions as INS

    items: List[Item] = []
    names = [str(n) for n in O.REG_NAMES]
    rs_mask = dump["mask_for"]

    # ---- the set of 20-bit address registers, copy by copy (restricted to the r3-addressable registers)
    def as_set(pred: Callable[[str], bool]) -> List[str]:
        return sorted(n for n in names if pred(n))

    srcs: List[Tuple[str, Any]] = [
        ("python Registers (observed mask is 20 bits)", as_set(lambda n: py_reg_mask(n) == 0xFFFFF)),
        ("rust mask_for (20 bits)", as_set(lambda n: int(rs_mask.get(n, 0)) == 0xFFFFF)),
        ("arch.SC62015.regs (3-byte registers)", as_set(lambda n: n in SC62015.regs and int(SC62015.regs[n].size) == 3)),
        ("opcodes.REG_SIZES (3-byte registers)", as_set(lambda n: int(O.REG_SIZES.get(n, 0)) == 3)),
    ]
    if hasattr(INS, "REG3_20BIT_REGS"):
        lst = {str(r) for r in INS.REG3_20BIT_REGS}
        srcs.append(("instructions.REG3_20BIT_REGS", as_set(lambda n: n in lst)))
    is20 = getattr(getattr(O, "RegPair", None), "_regpair_is_20bit", None)
    if callable(is20):
        try:
            srcs.append(("opcodes.RegPair._regpair_is_20bit", as_set(lambda n: bool(is20(O.RegisterName(n))))))
        except Exception:  # noqa: BLE001
            pass
    it = Item("reg-set:20bit", True, ["reg:20bit-set"], {"copies": {k: v for k, v in srcs}})
    group_check(it, "register-20bit-set", srcs, topic="set of 20-bit address registers")
    items.append(it)

    # ---- families from the opcode table
    fam_rows: Dict[str, Dict[Any, int]] = {"INC": {}, "DEC": {}, "ADD": {}, "SUB": {}, "MV": {}, "EX": {}}
    for op in sorted(py_table):
        p = py_row(py_table[op])
        nm = short_name(p["name"])
        if nm not in fam_rows or len(p["operands"]) != 1:
            continue
        o = p["operands"][0]
        if nm in ("INC", "DEC") and o["cls"] == "Reg3":
            fam_rows[nm].setdefault("r3", op)
        if nm in ("ADD", "SUB") and o["cls"] == "RegPair":
            fam_rows[nm].setdefault(o.get("bytes"), op)
        if nm in ("MV", "EX") and o["cls"] == "RegPair":
            fam_rows[nm].setdefault("pair", op)
    # register-pair codes of the MV/EX variant (its own mapping, judged in regpair-index:mv:*)
    namer = getattr(getattr(O, "RegPair", None), "_regpair_name", None)
    mv_code: Dict[str, int] = {}
    if callable(namer):
        for c_ in reversed(range(8)):
            try:
                mv_code[str(namer(c_, True))] = c_
            except Exception:  # noqa: BLE001
                pass

    def run_both(code: bytes, regs: Dict[str, int]) -> List[Tuple[str, Dict[str, Any]]]:
        return [("python core", py_run(code, regs, {})), ("rust core", rs_run(rust, code, regs, {}))]

    for idx, name in enumerate(names):
        fam = _SUB_FAMILY.get(name, name)
        size_class = int(O.REG_SIZES.get(name, 0)) if name in O.REG_SIZES else None
        partners = [m for m in names if m != name and O.REG_SIZES.get(m) == O.REG_SIZES.get(name)
                    and _SUB_FAMILY.get(m, m) != fam]
        partner = partners[0] if partners else None
        declared: List[Tuple[str, Any]] = [(f"python Registers (observed mask) [{name}]", _bits(py_reg_mask(name).bit_length()))]
        if name in rs_mask:
            declared.append((f"rust mask_for [{name}]", _bits(int(rs_mask[name]).bit_length())))
        for family in ("INC", "DEC", "ADD", "SUB", "MV", "EX"):
            if family in ("INC", "DEC"):
                op = fam_rows[family].get("r3")
                tail = bytes([idx])
                partner_regs: Dict[str, int] = {}
                mnem = f"{family} r3"
            elif family in ("MV", "EX"):
                # every partner of R's own size class: the private tables are consulted for *both* registers
                op = fam_rows[family].get("pair")
                mnem = f"{family} r,r'"
                usable = [m for m in partners if m in mv_code]
                if op is None or name not in mv_code or not usable:
                    continue
                srcs = list(declared)
                for m in usable:
                    code = bytes([op, (mv_code[name] << 4) | mv_code[m]])
                    regs = dict(_ZERO_REGS)
                    regs[m] = 0xFFFFFF  # the register file of each core masks it
                    for core, res in run_both(code, regs):
                        srcs.append((f"{core}, {mnem} [{name} <- {m}] (what arrives from an all-ones {m})",
                                     _ones_width(_reg_value(res, name))))
                it = Item(f"op-width:{family}:{name}", True, ["reg:operation-width", "op-width:" + family],
                          {"family": family, "register": name, "partners": usable, "copies": {k: v for k, v in srcs}}
                          if (family, name) == ("MV", "U") else None)
                group_check(it, "operation-width", srcs, topic=f"{mnem} on register {name}")
                items.append(it)
                continue
            else:
                op = fam_rows[family].get(size_class)
                if partner is None:
                    continue
                tail = bytes([(idx << 4) | names.index(partner)])
                partner_regs = {_SUB_FAMILY.get(partner, partner): 1}
                mnem = f"{family} r,r'"
            if op is None:
                continue
            code = bytes([op]) + tail
            srcs = list(declared)
            sample: Dict[str, Any] = {"family": family, "register": name, "code": code.hex()}
            if family in ("INC", "ADD"):
                # start at 2^k - 1 (the register file of each core masks it): the first k at which the value
                # comes back as zero / Z is set / (ADD) C is set is the width the family operates at
                per_core: Dict[str, Dict[str, List[Tuple[int, bool]]]] = {}
                for k in _WIDTH_CANDIDATES:
                    regs = dict(_ZERO_REGS)
                    regs.update(partner_regs)
                    regs[fam] = ((1 << k) - 1) & (0xFF if name in _SUB_FAMILY else 0xFFFFFFFF)
                    for core, res in run_both(code, regs):
                        d = per_core.setdefault(core, {"value": [], "Z": [], "C": []})
                        v = _reg_value(res, name)
                        f = int(res["regs"]["F"]) if v is not None else 0
                        d["value"].append((k, v == 0))
                        d["Z"].append((k, v is not None and bool(f & 2)))
                        d["C"].append((k, v is not None and bool(f & 1)))
                for core in ("python core", "rust core"):
                    d = per_core[core]
                    srcs.append((f"{core}, {mnem} [{name}] (result wraps to zero)", _first_width(d["value"])))
                    srcs.append((f"{core}, {mnem} [{name}] (Z flag set when the result wraps to zero)", _first_width(d["Z"])))
                    if family == "ADD":
                        srcs.append((f"{core}, {mnem} [{name}] (C flag set when the result wraps)", _first_width(d["C"])))
            else:
                regs = dict(_ZERO_REGS)
                regs.update(partner_regs)
                for core, res in run_both(code, regs):
                    srcs.append((f"{core}, {mnem} [{name}] (all-ones after borrowing from zero)", _ones_width(_reg_value(res, name))))
            sample["copies"] = {k: v for k, v in srcs}
            it = Item(f"op-width:{family}:{name}", True, ["reg:operation-width", "op-width:" + family],
                      sample if (family, name) in (("INC", "S"), ("ADD", "X")) else None)
            group_check(it, "operation-width", srcs, topic=f"{mnem} on register {name}")
            items.append(it)
    return items


# --------------------------------------------------------------------------------------------------
# C. internal-memory registers
# --------------------------------------------------------------------------------------------------

def _imem_pattern() -> Dict[int, int]:
    """IMEM[0xE0+k] = k<<4: the page (high nibble) of an accessed address identifies which pointer byte was used."""
    return {0x100000 + 0xE0 + k: (k << 4) for k in range(16)}


_POINTER_NOISE = frozenset({0xEC, 0xED, 0xEE, 0xFB})


def _imem_offsets_used(res: Dict[str, Any], base: int = 0x100000) -> Tuple[List[int], List[int]]:
    """(data reads, writes) inside internal memory, as offsets. The Rust core always samples BP/PX/PY (and
    IMR) before forming an address, the Python core only the pointer it needs: reads of offsets of the form
    0xEC/0xED/0xEE/0xFB are address-formation noise, never the data access of the probes used here (whose
    data offsets end in 0, 3 or 5)."""
    rd = sorted({a - base for a in res.get("reads", []) if base <= a < base + 0x100 and (a - base) not in _POINTER_NOISE})
    wr = sorted({a - base for a, _ in res.get("writes", []) if base <= a < base + 0x100})
    return rd, wr


def check_imem(rust: Any, dump: Dict[str, Any]) -> List[Item]:
    from sc62015.pysc62015.instr.opcodes import IMEMRegisters

    items: List[Item] = []
    py = {n: int(m.value) for n, m in IMEMRegisters.__members__.items()}
    rs = {k[len("memory.IMEM_"):-len("_OFFSET")]: int(v) for k, v in dump["consts"].items()
          if k.startswith("memory.IMEM_") and k.endswith("_OFFSET")}
    # private copies observed behaviourally
    extra: Dict[str, List[Tuple[str, Any]]] = {}
    resp = rust.call({"cmd": "c17.timer_isr"})
    if not resp.get("ok"):
        raise HarnessError(f"c17.timer_isr failed: {resp}")
    nz = [int(o) for o, _ in resp.get("nonzero", [])]
    extra["ISR"] = [("rust timer.rs, byte set when the main timer fires",
                     nz[0] if len(nz) == 1 and resp.get("fired") == [True, False] else f"unrecognised {resp}")]
    for n in sorted(set(py) | set(rs)):
        srcs: List[Tuple[str, Any]] = []
        if n in py:
            srcs.append((f"opcodes.IMEMRegisters.{n}", py[n]))
        if n in rs:
            srcs.append((f"rust memory::IMEM_{n}_OFFSET", rs[n]))
        srcs += extra.get(n, [])
        it = Item(f"imem:{n}", len(srcs) >= 2, ["imem:" + ("both" if len(srcs) >= 2 else "python-only")],
                  {"name": n, "copies": {k: hex(v) for k, v in srcs}} if len(srcs) >= 2 else None)
        if n in rs and n not in py:
            it.violate("imem-offset", f"rust memory::IMEM_{n}_OFFSET", "names a register the python table does not have", n)
        group_check(it, "imem-offset", srcs, topic=f"IMEM register {n}")
        if n in py and not (0 <= py[n] < IMEM_BASE_EXPECTED_LEN):
            it.violate("imem-offset", f"opcodes.IMEMRegisters.{n}", "lies outside the 256-byte internal memory", hex(py[n]))
        items.append(it)

    # BP / PX / PY as *used* by the two cores: MV (m),(n) with and without PRE 0x37 = (PX+m),(PY+n)
    pat = _imem_pattern()
    for name, code, pick in (("BP", bytes([0xC8, 0x03, 0x05]), ("w", 0x03)),
                             ("PX", bytes([0x37, 0xC8, 0x03, 0x05]), ("w", 0x03)),
                             ("PY", bytes([0x37, 0xC8, 0x03, 0x05]), ("r", 0x05))):
        def used(res: Dict[str, Any]) -> Any:
            rd, wr = _imem_offsets_used(res)
            lst = wr if pick[0] == "w" else rd
            if "err" in res or len(lst) != 1 or (lst[0] & 0x0F) != pick[1]:
                return f"unrecognised access pattern r={rd} w={wr}"
            return 0xE0 + (lst[0] >> 4)

        p = py_run(code, BASE_REGS, pat)
        r = rs_run(rust, code, BASE_REGS, pat)
        srcs = [(f"opcodes.IMEMRegisters.{name}", py.get(name)),
                (f"rust memory::IMEM_{name}_OFFSET", rs.get(name)),
                (f"python core, pointer byte used for {name}", used(p)),
                (f"rust core, pointer byte used for {name}", used(r))]
        it = Item(f"imem-use:{name}", True, ["imem:pointer-use"], {"pointer": name, "code": code.hex(),
                                                                  "copies": {k: _hex(v) for k, v in srcs}})
        group_check(it, "imem-pointer", srcs, topic=f"IMEM pointer {name}")
        items.append(it)
    return items


# --------------------------------------------------------------------------------------------------
# C2. the key-port window (which internal-memory offsets are keyboard ports), copy by copy
# --------------------------------------------------------------------------------------------------
# KOL/KOH/KIL are named in IMEMRegisters and memory.rs (judged in imem:*), but the *window* they form is copied
# again wherever accesses are routed to the keyboard: MemoryImage::is_keyboard_offset / requires_python,
# KeyboardMatrix::handle_read / handle_write, pce500's keyboard_handler constants and keyboard_io overlay -- and,
# privately, the bus CoreRuntime::step hands to the executor, once for byte accesses and once more for the test
# that splits 16/20/24-bit accesses touching the window.  The private copies are observed: every instruction of the
# table that moves data between a register (or a fixed plain cell) and an internal-memory operand is executed
# through CoreRuntime::step at *every* start offset, once with the keyboard attached and once on a twin without
# keyboard (rt.keyboard = None).  An offset belongs to the window of a path (direction x access width) when what is
# loaded from it / what a store leaves behind depends on the keyboard being there:
#   load : the byte that arrives differs between the twins (the keyboard's latches are made to differ from the
#          planted memory image through KeyboardMatrix::handle_write before the image is planted);
#   store: the memory image afterwards differs between the twins, or a keyboard latch took the byte that the
#          detached twin left in memory at that offset.
# For a wide path every offset is covered by several accesses (one per byte position); "at some start offset" and
# "at every start offset" must both give the window -- the position of the operand must not matter.

_KIO_FIXED = 0x10          # plain internal cell used as the other operand of (m),(n) rows
_KIO_LATCHES = [[0xF0, 0xA1], [0xF1, 0xA2]]  # handed to KeyboardMatrix::handle_write on whatever it accepts
_KIO_STORE_VALUE = {"BA": 0x2211, "I": 0x2211, "X": 0x32211, "Y": 0x32211, "U": 0x32211, "S": 0x32211}


def _kio_image() -> List[int]:
    """Planted internal memory: byte o = o ^ 0x5A (non-zero, distinct), pointers and IMR/ISR zero."""
    img = [(o ^ 0x5A) & 0xFF for o in range(256)]
    for o in (0xEC, 0xED, 0xEE, 0xFB, 0xFC):
        img[o] = 0
    return img


def _offs(v: Any) -> List[str]:
    return [f"{int(o):02X}" for o in sorted(v)]


def _kio_forms(py_table: Dict[int, Any]) -> List[Dict[str, Any]]:
    """Rows of the table that move data between a register / a plain cell and an internal-memory operand."""
    forms: List[Dict[str, Any]] = []
    nbytes = {8: 1, 16: 2, 20: 3}
    for op in sorted(py_table):
        p = py_row(py_table[op])
        if short_name(p["name"]) not in ("MV", "MVW", "MVP") or len(p["operands"]) != 2 or p["rev"]:
            continue
        a, b = p["operands"]

        def regname(o: Dict[str, Any]) -> Optional[str]:
            if o["cls"] == "Reg":
                return _SUB_FAMILY.get(o["reg"], o["reg"])
            if o["cls"] == "RegIL":
                return "I"
            return None

        if regname(a) and b["cls"] == "IMem" and b["bits"] in nbytes:
            forms.append({"op": op, "dir": "load", "w": nbytes[b["bits"]], "reg": regname(a), "text": f"{short_name(p['name'])} r,(n) [{op:02X}]"})
        elif a["cls"] == "IMem" and regname(b) and a["bits"] in nbytes:
            forms.append({"op": op, "dir": "store", "w": nbytes[a["bits"]], "reg": regname(b), "text": f"{short_name(p['name'])} (n),r [{op:02X}]"})
        elif a["cls"] == "IMem" and b["cls"] == "IMem" and a["bits"] == b["bits"] and a["bits"] in nbytes:
            forms.append({"op": op, "dir": "load", "w": nbytes[a["bits"]], "reg": None, "text": f"{short_name(p['name'])} (m),(n) [{op:02X}] source"})
            forms.append({"op": op, "dir": "store", "w": nbytes[a["bits"]], "reg": None, "text": f"{short_name(p['name'])} (m),(n) [{op:02X}] destination"})
    return forms


def _pce500_key_port_copies() -> List[Tuple[str, Any]]:
    """pce500's copies: keyboard_handler constants, the registers its handler accepts, the keyboard_io overlay."""
    out: List[Tuple[str, Any]] = []
    try:
        import pce500.keyboard_handler as KH
        from sc62015.pysc62015 import constants as K

        out.append(("pce500.keyboard_handler.KOL/KOH/KIL", _offs({int(KH.KOL), int(KH.KOH), int(KH.KIL)})))
    except Exception:  # noqa: BLE001
        return out
    try:
        emu = _pce500_emulator(_vector_page())
    except _Skip:
        return out
    except Exception:  # noqa: BLE001
        return out
    try:
        ov = [o for o in emu.memory.overlays if getattr(o, "name", None) == "keyboard_io"]
        if len(ov) == 1:
            base = int(K.INTERNAL_MEMORY_START)
            out.append(("pce500 emulator, keyboard_io overlay", _offs(range(int(ov[0].start) - base, int(ov[0].end) - base + 1))))
    except Exception:  # noqa: BLE001
        pass
    try:
        kb = emu.keyboard
        rd = [o for o in range(256) if kb.handle_register_read(o) is not None]
        wr = [o for o in range(256) if kb.handle_register_write(o, 0x11)]
        out.append(("pce500 KeyboardHandler.handle_register_read (registers served)", _offs(rd)))
        out.append(("pce500 KeyboardHandler.handle_register_write (registers served)", _offs(wr)))
    except Exception:  # noqa: BLE001
        pass
    return out


def check_key_port_window(py_table: Dict[int, Any], rust: Any, dump: Dict[str, Any]) -> List[Item]:
    from sc62015.pysc62015.instr.opcodes import IMEMRegisters

    srcs: List[Tuple[str, Any]] = []
    ports = ("KOL", "KOH", "KIL")
    if all(n in IMEMRegisters.__members__ for n in ports):
        srcs.append(("opcodes.IMEMRegisters.KOL/KOH/KIL", _offs({int(IMEMRegisters[n].value) for n in ports})))
    c = dump["consts"]
    if all(f"memory.IMEM_{n}_OFFSET" in c for n in ports):
        srcs.append(("rust memory::IMEM_KOL/KOH/KIL_OFFSET", _offs({int(c[f"memory.IMEM_{n}_OFFSET"]) for n in ports})))
    resp = rust.call({"cmd": "c17.kio_tables"})
    if not resp.get("ok"):
        raise HarnessError(f"c17.kio_tables failed: {resp}")
    srcs.append(("rust MemoryImage::is_keyboard_offset", _offs(resp["is_keyboard_offset"])))
    srcs.append(("rust MemoryImage::requires_python (offsets that depend on set_keyboard_bridge)", _offs(resp["requires_python_bridge_dependent"])))
    srcs.append(("rust KeyboardMatrix::handle_read (offsets served)", _offs(resp["handle_read"])))
    srcs.append(("rust KeyboardMatrix::handle_write (offsets served)", _offs(resp["handle_write"])))
    srcs += _pce500_key_port_copies()

    # ---- the runtime bus, observed
    forms = _kio_forms(py_table)
    image = _kio_image()
    runs: List[Dict[str, Any]] = []
    index: List[Tuple[int, int]] = []  # (form index, start offset) per pair of runs
    for fi, f in enumerate(forms):
        for s in range(0, 0x100 - f["w"] + 1):
            if f["reg"] is not None:
                code = [f["op"], s]
            elif f["dir"] == "load":
                code = [f["op"], _KIO_FIXED, s]
            else:
                code = [f["op"], s, _KIO_FIXED]
            regs = {"S": 0x20000, "U": 0x28000}
            if f["dir"] == "store" and f["reg"] is not None:
                regs[f["reg"]] = _KIO_STORE_VALUE[f["reg"]]
            for attached in (True, False):
                runs.append({"code": code, "regs": regs, "keyboard": attached})
            index.append((fi, s))
    resp = rust.call({"cmd": "c17.runtime_probe", "imem": image, "kb_writes": _KIO_LATCHES, "runs": runs})
    if not resp.get("ok") or len(resp.get("runs", [])) != len(runs):
        raise HarnessError(f"c17.runtime_probe failed: {str(resp)[:300]}")
    res = resp["runs"]

    # path -> offset -> [served?, ...] over all covering accesses; notes per path for the detail text
    paths: Dict[Tuple[str, int], Dict[int, List[bool]]] = {}
    notes: Dict[Tuple[str, int], List[Tuple[int, bool, str]]] = {}  # (offset, served?, what was seen)
    errors: Dict[Tuple[str, int], str] = {}
    for pi, (fi, s) in enumerate(index):
        f = forms[fi]
        att, det = res[2 * pi], res[2 * pi + 1]
        key = (f["dir"], f["w"])
        cover = paths.setdefault(key, {})
        if att.get("err") or det.get("err") or att.get("kb_after") is None:
            errors.setdefault(key, f"{f['text']} at start offset {s:02X}: {att.get('err') or det.get('err') or 'keyboard missing'}")
            continue
        if f["dir"] == "load":
            if f["reg"] is not None:
                a_bytes = [(int(att["regs"][f["reg"]]) >> (8 * j)) & 0xFF for j in range(f["w"])]
                d_bytes = [(int(det["regs"][f["reg"]]) >> (8 * j)) & 0xFF for j in range(f["w"])]
            else:
                a_bytes = [int(att["imem"][_KIO_FIXED + j]) for j in range(f["w"])]
                d_bytes = [int(det["imem"][_KIO_FIXED + j]) for j in range(f["w"])]
            for j in range(f["w"]):
                hit = a_bytes[j] != d_bytes[j]
                cover.setdefault(s + j, []).append(hit)
                notes.setdefault(key, []).append((s + j, hit, f"{f['text']} at start {s:02X}, byte {j}: {a_bytes[j]:02X} with / {d_bytes[j]:02X} without keyboard"))
        else:
            before = [int(x) for x in att["kb_before"]]
            after = [int(x) for x in att["kb_after"]]
            diff = {o for o in range(256) if int(att["imem"][o]) != int(det["imem"][o])}
            for j in range(f["w"]):
                o = s + j
                landed = int(det["imem"][o])
                latched = any(after[i] == landed and before[i] != landed for i in range(len(after)))
                hit = (o in diff) or latched
                cover.setdefault(o, []).append(hit)
                notes.setdefault(key, []).append((o, hit, f"{f['text']} at start {s:02X}, byte {j}: memory {int(att['imem'][o]):02X} with / {landed:02X} without "
                                                          f"keyboard{', latched by the keyboard' if latched else ''}"))
            for o in sorted(diff - set(range(s, s + f["w"]))):  # outside the operand: still keyboard-dependent
                cover.setdefault(o, []).append(True)
                notes.setdefault(key, []).append((o, True, f"{f['text']} at start {s:02X}: memory outside the operand differs"))

    bits = {1: "8-bit", 2: "16-bit", 3: "20/24-bit"}
    observed: List[Tuple[str, Any, Tuple[str, int]]] = []
    for key in sorted(paths):
        d, w = key
        label = f"rust CoreRuntime bus, {bits[w]} {d}s"
        if key in errors:
            observed.append((f"{label}", f"error ({errors[key]})", key))
            continue
        cover = paths[key]
        some = [o for o, hits in cover.items() if any(hits)]
        every = [o for o, hits in cover.items() if hits and all(hits)]
        if w == 1:
            observed.append((f"{label} (offsets that depend on the keyboard)", _offs(some), key))
            if some != every:
                observed.append((f"{label} (offsets that depend on the keyboard in every instruction form)", _offs(every), key))
        else:
            observed.append((f"{label} (offsets that depend on the keyboard at some start offset)", _offs(some), key))
            observed.append((f"{label} (offsets that depend on the keyboard at every start offset)", _offs(every), key))
    all_srcs = srcs + [(lb, v) for lb, v, _ in observed]
    it = Item("imem-window:keyboard", True, ["imem:key-port-window"],
              {"forms": [f["text"] for f in forms], "runs": len(runs), "copies": {k: v for k, v in all_srcs}})
    before_n = len(it.violations)
    group_check(it, "key-port-window", all_srcs, topic="key-port window")
    # append the witnessing accesses to the detail of the verdicts about observed paths
    by_label = {lb: (key, val) for lb, val, key in observed}
    maj = majority(all_srcs)
    for v in it.violations[before_n:]:
        key, val = by_label.get(v.where, (None, None))
        if key is None or not isinstance(val, list) or not isinstance(maj, list):
            continue
        extra, missing = set(val) - set(maj), set(maj) - set(val)
        wit = [f"offset {o:02X} {'depends on' if hit else 'does not depend on'} the keyboard in {txt}"
               for o, hit, txt in notes.get(key, []) if (f"{o:02X}" in extra and hit) or (f"{o:02X}" in missing and not hit)]
        if wit:
            v.detail = "witnesses: " + "; ".join(wit[:8]) + " || " + (v.detail or "")
    it.labels += [f"kio-path:{bits[w]}-{d}" for d, w in sorted(paths)]
    return [it]


# --------------------------------------------------------------------------------------------------
# D. vectors
# --------------------------------------------------------------------------------------------------

VEC_PAGE = 0xFFF00


def _vector_page() -> Dict[int, int]:
    """byte at a = a & 0xFF for the top 256 bytes: a 3-byte little-endian load identifies its own address."""
    return {VEC_PAGE + i: i for i in range(256)}


def _vector_from_pc(pc: Any) -> Any:
    if not isinstance(pc, int):
        return f"unrecognised ({pc})"
    lo = pc & 0xFF
    if lo <= 0xFD and ((pc >> 8) & 0xFF) == lo + 1 and ((pc >> 16) & 0xF) == ((lo + 2) & 0xF):
        return VEC_PAGE + lo
    return f"unrecognised (pc={pc:#x})"


def _vector_from_pcs(pcs: Sequence[int], note: Any = "") -> Any:
    """Machine-level probes report PC after whole steps: the handler's first instruction (a NOP) may already
    have run, so pc and pc-1 are both tried (the page encoding makes the answer unambiguous)."""
    for pc in pcs:
        for cand in (pc, pc - 1):
            v = _vector_from_pc(cand)
            if isinstance(v, int):
                return v
    return f"unrecognised (pcs={[hex(x) for x in pcs]} {note})"


def check_vectors(rust: Any, dump: Dict[str, Any]) -> List[Item]:
    from sc62015.pysc62015.instr import opcodes as O
    from sc62015.pysc62015.emulator import Emulator, RegisterName

    page = _vector_page()
    pairs = [[a, v] for a, v in sorted(page.items())]
    regs = dict(BASE_REGS)

    # --- interrupt vector
    irq: List[Tuple[str, Any]] = [("opcodes.INTERRUPT_VECTOR_ADDR", int(O.INTERRUPT_VECTOR_ADDR))]
    p = py_run(bytes([0xFE]), regs, page)
    irq.append(("python core, IR instruction", _vector_from_pc(p.get("pc")) if "err" not in p else f"error {p['err']}"))
    r = rs_run(rust, bytes([0xFE]), regs, page)
    irq.append(("rust core, IR instruction", _vector_from_pc(r.get("pc")) if "err" not in r else f"error {r['err']}"))
    resp = rust.call({"cmd": "c17.irq_runtime", "mem": pairs + [[0x1000FB, 0x81], [0x1000FC, 0x01]],
                      "regs": {"PC": 0x10000, "S": 0x20000}, "source": "MTI", "steps": 2})
    if not resp.get("ok"):
        raise HarnessError(f"c17.irq_runtime failed: {resp}")
    pcs = [int(x) for x in resp.get("pcs", [])][1:]
    irq.append(("rust CoreRuntime, hardware interrupt delivery", _vector_from_pcs(pcs, resp.get("errors"))))
    try:
        irq.append(("pce500 emulator, hardware interrupt delivery", _pce500_irq_vector(page)))
    except _Skip:
        pass

    # --- reset vector
    rst: List[Tuple[str, Any]] = [("opcodes.ENTRY_POINT_ADDR", int(O.ENTRY_POINT_ADDR)),
                                  ("rust pce500::ROM_RESET_VECTOR_ADDR", int(dump["consts"]["pce500.ROM_RESET_VECTOR_ADDR"]))]
    p = py_run(bytes([0xFF]), regs, page)
    rst.append(("python core, RESET instruction", _vector_from_pc(p.get("pc")) if "err" not in p else f"error {p['err']}"))
    rm = RawMem(page)
    emu = Emulator(rm, reset_on_init=False)  # type: ignore[arg-type]
    try:
        emu.power_on_reset()
        rst.append(("python Emulator.power_on_reset", _vector_from_pc(int(emu.regs.get(RegisterName.PC)))))
    except BaseException as exc:  # noqa: BLE001
        rst.append(("python Emulator.power_on_reset", f"error {type(exc).__name__}"))
    r = rs_run(rust, bytes([0xFF]), regs, page)
    rst.append(("rust core, RESET instruction", _vector_from_pc(r.get("pc")) if "err" not in r else f"error {r['err']}"))
    resp = rust.call({"cmd": "c17.reset_llama", "seed": 0, "mem": pairs, "pc": 0x1000})
    if not resp.get("ok"):
        raise HarnessError(f"c17.reset_llama failed: {resp}")
    rst.append(("rust llama::eval::power_on_reset", _vector_from_pc(int(resp["pc"]))))
    resp = rust.call({"cmd": "c17.reset_runtime", "mem": pairs, "regs": {"PC": 0x1000}})
    if not resp.get("ok"):
        raise HarnessError(f"c17.reset_runtime failed: {resp}")
    rst.append(("rust CoreRuntime::power_on_reset", _vector_from_pc(int(resp["pc"]))))
    try:
        rst.append(("pce500 emulator, reset with ROM", _pce500_reset_vector(page)))
    except _Skip:
        pass

    irq_major = majority(irq)
    rst_major = majority(rst)
    irq_vals = {v for _, v in irq if isinstance(v, int)}
    rst_vals = {v for _, v in rst if isinstance(v, int)}

    def sym_reset(v: Any, maj: Any) -> str:
        if v in irq_vals and v != maj:
            return "uses the interrupt vector address as reset vector"
        return "differs from the other copies"

    def sym_irq(v: Any, maj: Any) -> str:
        if v in rst_vals and v != maj:
            return "uses the reset vector address as interrupt vector"
        return "differs from the other copies"

    it1 = Item("vector:interrupt", True, ["vector"], {"vector": "interrupt", "copies": {k: _hex(v) for k, v in irq}})
    group_check(it1, "vector:interrupt", irq, sym_irq, "interrupt vector")
    it2 = Item("vector:reset", True, ["vector"], {"vector": "reset", "copies": {k: _hex(v) for k, v in rst}})
    group_check(it2, "vector:reset", rst, sym_reset, "reset vector")
    it3 = Item("vector:distinct", False, ["vector"])
    if irq_major == rst_major:
        it3.violate("vector", "interrupt and reset vector", "are the same address", _hex(irq_major))
    return [it1, it2, it3]


class _Skip(Exception):
    pass


def _pce500_emulator(page: Dict[int, int]) -> Any:
    """A PCE500Emulator with a ROM image whose top 256 bytes are the self-identifying vector page."""
    try:
        from pce500.emulator import PCE500Emulator
    except Exception:
        raise _Skip()
    try:
        emu = PCE500Emulator(trace_enabled=False, perfetto_trace=False, save_lcd_on_exit=False)
    except TypeError:
        try:
            emu = PCE500Emulator()
        except Exception:
            raise _Skip()
    except Exception:
        raise _Skip()
    rom = bytearray(0x40000)
    for a, v in page.items():
        rom[a - 0xC0000] = v
    try:
        emu.load_rom(bytes(rom))
    except Exception:
        raise _Skip()
    return emu


def _pce500_reset_vector(page: Dict[int, int]) -> Any:
    from sc62015.pysc62015.emulator import RegisterName

    emu = _pce500_emulator(page)
    try:
        emu.reset()
        return _vector_from_pc(int(emu.cpu.regs.get(RegisterName.PC)))
    except Exception:
        raise _Skip()


def _pce500_irq_vector(page: Dict[int, int]) -> Any:
    """ON-key interrupt through the machine's public API: IMR = IRM|ONKM, press_key("KEY_ON"), one step."""
    from sc62015.pysc62015.emulator import RegisterName

    emu = _pce500_emulator(page)
    try:
        emu.reset()
        emu.cpu.regs.set(RegisterName.PC, 0xC0000)
        emu.cpu.regs.set(RegisterName.S, 0xBFF00)
        emu.memory.write_byte(0x100000 + 0xFB, 0x88)
        emu.press_key("KEY_ON")
        pcs = []
        for _ in range(2):
            emu.step()
            pcs.append(int(emu.cpu.regs.get(RegisterName.PC)))
    except Exception:
        raise _Skip()
    return _vector_from_pcs(pcs)


# --------------------------------------------------------------------------------------------------
# B3. the machine emulator's trace-record copy of the register layout
# --------------------------------------------------------------------------------------------------
# pce500/emulator.py builds the per-instruction register record of the instruction trace from a register
# snapshot with its *own* arithmetic (A/B out of BA, IL/IH out of I, FC/FZ out of F) -- one more copy of the
# sub-register layout.  Every route that reports registers by name is observed on a grid of boundary values
# of the base registers (zero, all ones, every single bit, two mixed patterns) and compared with what the
# register files themselves answer for the same names, with the tracing switches off (collector called
# directly) and on (record emitted by the step loop; both ways of switching tracing on).

_TRACE_BASES = {"BA": 16, "I": 16, "F": 8}
_TRACE_FULL = ("PC", "BA", "I", "X", "Y", "U", "S", "F")
_TRACE_CODE_AT = 0xB8000          # internal RAM window of the machine: NOPs are planted here


def _trace_grid() -> List[Dict[str, int]]:
    """Boundary values of BA / I / F, varied together; the address registers carry self-identifying values."""
    per: Dict[str, List[int]] = {}
    for base, bits in _TRACE_BASES.items():
        full = (1 << bits) - 1
        vals = [0, full] + [1 << b for b in range(bits)] + [full ^ 1, full ^ 2, 0xA55A & full, 0x1234 & full]
        per[base] = vals
    n = max(len(v) for v in per.values())
    grid = []
    for k in range(n):
        pt = {b: per[b][k % len(per[b])] for b in per}
        pt.update({"X": 0x0ABCDE, "Y": 0x012345, "U": 0x0FFFFF if k % 2 else 0x080001, "S": 0x0BF000})
        grid.append(pt)
    return grid


def _trace_payload_regs(payload: Dict[str, Any]) -> Dict[str, int]:
    return {k[4:].upper(): int(v) for k, v in payload.items() if k.startswith("reg_") and isinstance(v, int)}


def _pce500_trace_routes(grid: Sequence[Dict[str, int]]) -> Dict[str, List[Dict[str, int]]]:
    """{route label: per grid point {register name: value}} for every by-name register report of the machine."""
    import contextlib
    import io
    import os
    import tempfile

    try:
        from pce500.emulator import PCE500Emulator
        import pce500.emulator as PE
        from sc62015.pysc62015.emulator import RegisterName
    except Exception:
        raise _Skip()

    names = list(ALL_REGS)
    routes: Dict[str, List[Dict[str, int]]] = {}

    def plant(emu: Any, pt: Dict[str, int]) -> None:
        for k, v in pt.items():
            emu.cpu.regs.set(RegisterName[k], v)
        emu.cpu.regs.set(RegisterName.PC, _TRACE_CODE_AT)

    def add(label: str, val: Optional[Dict[str, int]]) -> None:
        if val is not None:
            routes.setdefault(label, []).append(dict(val))

    sink = io.StringIO()
    # --- tracing off: collectors and state reports called directly -------------------------------
    try:
        with contextlib.redirect_stdout(sink):
            emu = PCE500Emulator(trace_enabled=False, perfetto_trace=False, save_lcd_on_exit=False)
    except Exception:
        raise _Skip()
    for pt in grid:
        plant(emu, pt)
        add("sc62015 Registers, read by name", {n: int(emu.cpu.regs.get(RegisterName[n])) for n in names})
        snap_fn = getattr(emu.cpu, "snapshot_registers", None)
        if callable(snap_fn) and hasattr(emu, "_collect_trace_registers_from_snapshot"):
            try:
                add("pce500 PCE500Emulator._collect_trace_registers_from_snapshot (observed)",
                    {k: int(v) for k, v in emu._collect_trace_registers_from_snapshot(snap_fn()).items()})
            except Exception:
                pass
        for label, attr in (("pce500 PCE500Emulator._collect_trace_registers (observed)", "_collect_trace_registers"),
                            ("pce500 PCE500Emulator._collect_trace_registers_legacy (observed)",
                             "_collect_trace_registers_legacy")):
            fn = getattr(emu, attr, None)
            if callable(fn):
                try:
                    add(label, {k: int(v) for k, v in fn().items()})
                except Exception:
                    pass
        try:
            st = emu.get_cpu_state()
            rec = {k.upper(): int(v) for k, v in st.items() if k.upper() in names and isinstance(v, int)}
            fl = st.get("flags") or {}
            if "c" in fl:
                rec["FC"] = int(fl["c"])
            if "z" in fl:
                rec["FZ"] = int(fl["z"])
            add("pce500 PCE500Emulator.get_cpu_state (observed)", rec)
        except Exception:
            pass

    # --- tracing on: the record the step loop emits for the instruction about to run -----------------
    def traced(label: str, make: Callable[[str], Any]) -> None:
        tracer = getattr(PE, "new_tracer", None)
        if tracer is None or not hasattr(tracer, "begin_slice"):
            return
        captured: List[Dict[str, Any]] = []
        original = tracer.begin_slice

        def spy(track: Any, name: Any, payload: Any = None, *a: Any, **k: Any) -> Any:
            if track == "Instructions" and isinstance(payload, dict):
                captured.append(dict(payload))
            return original(track, name, payload, *a, **k)

        with tempfile.TemporaryDirectory(prefix="c17trace") as tmp:
            emu2 = None
            try:
                with contextlib.redirect_stdout(sink):
                    emu2 = make(os.path.join(tmp, "t.perfetto-trace"))
                if not (getattr(emu2, "_new_trace_enabled", False) and tracer.enabled):
                    return
                tracer.begin_slice = spy  # type: ignore[method-assign]
                for off in range(8):
                    emu2.memory.write_byte(_TRACE_CODE_AT + off, 0x00)
                recs: List[Dict[str, int]] = []
                for pt in grid:
                    plant(emu2, pt)
                    before = len(captured)
                    with contextlib.redirect_stdout(sink):
                        emu2.step()
                    if len(captured) != before + 1:
                        return
                    recs.append(_trace_payload_regs(captured[-1]))
                routes[label] = recs
            except Exception:
                return
            finally:
                try:
                    del tracer.begin_slice
                except Exception:
                    pass
                with contextlib.redirect_stdout(sink):
                    try:
                        if emu2 is not None:
                            emu2.stop_tracing()
                    except Exception:
                        pass
                    try:
                        tracer.safe_stop()
                        PE.trace_dispatcher.stop_trace()
                    except Exception:
                        pass

    def ctor(path: str) -> Any:
        return PCE500Emulator(trace_enabled=False, perfetto_trace=True, enable_new_tracing=True,
                              save_lcd_on_exit=False, trace_path=path)

    def late(path: str) -> Any:
        e = PCE500Emulator(trace_enabled=False, perfetto_trace=False, save_lcd_on_exit=False)
        e.start_tracing(path)
        return e

    traced("pce500 instruction-trace record, perfetto_trace + enable_new_tracing (observed)", ctor)
    traced("pce500 instruction-trace record, start_tracing() (observed)", late)
    return routes


def check_trace_layout(rust: Any) -> List[Item]:
    from sc62015.arch import SC62015
    from sc62015.pysc62015 import emulator as E

    grid = _trace_grid()
    try:
        routes = _pce500_trace_routes(grid)
    except _Skip:
        return []
    # the Rust register file, asked for the same names on the same grid
    ops: List[List[Any]] = []
    for pt in grid:
        ops.append(["new"])
        ops += [["set", k, v] for k, v in pt.items()]
        ops.append(["set", "PC", _TRACE_CODE_AT])
        ops += [["get", n] for n in ALL_REGS]
    resp = rust.call({"cmd": "c17.regscript", "ops": ops})
    if not resp.get("ok"):
        raise HarnessError(f"c17.regscript failed: {resp}")
    vals = [int(v) for v in resp["values"]]
    routes["rust LlamaState, read by name"] = [
        {n: vals[k * len(ALL_REGS) + j] for j, n in enumerate(ALL_REGS)} for k in range(len(grid))]
    # the declared layouts applied to the base value
    arch_regs = SC62015.regs
    items: List[Item] = []
    for name in ALL_REGS:
        base = SUBREGS.get(name)
        srcs: List[Tuple[str, Any]] = []
        for label, recs in routes.items():
            if len(recs) == len(grid) and all(name in r for r in recs):
                srcs.append((f"{label} [{name}]", [r[name] for r in recs]))
        if base is not None:
            info = E.Registers._SUBREG_INFO.get(E.RegisterName[name])
            if info is not None:
                _, shift, mask = info
                srcs.append((f"emulator.Registers._SUBREG_INFO applied to {base} [{name}]",
                             [(pt[base] >> int(shift)) & int(mask) for pt in grid]))
            if name in arch_regs and str(arch_regs[name].name) == base:
                ri = arch_regs[name]
                srcs.append((f"arch.SC62015.regs applied to {base} [{name}]",
                             [(pt[base] >> (8 * int(ri.offset))) & ((1 << (8 * int(ri.size))) - 1) for pt in grid]))
        kind = "trace-subreg" if base is not None else "trace-reg"
        traced_routes = sum(1 for lb, _ in srcs if "instruction-trace record" in lb)
        it = Item(f"{kind}:{name}", len(srcs) >= 2,
                  [f"{kind}", f"{kind}:traced-routes={traced_routes}"],
                  {"register": name, "grid_points": len(grid), "routes": [lb for lb, _ in srcs]})
        group_check(it, "register-report-layout" if base is not None else "register-report-value", srcs,
                    topic=f"register {name} as reported by name")
        items.append(it)
    return items


# --------------------------------------------------------------------------------------------------
# E. address-space constants and the PRE table
# --------------------------------------------------------------------------------------------------

def check_address_space(rust: Any, dump: Dict[str, Any]) -> List[Item]:
    from sc62015.pysc62015 import constants as K

    c = dump["consts"]
    items: List[Item] = []
    try:
        import pce500.emulator as PE
        import pce500.memory as PM
    except Exception:
        PE = PM = None  # type: ignore[assignment]

    # where does internal memory start: constants + what each core actually addresses for (n)
    p = py_run(bytes([0x32, 0x80, 0x05]), BASE_REGS, {})
    r = rs_run(rust, bytes([0x32, 0x80, 0x05]), BASE_REGS, {})

    def base_of(res: Dict[str, Any]) -> Any:
        return _imem_base(res)

    bounds = [a for a, internal, _ in dump["is_internal"] if internal]
    srcs: List[Tuple[str, Any]] = [
        ("constants.INTERNAL_MEMORY_START", int(K.INTERNAL_MEMORY_START)),
        ("rust memory::INTERNAL_MEMORY_START", int(c["memory.INTERNAL_MEMORY_START"])),
        ("rust MemoryImage::is_internal (first internal address probed)", min(bounds) if bounds else "none"),
        ("python core / lifter, address used for MV A,(05)", base_of(p)),
        ("rust core, address used for MV A,(05)", base_of(r)),
    ]
    if PE is not None:
        srcs.append(("pce500.emulator.INTERNAL_MEMORY_START", int(PE.INTERNAL_MEMORY_START)))
        srcs.append(("pce500.memory.INTERNAL_MEMORY_START", int(PM.INTERNAL_MEMORY_START)))
    it = Item("const:INTERNAL_MEMORY_START", True, ["const:address-space"], {"copies": {k: _hex(v) for k, v in srcs}})
    group_check(it, "address-space", srcs)
    items.append(it)

    last = max(bounds) if bounds else -1
    nxt = [a for a, internal, _ in dump["is_internal"] if not internal and a > last]
    srcs = [("constants.INTERNAL_MEMORY_LENGTH", int(K.INTERNAL_MEMORY_LENGTH)),
            ("rust memory::INTERNAL_SPACE", int(c["memory.INTERNAL_SPACE"])),
            ("rust memory::INTERNAL_ADDR_MASK + 1", int(c["memory.INTERNAL_ADDR_MASK"]) + 1)]
    if bounds and nxt and min(nxt) == last + 1:
        srcs.append(("rust MemoryImage::is_internal (extent probed)", last + 1 - min(bounds)))
    it = Item("const:INTERNAL_MEMORY_LENGTH", True, ["const:address-space"], {"copies": {k: _hex(v) for k, v in srcs}})
    group_check(it, "address-space", srcs)
    items.append(it)

    srcs = [("constants.ADDRESS_SPACE_SIZE", int(K.ADDRESS_SPACE_SIZE)),
            ("constants.INTERNAL_MEMORY_START + INTERNAL_MEMORY_LENGTH", int(K.INTERNAL_MEMORY_START) + int(K.INTERNAL_MEMORY_LENGTH)),
            ("rust memory::EXTERNAL_SPACE + INTERNAL_SPACE", int(c["memory.EXTERNAL_SPACE"]) + int(c["memory.INTERNAL_SPACE"])),
            ("rust memory::INTERNAL_MEMORY_START + INTERNAL_SPACE", int(c["memory.INTERNAL_MEMORY_START"]) + int(c["memory.INTERNAL_SPACE"]))]
    it = Item("const:ADDRESS_SPACE_SIZE", True, ["const:address-space"], {"copies": {k: _hex(v) for k, v in srcs}})
    group_check(it, "address-space", srcs)
    items.append(it)

    srcs = [("constants.PC_MASK + 1", int(K.PC_MASK) + 1),
            ("constants.ADDRESS_SPACE_SIZE - INTERNAL_MEMORY_LENGTH", int(K.ADDRESS_SPACE_SIZE) - int(K.INTERNAL_MEMORY_LENGTH)),
            ("rust memory::EXTERNAL_SPACE", int(c["memory.EXTERNAL_SPACE"])),
            ("rust mask_for(PC) + 1", int(dump["mask_for"]["PC"]) + 1)]
    it = Item("const:EXTERNAL_SPACE", True, ["const:address-space"], {"copies": {k: _hex(v) for k, v in srcs}})
    group_check(it, "address-space", srcs)
    items.append(it)

    if PE is not None:
        cls = PE.PCE500Emulator
        for name, pyv, rsk in (("ROM_WINDOW_START", getattr(cls, "INTERNAL_ROM_START", None), "pce500.ROM_WINDOW_START"),
                               ("ROM_WINDOW_LEN", getattr(cls, "INTERNAL_ROM_SIZE", None), "pce500.ROM_WINDOW_LEN"),
                               ("INTERNAL_RAM_START", getattr(cls, "INTERNAL_RAM_START", None), "memory.INTERNAL_RAM_START"),
                               ("INTERNAL_RAM_SIZE", getattr(cls, "INTERNAL_RAM_SIZE", None), "memory.INTERNAL_RAM_SIZE")):
            if pyv is None:
                continue
            srcs = [(f"pce500.emulator.PCE500Emulator.{'INTERNAL_ROM_START' if name == 'ROM_WINDOW_START' else 'INTERNAL_ROM_SIZE' if name == 'ROM_WINDOW_LEN' else name}", int(pyv)),
                    (f"rust {rsk.replace('.', '::')}", int(c[rsk]))]
            it = Item(f"const:{name}", True, ["const:machine-map"], {"copies": {k: _hex(v) for k, v in srcs}})
            group_check(it, "address-space", srcs, topic=f"PC-E500 {name}")
            items.append(it)
    return items


def _imem_base(res: Dict[str, Any]) -> Any:
    """Base address of internal memory as used by a core for `MV A,(05)` under PRE 32 (direct addressing):
    the one data read whose low byte is 05 (the Rust core's BP/PX/PY/IMR sampling reads end in EC/ED/EE/FB)."""
    rd = [a for a in res.get("reads", []) if (a & 0xFF) == 0x05]
    if "err" in res or len(rd) != 1:
        return f"unrecognised access pattern {[hex(a) for a in res.get('reads', [])]} {res.get('err', '')}"
    return rd[0] - 5


_MODE_PAGE = {0x0: "N", 0xC: "BP_N", 0xD: "PX_N", 0xE: "PY_N", 0x9: "BP_PX", 0xA: "BP_PY"}


def check_pre_table(rust: Any) -> List[Item]:
    """PRE prefix -> (first, second) internal addressing mode, on MV (m),(n) [opcode C8]:
    python PRE_TABLE vs what each core actually addresses. IMEM BP=C0 PX=D0 PY=E0 so the page of the
    address identifies the mode (N:0x, BP+n:Cx, PX+n:Dx, PY+n:Ex, BP+PX:9x, BP+PY:Ax)."""
    from sc62015.pysc62015.instr import opcodes as O
    from ..gen_enc import PRE_OPCODES

    items: List[Item] = []
    pat = _imem_pattern()
    table_pres = sorted(O.PRE_TABLE[1])
    it = Item("pre:set", True, ["pre"], {"python": [hex(x) for x in table_pres]})
    if table_pres != sorted(PRE_OPCODES) or sorted(O.PRE_TABLE[2]) != table_pres:
        it.violate("pre-table", "opcodes.PRE_TABLE", "does not define exactly the 15 PRE opcodes 21-27,30-37", str(table_pres))
    items.append(it)
    for pre in [None] + list(PRE_OPCODES):
        code = (bytes([pre]) if pre is not None else b"") + bytes([0xC8, 0x03, 0x05])

        def modes(res: Dict[str, Any]) -> Any:
            rd, wr = _imem_offsets_used(res)
            if "err" in res or len(rd) != 1 or len(wr) != 1:
                return f"unrecognised access pattern r={rd} w={wr} {res.get('err', '')}"
            return [_MODE_PAGE.get(wr[0] >> 4, hex(wr[0])), _MODE_PAGE.get(rd[0] >> 4, hex(rd[0]))]

        p = py_run(code, BASE_REGS, pat)
        r = rs_run(rust, code, BASE_REGS, pat)
        srcs: List[Tuple[str, Any]] = []
        tag = f"PRE {pre:02X}" if pre is not None else "no PRE"
        if pre is not None and pre in O.PRE_TABLE[1] and pre in O.PRE_TABLE[2]:
            srcs.append((f"opcodes.PRE_TABLE [{tag}]", [O.PRE_TABLE[1][pre].name, O.PRE_TABLE[2][pre].name]))
        if pre is None:
            srcs.append((f"opcodes.get_addressing_mode default [{tag}]",
                         [O.get_addressing_mode(None, 1).name, O.get_addressing_mode(None, 2).name]))
        srcs.append((f"python core, MV (m),(n) [{tag}]", modes(p)))
        srcs.append((f"rust core, MV (m),(n) [{tag}]", modes(r)))
        it = Item(f"pre:{pre:02X}" if pre is not None else "pre:none", True, ["pre"],
                  {"prefix": tag, "copies": {k: _hex(v) for k, v in srcs}})
        group_check(it, "pre-table", srcs, topic=tag)
        items.append(it)
    return items


# --------------------------------------------------------------------------------------------------
# F. Binary Ninja views
# --------------------------------------------------------------------------------------------------

def check_views() -> List[Item]:
    from sc62015 import view as V
    from sc62015.pysc62015 import constants as K
    from sc62015.pysc62015.instr.opcodes import IMEMRegisters

    items: List[Item] = []
    p = py_run(bytes([0x32, 0x80, 0x05]), BASE_REGS, {})
    lb = _imem_base(p)
    lifter_base = lb if isinstance(lb, int) else None
    space = int(K.ADDRESS_SPACE_SIZE)
    for cls in (V.SC62015RomView, V.SC62015FullView):
        segs = [(s.name, int(s.start), int(s.length)) for s in cls.SEGMENTS]
        vname = cls.__name__
        it = Item(f"view:{vname}:disjoint", len(segs) >= 2, ["view"],
                  {"view": vname, "segments": [[n, hex(a), hex(ln)] for n, a, ln in segs]})
        for i in range(len(segs)):
            for j in range(i + 1, len(segs)):
                (n1, a1, l1), (n2, a2, l2) = segs[i], segs[j]
                if a1 < a2 + l2 and a2 < a1 + l1:
                    lo, hi = sorted([n1, n2])
                    it.violate("view-segments", f"{vname}: {lo} / {hi}", "segments overlap",
                               f"{n1}=[{a1:#x},{a1 + l1:#x}) {n2}=[{a2:#x},{a2 + l2:#x})")
        items.append(it)
        it = Item(f"view:{vname}:inside", True, ["view"])
        for n, a, ln in segs:
            if a < 0 or ln <= 0 or a + ln > space:
                it.violate("view-segments", f"{vname}: {n}", "segment is empty or not inside the address space",
                           f"[{a:#x},{a + ln:#x}) vs ADDRESS_SPACE_SIZE={space:#x}")
        items.append(it)
        it = Item(f"view:{vname}:internal-ram", True, ["view"], {"view": vname, "lifter_base": _hex(lifter_base)})
        iram = [(n, a, ln) for n, a, ln in segs if n == "Internal RAM"]
        if len(iram) != 1:
            it.violate("view-internal-ram", f"{vname}", "does not define exactly one Internal RAM segment", str(segs))
        else:
            _, a, ln = iram[0]
            if lifter_base is None:
                raise HarnessError("could not observe the lifter's internal-memory base address")
            if a != lifter_base:
                it.violate("view-internal-ram", f"{vname}: Internal RAM", "does not start at the address the lifter uses",
                           f"segment start {a:#x}, lifter uses {lifter_base:#x}")
            elif ln != int(K.INTERNAL_MEMORY_LENGTH):
                it.violate("view-internal-ram", f"{vname}: Internal RAM", "length differs from INTERNAL_MEMORY_LENGTH",
                           f"segment length {ln:#x}")
            top = max(int(m.value) for m in IMEMRegisters)
            if not (a <= lifter_base and lifter_base + top < a + ln):
                it.violate("view-internal-ram", f"{vname}: Internal RAM", "does not cover the named internal registers",
                           f"[{a:#x},{a + ln:#x}) vs {lifter_base:#x}+{top:#x}")
        items.append(it)
    return items


# --------------------------------------------------------------------------------------------------
# F2. what the views really register: init() observed over generated parent-file lengths
# --------------------------------------------------------------------------------------------------
# The SEGMENTS tables are declarations; the segments Binary Ninja gets are whatever init() hands to
# add_auto_segment / add_auto_section for the parent file at hand.  The parent file's length is an input of
# init() that the table dump holds constant (there is no file), so it is generated here: shorter than, equal
# to, one byte around, and far beyond the nominal image, plus the "landmark" lengths at which a file-backed
# segment that followed the file would reach another segment's start / end or the end of the address space.

class _ParentFile:
    """Stand-in for the raw parent BinaryView of a file of `length` bytes (the subset of the BinaryView API a
    view may consult: length / len() / start / end / read / file).  Contents: ROM signature + hash bytes."""

    def __init__(self, length: int, seed: int) -> None:
        import types as _t

        self.length = int(length)
        self.start = 0
        self.end = int(length)
        self._seed = seed
        self.file = _t.SimpleNamespace(filename="image.bin", original_filename="image.bin")

    def __len__(self) -> int:
        return self.length

    def _byte(self, off: int) -> int:
        sig = (0x2A, 0x0A, 0x00, 0x00)
        return sig[off] if off < 4 else (mix32(self._seed, off) & 0xFF)

    def read(self, addr: int, n: int) -> bytes:
        lo = max(0, int(addr))
        hi = min(self.length, int(addr) + max(0, int(n)))
        return bytes(self._byte(o) for o in range(lo, hi))


class _ViewRecorder:
    """The Binary Ninja BinaryView API *below* the view class (the mock BinaryView lacks it): records what is
    registered.  Sits behind the view class in the MRO, so whatever the view itself defines is used as is."""

    def _rec(self) -> Dict[str, List[Any]]:
        return self.__dict__.setdefault("_c17_rec", {"segments": [], "sections": []})

    def add_auto_segment(self, start: Any, length: Any, data_offset: Any = 0, data_length: Any = 0, flags: Any = None) -> None:
        self._rec()["segments"].append((int(start), int(length), int(data_offset), int(data_length)))

    def add_auto_section(self, name: Any, start: Any, length: Any, *a: Any, **k: Any) -> None:
        self._rec()["sections"].append((str(name), int(start), int(length)))

    def read_int(self, addr: int, size: int, *a: Any, **k: Any) -> int:
        """Little-endian read through the registered file-backed segments (0 where nothing is backed)."""
        v = 0
        for i in range(int(size)):
            b = 0
            for (st, ln, doff, dlen) in self._rec()["segments"]:
                o = int(addr) + i - st
                if 0 <= o < ln and o < dlen:
                    got = self.data.read(doff + o, 1)  # type: ignore[attr-defined]
                    b = got[0] if got else 0
                    break
            v |= b << (8 * i)
        return v

    def define_data_var(self, *a: Any, **k: Any) -> None:
        pass

    def define_auto_symbol(self, *a: Any, **k: Any) -> None:
        pass

    def add_function(self, *a: Any, **k: Any) -> None:
        pass

    def define_user_type(self, *a: Any, **k: Any) -> None:
        pass


class _ArchForViews:
    """Registers the SC62015 architecture with the mocks for the duration of the observation (init() looks it up
    by name and takes its standalone platform); everything added is taken away again."""

    def __enter__(self) -> "_ArchForViews":
        import types as _t
        from binaryninja.architecture import Architecture
        from sc62015.arch import SC62015

        self._registry = getattr(Architecture, "_registry", None)
        self._registered = False
        self._platform = False
        try:
            arch = Architecture["SC62015"]
        except Exception:  # noqa: BLE001
            SC62015.register()
            self._registered = True
            arch = Architecture["SC62015"]
        self._arch = arch
        if not hasattr(arch, "standalone_platform"):
            arch.standalone_platform = _t.SimpleNamespace(  # type: ignore[attr-defined]
                parse_types_from_source=lambda src, *a, **k: _t.SimpleNamespace(types={}))
            self._platform = True
        return self

    def __exit__(self, *exc: Any) -> None:
        if self._platform:
            try:
                delattr(self._arch, "standalone_platform")
            except Exception:  # noqa: BLE001
                pass
        if self._registered and isinstance(self._registry, dict):
            self._registry.pop("SC62015", None)


def observe_view_init(cls: Any, file_length: int, seed: int) -> Dict[str, Any]:
    """Run cls(parent).init() over the recording BinaryView API; never raises."""
    rec_cls = type(cls.__name__, (cls, _ViewRecorder), {})
    out: Dict[str, Any] = {"segments": [], "sections": [], "ok": None}
    try:
        v = rec_cls(_ParentFile(file_length, seed))
        try:
            out["ok"] = bool(v.init())
        except BaseException as exc:  # noqa: BLE001
            out["err"] = f"{type(exc).__name__}: {str(exc)[:120]}"
        rec = v.__dict__.get("_c17_rec") or {}
        out["segments"] = list(rec.get("segments", []))
        out["sections"] = list(rec.get("sections", []))
    except BaseException as exc:  # noqa: BLE001
        out["err"] = f"{type(exc).__name__}: {str(exc)[:120]}"
    return out


VIEW_LENGTH_CLASSES = ("tiny", "shorter", "shorter-by-1", "nominal", "longer-by-1", "trailer", "landmark", "much-longer")


def view_nominal_length(cls: Any) -> int:
    backed = [int(s.file_offset) + int(s.length) for s in cls.SEGMENTS if s.file_offset is not None]
    return max(backed) if backed else 0


def gen_view_file_lengths(cls: Any, seed: int, tier: str, space: int) -> Dict[str, List[int]]:
    """File lengths per class for one view; the fixed boundary lengths are always there, the rest comes from the
    seeded stream.  `landmark`: lengths at which a file-backed segment that ran to the end of the file would end
    exactly at / one byte around another segment's start or end or the end of the address space."""
    st = Stream(seed, 0xC17F, jhash_int(cls.__name__))
    nom = view_nominal_length(cls)
    n_rand = 2 if tier == "quick" else 6
    out: Dict[str, List[int]] = {c: [] for c in VIEW_LENGTH_CLASSES}
    out["tiny"] = sorted({4 + st.below(0xFC) for _ in range(n_rand)})
    out["shorter"] = sorted({0x100 + st.below(max(1, nom - 0x101)) for _ in range(n_rand)})
    out["shorter-by-1"] = [nom - 1]
    out["nominal"] = [nom]
    out["longer-by-1"] = [nom + 1]
    out["trailer"] = sorted({nom + 2 + st.below(0x1000) for _ in range(n_rand)})
    marks: List[int] = []
    edges = sorted({int(s.start) for s in cls.SEGMENTS} | {int(s.start) + int(s.length) for s in cls.SEGMENTS} | {space})
    for s in cls.SEGMENTS:
        if s.file_offset is None:
            continue
        for e in edges:
            for d in (-1, 0, 1):
                ln = e + d - int(s.start) + int(s.file_offset)
                if ln > nom + 1:
                    marks.append(ln)
    marks = sorted(set(marks))
    if marks:
        keep = len(marks) if tier != "quick" else min(len(marks), 4)
        picked = {marks[0]}
        while len(picked) < keep:
            picked.add(st.choice(marks))
        out["landmark"] = sorted(picked)
    out["much-longer"] = sorted({2 * nom, 4 * nom} | {nom + 0x1000 + st.below(7 * nom) for _ in range(n_rand)})
    return out


def jhash_int(name: str) -> int:
    h = 0
    for ch in name:
        h = mix32(h, ord(ch))
    return h


def check_view_init(seed: int, tier: str, forced: Optional[Dict[str, Any]] = None) -> List[Item]:
    from sc62015 import view as V
    from sc62015.pysc62015 import constants as K

    items: List[Item] = []
    p = py_run(bytes([0x32, 0x80, 0x05]), BASE_REGS, {})
    lb = _imem_base(p)
    if not isinstance(lb, int):
        raise HarnessError("could not observe the lifter's internal-memory base address")
    space = int(K.ADDRESS_SPACE_SIZE)
    with _ArchForViews():
        for cls in (V.SC62015RomView, V.SC62015FullView):
            vname = cls.__name__
            route = f"{vname}.init() (observed)"
            declared = [(str(s.name), int(s.start), int(s.length)) for s in cls.SEGMENTS]
            nom = view_nominal_length(cls)
            lengths = gen_view_file_lengths(cls, seed, tier, space)
            for lcls in VIEW_LENGTH_CLASSES:
                iid = f"view-init:{vname}:{lcls}"
                lens = lengths[lcls]
                if forced is not None and forced.get("item") == iid and forced.get("file_lengths"):
                    lens = [int(x) for x in forced["file_lengths"]]
                    seed_used = int(forced.get("content_seed", seed))
                else:
                    seed_used = seed
                case = {"item": iid, "file_lengths": list(lens), "content_seed": seed_used}
                obs = [(ln, observe_view_init(cls, ln, seed_used)) for ln in lens]
                nontrivial = any(ln != nom and len(o["segments"]) >= 2 for ln, o in obs)
                labels = ["view-init", f"view-init:{lcls}"] + (["view-init:nontrivial"] if nontrivial else [])
                if any("err" in o for _, o in obs):
                    labels.append("view-init:raised")
                it = Item(iid, nontrivial, labels,
                          {"view": vname, "file_length_class": lcls, "nominal": hex(nom),
                           "file_lengths": [hex(x) for x in lens],
                           "registered": [[hex(x) for x in sg] for sg in (obs[0][1]["segments"] if obs else [])]})

                it.counts = {"view-init:init-runs": len(obs),
                             "view-init:init-runs:nontrivial (length != nominal, >= 2 segments registered)":
                                 sum(1 for ln, o in obs if ln != nom and len(o["segments"]) >= 2)}

                def bad(subcheck: str, where: str, symptom: str, detail: str) -> None:
                    it.violations.append(Violation(subcheck, where, symptom, dict(case), detail))

                for ln, o in obs:
                    ctx_s = f"parent file of {ln:#x} bytes ({lcls}; nominal {nom:#x})" + (f"; init() raised {o['err']}" if "err" in o else "")
                    segs = o["segments"]
                    secs = o["sections"]
                    names = [secs[i][0] if len(secs) == len(segs) else f"segment #{i}" for i in range(len(segs))]
                    geo = [(names[i], segs[i][0], segs[i][1]) for i in range(len(segs))]
                    for i in range(len(geo)):
                        for j in range(i + 1, len(geo)):
                            (n1, a1, l1), (n2, a2, l2) = geo[i], geo[j]
                            if a1 < a2 + l2 and a2 < a1 + l1:
                                lo, hi = sorted([n1, n2])
                                bad("view-segments", f"{route}: {lo} / {hi}", "segments overlap",
                                    f"{n1}=[{a1:#x},{a1 + l1:#x}) {n2}=[{a2:#x},{a2 + l2:#x}); {ctx_s}")
                    for n, a, l in geo:
                        if a < 0 or l <= 0 or a + l > space:
                            bad("view-segments", f"{route}: {n}", "segment is empty or not inside the address space",
                                f"[{a:#x},{a + l:#x}) vs ADDRESS_SPACE_SIZE={space:#x}; {ctx_s}")
                    iram = [g for g in geo if g[0] == "Internal RAM"]
                    if len(iram) != 1:
                        bad("view-internal-ram", route, "does not define exactly one Internal RAM segment", f"{geo}; {ctx_s}")
                    elif iram[0][1] != lb:
                        bad("view-internal-ram", f"{route}: Internal RAM", "does not start at the address the lifter uses",
                            f"segment start {iram[0][1]:#x}, lifter uses {lb:#x}; {ctx_s}")
                    elif iram[0][2] != int(K.INTERNAL_MEMORY_LENGTH):
                        bad("view-internal-ram", f"{route}: Internal RAM", "length differs from INTERNAL_MEMORY_LENGTH",
                            f"segment length {iram[0][2]:#x}; {ctx_s}")
                    # the registered geometry is a copy of the declared table (and of the class docstring's map)
                    dmap = {n: (a, l) for n, a, l in declared}
                    gmap = {n: (a, l) for n, a, l in geo}
                    for n in sorted(set(dmap) | set(gmap)):
                        if dmap.get(n) != gmap.get(n):
                            bad("view-segments-registered", f"{route}: {n}",
                                "what init() registers differs from the declared SEGMENTS row",
                                f"declared {_hex(dmap.get(n))}, registered {_hex(gmap.get(n))}; {ctx_s}")
                # one fingerprint once per item
                seen = set()
                uniq = []
                for v in it.violations:
                    k = (v.subcheck, v.where, v.symptom)
                    if k not in seen:
                        seen.add(k)
                        uniq.append(v)
                it.violations = uniq
                items.append(it)
    return items


# --------------------------------------------------------------------------------------------------
# driver
# --------------------------------------------------------------------------------------------------

def collect_items(seed: int = 1, tier: str = "quick", forced: Optional[Dict[str, Any]] = None) -> List[Item]:
    """`forced`: a saved case; the generated inputs of the item it names are taken from it instead of the stream."""
    from sc62015.pysc62015.instr.opcode_table import OPCODES

    rsclient.build()
    rust = rsclient.shared()
    dump = rust.call({"cmd": "c17.dump"})
    if not dump.get("ok"):
        raise HarnessError(f"c17.dump failed: {str(dump)[:300]}")
    items: List[Item] = []
    items += check_opcode_rows(dict(OPCODES), dump["opcodes"])
    items += check_lengths(dict(OPCODES), rust)
    items += check_rel_sign(dict(OPCODES), rust)
    items += check_opcode_classes(dict(OPCODES), rust, dump)
    items += check_registers(rust, dump)
    items += check_subreg_histories(rust, seed, tier, forced)
    items += check_flag_programs(dict(OPCODES), rust, seed, tier, forced)
    items += check_snapshot_layout(rust, dump)
    items += check_trace_layout(rust)
    items += check_selector_codes(rust)
    items += check_operation_width(dict(OPCODES), rust, dump)
    items += check_imem(rust, dump)
    items += check_key_port_window(dict(OPCODES), rust, dump)
    items += check_vectors(rust, dump)
    items += check_address_space(rust, dump)
    items += check_pre_table(rust)
    items += check_views()
    items += check_view_init(seed, tier, forced)
    ids = [it.id for it in items]
    if len(set(ids)) != len(ids):
        raise HarnessError("duplicate item ids in C17")
    return items


ASSUMPTIONS = [
    "operand fields the Rust OperandKind cannot express are not compared (ImmOffset sign; width of the "
    "post-inc/pre-dec-only EMemReg of opcode E3; allowed modes of RegIMemOffset at 56/5E; width of EMemIMemOffset)",
    "Rust row name is compared up to the class-name suffix (JP_Abs ~ JP); the Abs/Rel distinction is compared "
    "through InstrKind with the generator script's documented merges (JPF->JpAbs, CALLF->Call, ADCL->Adc, EXW/EXP->Ex)",
    "register widths: storage bytes and effective masks are compared separately; a 20-bit mask in 3 bytes of "
    "storage is the documented interpretation (README register table, constants.PC_MASK)",
    "the Rust-only pseudo-register IMR (mask_for 8 bits, register_width falls to the 24-bit default) has no "
    "Python counterpart and is not compared",
    "encoded length is compared on one canonical encoding per non-prefix opcode (simple addressing modes); "
    "a Python-side exception there is labelled, not judged",
    "the PRE table (private copy in eval.rs) is observed on MV (m),(n) only; the Rust copy of "
    "SINGLE_ADDRESSABLE_OPCODES is private and behaviourally masked by the lone-operand rule: not compared",
    "views: only what the statement says (pairwise disjoint, inside [0, ADDRESS_SPACE_SIZE), Internal RAM at the "
    "lifter's base with INTERNAL_MEMORY_LENGTH as the maintainers' test_view asserts); the one-byte-short device "
    "segments (END-START) are not judged",
    "pce500 package copies (INTERNAL_MEMORY_START, ROM/RAM windows, snapshot register layout, reset path) are "
    "included when the package imports; they are skipped silently otherwise",
    "snapshot register table: a table of (name, width) rows is ordered -- the position of a register inside "
    "registers.bin is the sum of the widths in front of it -- so the copies are compared as {register: [offset, "
    "width]}; only registers.bin is judged here (snapshot metadata, version and continuation belong to C16)",
    "register-pair codes are observed on MV r,r' (FD) and ADD r,r' (46) only, with X or Y as the partner: the "
    "register that changes names the destination, the low 16 bits (MV) / low-byte increment (ADD) name the source; "
    "A vs BA and IL vs I are not distinguished (a width question, judged in the opcode rows); the [r3] pointer "
    "selector only for the documented pointer registers X,Y,U,S (codes 4-7)",
    "operation width of an instruction family on a register: the first of 8/16/20/24 bits at which INC / ADD #1 "
    "brings the value back to zero, sets Z, (ADD) sets C; the all-ones pattern DEC / SUB #1 leave when starting "
    "from zero; what MV / EX deliver from an all-ones partner.  Only partners of the register's own size class "
    "are used (the cores differ on out-of-size register-pair codes: C06's subject); A and IL are read as the low "
    "byte of BA / I (layout judged in subreg:*)",
    "opcode classes: a private classification is observed through one effect per class -- call level +1 / -1 "
    "(start level 2), WAIT = the cycle count (Rust) / the memory.wait_cycles hook (Python) follows I (I = 5 vs 9), "
    "IR = timer.in_interrupt raised, RETI = timer.in_interrupt dropped while the call metrics survive (RESET also "
    "drops it but clears the metrics), RESET = call metrics cleared from level 2, conditional jump = the loop "
    "detector reports a not-taken branch for a never-taken single-successor step / the next PC depends on F "
    "(F = 00 vs 03, no assumption about which polarity is taken).  Every opcode runs in its one canonical encoding; "
    "a step that errors contributes to no class.  The table side is the set of rows carrying the mnemonic(s) the "
    "private copy names in its own comments (CALL/CALLF/IR, RET/RETF/RETI, WAIT, IR, RETI, RESET) resp. JP/JR "
    "rows with a condition",
    "by-name register reports of the machine emulator are compared only on values that went through the register "
    "file (cpu.regs.set -> cpu.snapshot_registers / cpu.regs.get): the collector's own storage masks (24 bits for "
    "the address registers) are not probed with synthetic snapshots.  Tracing-on routes are skipped silently when "
    "the tracer cannot be started; the trace files go to a temporary directory",
    "sub-register layout under write histories: every name of a family is read back after generated histories of "
    "alias and whole-register writes on ONE register file (register-file API of both languages, and for F also "
    "executed SC / RC / ALU A,n / POPU F / POPS F programs ending in PUSHU F); the declared copy is "
    "Registers._SUBREG_INFO applied to the writes, plus the rule both register files state in a comment (writing IL "
    "clears IH).  On the instruction route only the bits of F that the layout names (FC, FZ) are observed: the Python "
    "lifter models F as the two flags, so the upper six bits of a popped F differ between the cores (instruction "
    "semantics, C06).  A whole-register write alone on a fresh state of the same core is a further copy",
    "views, observed: init() runs over a recording stand-in for the Binary Ninja BinaryView API (add_auto_segment / "
    "add_auto_section / read_int / define_* / add_function) placed *behind* the view class in the MRO, on a parent "
    "file object offering length / len() / start / end / read / file, with the architecture registered in the mocks "
    "and a stand-in standalone platform for the duration of the observation.  Segment names come from the section "
    "registered with the segment.  Judged per generated file length: pairwise disjoint, inside the address space, "
    "Internal RAM at the lifter's base, and the registered (name, start, length) equal to the declared SEGMENTS row "
    "(file backing -- data offset / data length -- is not judged)",
    "key-port window of the CoreRuntime bus: an offset belongs to it when the byte loaded from it, or what a store "
    "leaves in memory / in a keyboard latch, depends on the keyboard being attached (twin run with rt.keyboard = "
    "None); the keyboard's latches are set through KeyboardMatrix::handle_write to values that differ from the "
    "planted memory image; instruction forms are the MV/MVW/MVP rows of the table with an internal-memory operand, "
    "BP = PX = PY = 0.  Nothing is asserted about *what* the keyboard answers (C14), only about *where* it is asked",
]


def run(ctx: Ctx) -> Report:
    rep = Report()
    for it in collect_items(ctx.seed, ctx.tier):
        rep.case(it.id if it.nontrivial else None, it.labels,
                 it.sample if (it.sample is not None and _want_sample(rep, it)) else None)
        rep.labels.update(it.counts)
        for v in it.violations:
            rep.violate(v)
    rep.rule = RULE
    rep.exhaustive = True
    rep.assumptions = list(ASSUMPTIONS)
    return rep


_SAMPLE_IDS = ("opcode:42", "opcode:E3", "opcode:56", "len:F0", "reg-width:X", "reg-width:PC", "subreg:B",
               "reg-index:1", "imem:BP", "imem-use:PY", "vector:interrupt", "vector:reset",
               "const:INTERNAL_MEMORY_START", "pre:37", "view:SC62015FullView:disjoint", "opcode:D6",
               "snap-slot:U", "snap-cross:py-to-rs", "regpair-index:mv:6", "ptr-index:7",
               "subreg-order:F:alias-then-whole", "subreg-order:F:executed:alias-then-whole",
               "view-init:SC62015RomView:longer-by-1", "view-init:SC62015RomView:much-longer",
               "opclass:conditional-jump", "opclass:call-level-up", "opclass:interrupt-return", "trace-subreg:FZ",
               "trace-subreg:B", "reg-set:20bit", "op-width:INC:S", "op-width:ADD:X", "op-width:MV:U", "imem-window:keyboard")


def _want_sample(rep: Report, it: Item) -> bool:
    return it.id in _SAMPLE_IDS


def replay(ctx: Ctx, case: Dict[str, Any]) -> List[Violation]:
    want = case.get("item")
    out: List[Violation] = []
    for it in collect_items(ctx.seed, ctx.tier, case):
        if it.id == want:
            out += it.violations
    return out
